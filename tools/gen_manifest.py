#!/venv/bin/python
"""Regenerate /verif/MANIFEST.json from the property modules present under props/ (run: ./tools/gen_manifest.py)"""
import glob
import importlib
import json
import os
import sys

HERE = os.path.dirname(os.path.dirname(os.path.abspath(__file__)))
sys.path.insert(0, HERE)
sys.path.insert(0, os.environ.get("VERIF_REPO", "/repo"))

props = [json.loads(l) for l in open(os.path.join(HERE, "properties.jsonl"))]
ids = [p["id"] for p in props]
NA_REASONS = {}
na_file = os.path.join(HERE, "tools", "not_applicable.json")
if os.path.exists(na_file):
    NA_REASONS = json.load(open(na_file))

CLAIMED = set(open(os.path.join(HERE, "tools", "claimed.txt")).read().split())
checks = []
claimed = set()
for f in sorted(glob.glob(os.path.join(HERE, "props", "c[0-9]*_*.py"))):
    if os.path.basename(f).split("_")[0].upper() not in CLAIMED:
        continue
    mod = importlib.import_module("props." + os.path.basename(f)[:-3])
    pid = mod.PROPERTY_ID
    if getattr(mod, "DISABLED", False) or pid not in CLAIMED:
        continue
    claimed.add(pid)
    checks.append(dict(
        property_id=pid,
        quick_cmd=f"./check {pid} --tier quick",
        thorough_cmd=f"./check {pid} --tier thorough",
        evidence_file=f"evidence/{pid}.json",
        replay_cmd_template=f"./check {pid} --replay {{path}}",
        engine="hypothesis-runner",
        level_claimed=dict(
            category="exploration",
            text=getattr(mod, "LEVEL_TEXT", None) or (
                "Exploration: Hypothesis-generated cases (seeded, sharded over processes) run the real code against an "
                "explicit oracle; violations are bucketed, shrunk and written as replay files. What is explored: "
                + " ".join((mod.__doc__ or "").split())[:900]
                + " -- The evidence file counts generated cases and distinct non-trivial ones by the stated rule; this "
                "level finds violations, it does not prove their absence."),
            design_ref=f"DESIGN.md section 4/{pid}"),
        level_note=getattr(mod, "LEVEL_NOTE", "; ".join(getattr(mod, "ASSUMPTIONS", [])) or
                           "trusted: numpy/scipy linear algebra, the harness oracle code in props/ and vlib/"),
        technique=getattr(mod, "TECHNIQUE", "property-based testing (Hypothesis) against an explicit oracle"),
    ))

not_applicable = [dict(property_id=i, reason=NA_REASONS.get(i, "check not built yet in this round (planned in DESIGN.md section 4); not claimed"))
                  for i in ids if i not in claimed]

manifest = dict(
    version=1,
    setup_cmd="/venv/bin/python -c 'import hypothesis' 2>/dev/null || /venv/bin/pip install -q --no-index --find-links /opt/veriftools/wheels hypothesis",
    hooks=dict(
        guard="WANNIERBERRI_VERIF",
        enable="no source hooks exist: all instrumentation is harness-side (module substitution / wrapping inside the check process); ./check exports WANNIERBERRI_VERIF=1, which the sources do not read",
        baseline_off_cmd="cd /repo && /venv/bin/python -m pytest -ra -q -p no:cacheprovider --timeout=900 --continue-on-collection-errors",
        source_commits=[],
        add_only=True,
    ),
    engines=[dict(name="hypothesis-runner", path="vlib/runner.py", serves_properties=sorted(claimed),
                  kind_free_text="Hypothesis 6.168 property-based testing: seeded, sharded over processes, collect-then-shrink, JSON replay files")],
    checks=checks,
    not_applicable=not_applicable,
    notes="Every check runs /repo's current working tree through PYTHONPATH (override with VERIF_REPO for scratch worktrees). "
          "Exit 0 held / 1 VIOLATION / 2 harness error. See DESIGN.md.",
)
json.dump(manifest, open(os.path.join(HERE, "MANIFEST.json"), "w"), indent=1)
print(f"{len(checks)} checks claimed, {len(not_applicable)} not claimed")
