#!/venv/bin/python
"""Regenerate /verif/MANIFEST.json from the property modules present under props/ (run: ./tools/gen_manifest.py)"""
import glob
import importlib
import json
import os
import sys

HERE = os.path.dirname(os.path.dirname(os.path.abspath(__file__)))
sys.path.insert(0, HERE)
sys.path.insert(0, os.environ.get("VERIF_REPO", "/repo"))

props = [json.loads(l) for l in open(os.path.join(HERE, "properties.jsonl"))]
ids = [p["id"] for p in props]
NA_REASONS = {}
na_file = os.path.join(HERE, "tools", "not_applicable.json")
if os.path.exists(na_file):
    NA_REASONS = json.load(open(na_file))

CLAIMED = set(open(os.path.join(HERE, "tools", "claimed.txt")).read().split())
P = "property-based testing (Hypothesis): "
TECH = {
 "C01": P + "round trip q->R->q + brute-force Wigner-Seitz reference model",
 "C02": P + "differential (4 FFT back ends) against an explicit Fourier-sum reference, incl. call sequences on one object",
 "C03": P + "differential between grid factorisations / FFT libraries of run()",
 "C04": P + "metamorphic (k -> k+G; random unitary gauge in degenerate subspaces)",
 "C05": P + "metamorphic (WF permutation, co-centred unitary rotation) + model-based check of reorder()",
 "C06": P + "model-based testing of refinement histories (history encoded as data) with exact integer/Fraction oracle + exhaustive enumeration of grid lengths",
 "C07": P + "differential irreducible+symmetrised vs full-grid run on symmetrised structure-library models",
 "C08": P + "metamorphic k -> -k on models symmetric by construction, all calculators by reflection",
 "C09": P + "algebraic laws against an exact integer-matrix / Fraction group reference",
 "C10": P + "history invariant: from-scratch weighted sum over the current K list after every iteration (incl. restart-from-earlier histories)",
 "C11": P + "differential uninterrupted vs segmented restarts with injected directory-listing orders",
 "C12": P + "harness-owned scheduler model of ray.wait (fake ray), parallel vs serial differential",
 "C13": P + "reference model of Fermi-sea bookkeeping + finite-difference and shared-run differentials",
 "C14": P + "exact rational (Fraction) reference for tetrahedron volume fractions, permutation/order invariance",
 "C15": P + "exact-Fraction reference partition of band multiplets",
 "C16": P + "algebraic laws + save/load round trip",
 "C17": P + "direct O(N^2) convolution reference + linearity laws",
 "C18": P + "write/read round trips against the generated numpy model",
 "C19": P + "write/read round trips (text and npz), container round trip",
 "C20": P + "covariance oracle over all group elements + idempotence on a structure library",
 "C21": P + "representation laws + first-principles evaluation of real harmonics",
 "C22": P + "validity predicate (completeness, closure, whole shells by brute force, k+b=k'+G)",
 "C23": P + "round trip mesh -> points -> detected mesh with integer ground truth",
 "C24": P + "validity predicate on the gauge (orthonormality, frozen states in span, outer window) on synthetic overlap data",
 "C25": P + "differential against own spin-orbit Hamiltonian assembly; Pauli algebra laws",
 "C26": P + "affinity / endpoint laws, R by R, incl. repeated calls on one interpolator",
 "C27": P + "sum rule + differential against a Fukui-Hatsugai-Suzuki Chern-number reference",
 "C28": P + "differential sea vs surface formulations with calibrated discretisation margins and discrimination guard",
 "C29": P + "reference path model + per-point differential of path tabulation",
 "C30": P + "per-grid-point differential of tabulation + component algebra",
 "C31": P + "differential numerical vs analytic derivatives with propagated error bounds",
 "C32": P + "differential against source-model solvers and own Bloch sums",
 "C33": P + "differential corner energies vs own eigenvalues at the corner k-points",
}
checks = []
claimed = set()
for f in sorted(glob.glob(os.path.join(HERE, "props", "c[0-9]*_*.py"))):
    if os.path.basename(f).split("_")[0].upper() not in CLAIMED:
        continue
    mod = importlib.import_module("props." + os.path.basename(f)[:-3])
    pid = mod.PROPERTY_ID
    if getattr(mod, "DISABLED", False) or pid not in CLAIMED:
        continue
    claimed.add(pid)
    checks.append(dict(
        property_id=pid,
        quick_cmd=f"./check {pid} --tier quick",
        thorough_cmd=f"./check {pid} --tier thorough",
        evidence_file=f"evidence/{pid}.json",
        replay_cmd_template=f"./check {pid} --replay {{path}}",
        engine="hypothesis-runner",
        level_claimed=dict(
            category="exploration",
            text=getattr(mod, "LEVEL_TEXT", None) or (
                "Exploration: Hypothesis-generated cases (seeded, sharded over processes) run the real code against an "
                "explicit oracle; violations are bucketed, shrunk and written as replay files. What is explored: "
                + " ".join((mod.__doc__ or "").split())[:900]
                + " -- The evidence file counts generated cases and distinct non-trivial ones by the stated rule; this "
                "level finds violations, it does not prove their absence."),
            design_ref=f"DESIGN.md section 4/{pid}"),
        level_note=getattr(mod, "LEVEL_NOTE", "; ".join(getattr(mod, "ASSUMPTIONS", [])) or
                           "trusted: numpy/scipy linear algebra, the harness oracle code in props/ and vlib/"),
        technique=getattr(mod, "TECHNIQUE", None) or TECH.get(pid, "property-based testing (Hypothesis) against an explicit oracle"),
    ))

not_applicable = [dict(property_id=i, reason=NA_REASONS.get(i, "check not built yet in this round (planned in DESIGN.md section 4); not claimed"))
                  for i in ids if i not in claimed]

manifest = dict(
    version=1,
    setup_cmd="/venv/bin/python -c 'import hypothesis' 2>/dev/null || /venv/bin/pip install -q --no-index --find-links /opt/veriftools/wheels hypothesis",
    hooks=dict(
        guard="WANNIERBERRI_VERIF",
        enable="no source hooks exist: all instrumentation is harness-side (module substitution / wrapping inside the check process); ./check exports WANNIERBERRI_VERIF=1, which the sources do not read",
        baseline_off_cmd="cd /repo && /venv/bin/python -m pytest -ra -q -p no:cacheprovider --timeout=900 --continue-on-collection-errors",
        source_commits=[],
        add_only=True,
    ),
    engines=[dict(name="hypothesis-runner", path="vlib/runner.py", serves_properties=sorted(claimed),
                  kind_free_text="Hypothesis 6.168 property-based testing: seeded, sharded over processes, collect-then-shrink, JSON replay files")],
    checks=checks,
    not_applicable=not_applicable,
    notes="Every check runs /repo's current working tree through PYTHONPATH (override with VERIF_REPO for scratch worktrees). "
          "Exit 0 held / 1 VIOLATION / 2 harness error. See DESIGN.md.",
)
json.dump(manifest, open(os.path.join(HERE, "MANIFEST.json"), "w"), indent=1)
print(f"{len(checks)} checks claimed, {len(not_applicable)} not claimed")
