#!/bin/bash
# run every claimed check once (tier from $1, default thorough) in /verif against /repo and keep the evidence files
cd "$(dirname "$0")/.."
TIER=${1:-thorough}
for c in $(sort tools/claimed.txt); do
  t0=$(date +%s)
  out=$(./check $c --tier $TIER 2>&1); rc=$?
  echo "$c exit=$rc $(( $(date +%s) - t0 ))s $(echo "$out" | head -1 | cut -c1-170)"
  if [ $rc -ne 0 ]; then echo "$out" | grep -E "VIOLATION|bucket=|HARNESS" | head -6 | cut -c1-500; fi
done
