#!/venv/bin/python
"""Confirm a seeded change delivered by an independent sub-agent and run our checks against it.

  tools/eval_seeded.py <src_dir with patch.diff demo.py meta.json> <seed name> <CHECK> [<CHECK> ...] [--tier quick]

Steps (all in a scratch worktree of /repo HEAD under /var/tmp, removed afterwards; /repo is never touched):
  1. demo.py on the unchanged worktree must exit 0
  2. git apply patch.diff; the package must import; demo.py must exit non-zero
  3. each listed check is run with VERIF_REPO=<worktree>; exit code and VIOLATION lines are recorded
The seed is stored as /verif/seeded/<seed name>/ {patch.diff, demo.py, meta.json, verify.json}.
"""
import argparse, json, os, shutil, subprocess, sys, tempfile, time

ap = argparse.ArgumentParser()
ap.add_argument("src")
ap.add_argument("name")
ap.add_argument("checks", nargs="+")
ap.add_argument("--tier", default="quick")
ap.add_argument("--seed", default="1")
ap.add_argument("--only-checks", action="store_true", help="skip demo confirmation (already stored), just re-run checks")
a = ap.parse_args()
HERE = os.path.dirname(os.path.dirname(os.path.abspath(__file__)))
dst = os.path.join(HERE, "seeded", a.name)
os.makedirs(dst, exist_ok=True)
if os.path.abspath(a.src) != dst:
    for f in ("patch.diff", "demo.py", "meta.json"):
        shutil.copy(os.path.join(a.src, f), os.path.join(dst, f))
wt = tempfile.mkdtemp(prefix="wbseed_", dir="/var/tmp")
os.rmdir(wt)
subprocess.run(["git", "-C", "/repo", "worktree", "add", "--detach", "-q", wt, "HEAD"], check=True)
head = subprocess.run(["git", "-C", "/repo", "rev-parse", "--short", "HEAD"], capture_output=True, text=True).stdout.strip()
out = dict(repo_head=head, at=time.strftime("%Y-%m-%d %H:%M"), checks={})
vf = os.path.join(dst, "verify.json")
if a.only_checks and os.path.exists(vf):
    old = json.load(open(vf))
    out.update({k: old[k] for k in ("demo_unchanged_exit", "demo_changed_exit", "import_ok", "confirmed") if k in old})
    out["checks"] = old.get("checks", {})
env = dict(os.environ, PYTHONPATH=wt, PYTHONHASHSEED="0", OMP_NUM_THREADS="1")


def demo():
    r = subprocess.run(["/venv/bin/python", os.path.join(dst, "demo.py")], cwd=wt, env=env, capture_output=True, text=True, timeout=3000)
    return r.returncode, (r.stdout + r.stderr)[-1500:]


try:
    if not a.only_checks:
        rc0, o0 = demo()
        out["demo_unchanged_exit"] = rc0
    ap_ = subprocess.run(["git", "-C", wt, "apply", os.path.join(dst, "patch.diff")], capture_output=True, text=True)
    if ap_.returncode != 0:
        out["apply_error"] = ap_.stderr[-500:]
        print("PATCH DOES NOT APPLY", ap_.stderr)
        json.dump(out, open(vf, "w"), indent=1)
        sys.exit(3)
    if not a.only_checks:
        imp = subprocess.run(["/venv/bin/python", "-c", "import wannierberri; print(wannierberri.__file__)"], cwd=wt, env=env, capture_output=True, text=True)
        out["import_ok"] = imp.returncode == 0 and wt in imp.stdout
        rc1, o1 = demo()
        out["demo_changed_exit"] = rc1
        out["demo_changed_tail"] = o1[-600:]
        out["confirmed"] = (rc0 == 0 and rc1 != 0 and out["import_ok"])
        print(f"[{a.name}] demo unchanged exit={rc0} changed exit={rc1} import_ok={out['import_ok']} confirmed={out['confirmed']}")
    for c in a.checks:
        e2 = dict(os.environ, VERIF_REPO=wt, VERIF_SEED=a.seed, VERIF_REPLAY_DIR=wt + "_replays")
        t0 = time.time()
        r = subprocess.run([os.path.join(HERE, "check"), c, "--tier", a.tier, "--no-evidence"], env=e2, capture_output=True, text=True)
        lines = [l for l in r.stdout.splitlines() if l.startswith(("VIOLATION", "  bucket", "HARNESS", "KNOWN"))]
        out["checks"][f"{c}:{a.tier}:seed{a.seed}"] = dict(exit=r.returncode, caught=(r.returncode == 1), wall_s=round(time.time() - t0, 1),
                                                        lines=[l[:400] for l in lines[:6]])
        print(f"[{a.name}] {c} {a.tier} exit={r.returncode} " + " | ".join(l[:200] for l in lines[:3]))
finally:
    subprocess.run(["git", "-C", "/repo", "worktree", "remove", "--force", wt])
    shutil.rmtree(wt + "_replays", ignore_errors=True)
    json.dump(out, open(vf, "w"), indent=1)
