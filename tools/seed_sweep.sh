#!/bin/bash
# quiet-on-unchanged-tree sweep: every claimed check at several seeds (quick tier); prints one line per run
cd "$(dirname "$0")/.."
for s in ${SEEDS:-2 3 7 42}; do
  for c in $(cat tools/claimed.txt | sort); do
    out=$(VERIF_SEED=$s ./check $c --tier quick --no-evidence 2>&1)
    rc=$?
    echo "seed=$s $c exit=$rc $(echo "$out" | head -1 | cut -c1-160)"
    if [ $rc -ne 0 ]; then echo "$out" | grep -E "VIOLATION|bucket=|HARNESS" | head -5 | cut -c1-400; fi
  done
done
