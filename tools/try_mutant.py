#!/venv/bin/python
"""Sensitivity testing: apply a textual mutation to a scratch worktree of /repo and run checks against it.

  tools/try_mutant.py --file wannierberri/x.py --old 'text' --new 'text' C02 [C03 ...] [--tier quick] [--wt DIR]
  tools/try_mutant.py --patch file.diff C02

The worktree lives under /var/tmp (never /repo or /verif) and is removed afterwards unless --keep.
Exit code: 0 if every listed check reported a VIOLATION (mutant killed by all), 1 otherwise.
"""
import argparse, os, subprocess, sys, tempfile, shutil

ap = argparse.ArgumentParser()
ap.add_argument("--file"); ap.add_argument("--old"); ap.add_argument("--new")
ap.add_argument("--patch")
ap.add_argument("--tier", default="quick")
ap.add_argument("--seed", default="1")
ap.add_argument("--keep", action="store_true")
ap.add_argument("--count", type=int, default=1, help="replace only first N occurrences")
ap.add_argument("--line", type=int, default=None, help="restrict the replacement to this 1-based line number")
ap.add_argument("checks", nargs="+")
a = ap.parse_args()
wt = tempfile.mkdtemp(prefix="wbmut_", dir="/var/tmp")
os.rmdir(wt)
subprocess.run(["git", "-C", "/repo", "worktree", "add", "--detach", "-q", wt, "HEAD"], check=True)
ok_all = True
try:
    if a.patch:
        subprocess.run(["git", "-C", wt, "apply", os.path.abspath(a.patch)], check=True)
    else:
        p = os.path.join(wt, a.file)
        s = open(p).read()
        if a.line:
            lines = s.split("\n")
            if a.old not in lines[a.line - 1]:
                print("MUTANT-ERROR: old text not found on line", a.line, repr(lines[a.line - 1])); sys.exit(3)
            lines[a.line - 1] = lines[a.line - 1].replace(a.old, a.new)
            open(p, "w").write("\n".join(lines))
        else:
            if a.old not in s:
                print("MUTANT-ERROR: old text not found"); sys.exit(3)
            open(p, "w").write(s.replace(a.old, a.new, a.count))
    here = os.path.dirname(os.path.dirname(os.path.abspath(__file__)))
    for c in a.checks:
        env = dict(os.environ, VERIF_REPO=wt, VERIF_SEED=a.seed, VERIF_REPLAY_DIR=wt + "_replays")
        r = subprocess.run([os.path.join(here, "check"), c, "--tier", a.tier, "--no-evidence"], env=env, capture_output=True, text=True)
        lines = [l for l in r.stdout.splitlines() if l.startswith(("VIOLATION", "  bucket", "HARNESS", c))]
        print(f"[{c}] exit={r.returncode}  " + " | ".join(lines[:4])[:600])
        if r.returncode != 1:
            ok_all = False
finally:
    if not a.keep:
        subprocess.run(["git", "-C", "/repo", "worktree", "remove", "--force", wt])
        shutil.rmtree(wt + "_replays", ignore_errors=True)
sys.exit(0 if ok_all else 1)
