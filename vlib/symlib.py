"""Structure library for the symmetriser based checks C07 / C20 (DESIGN section 3, 'Symmetric systems').

A *structure* is a crystallographic description (lattice family of vlib.wbsys + atoms + one of several
consistent projection sets + optional magnetic order); its free parameters (lattice constants, internal
coordinates) are part of the JSON case.  `build_start(case)` makes a random, NON symmetric start model with the
number and order of Wannier functions that System_R.symmetrize() documents (for every projection string: the
atoms of that species in the order of `positions`, for every atom its orbitals, spin interlaced), and
`symmetrize(system, struct)` calls the real symmetriser.  `build_symmetrizer(resolved struct, frames)` is the second
route: the harness builds the irrep SpaceGroup, one Projection per Wyckoff orbit with SITE DEPENDENT local frames and
the SymmetrizerSAWF for System_R.symmetrize2(), and returns the order of Wannier functions this symmetriser expects.

The family 'nonprim' holds NON-PRIMITIVE cells (conventional bcc / fcc, supercells): their space group contains pure
fractional translations, every rotation occurs with several translations, and one species has several atoms that are
related by a translation only.  C07 does not draw from this family.

Projection sets are *consistent*: the span of the orbitals on a site is closed under every operation of the
group (hybrids such as sp2, pz, t2g are only offered where the lattice operations keep their subspace).
No wannierberri import at module level.
"""
import numpy as np
from hypothesis import strategies as st

from . import wbsys
from .util import fl, rng_of, crandom

NORB = {"s": 1, "p": 3, "d": 5, "f": 7, "sp": 2, "p2": 2, "pxy": 2, "sp2": 3, "pz": 1, "sp3": 4, "sp3d2": 6,
        "t2g": 3, "eg": 2}


def norb(orbital):
    return sum(NORB[o.strip()] for o in orbital.split(";"))


S3 = 1 / np.sqrt(3.0)

# ------------------------------------------------------------------------------------------------
# the library.  Every entry: lat kind, atoms(u, v) -> (names, positions), list of projection sets, soc allowed,
# list of magnetic variants {tag: magmom per atom} (a magnetic variant forces soc=True).
# u, v are free internal coordinates in (0.05 .. 0.45)


def _one(u, v):
    return ["X"], [[0, 0, 0]]


def _cscl(u, v):
    return ["A", "B"], [[0, 0, 0], [0.5, 0.5, 0.5]]


def _zincblende(u, v):
    return ["Ga", "As"], [[0, 0, 0], [0.25, 0.25, 0.25]]


def _diamond(u, v):
    return ["C", "C"], [[0, 0, 0], [0.25, 0.25, 0.25]]


def _graphene(u, v):
    return ["C", "C"], [[1 / 3, 2 / 3, 0], [2 / 3, 1 / 3, 0]]


def _hbn(u, v):
    return ["B", "N"], [[1 / 3, 2 / 3, 0], [2 / 3, 1 / 3, 0]]


def _chain(u, v):  # Te-like: P3_1 21, three atoms on a screw axis
    return ["Te", "Te", "Te"], [[u, 0, 0], [0, u, 1 / 3], [-u, -u, 2 / 3]]


def _wurtzite(u, v):
    z = 0.3 + 0.2 * u
    return ["Zn", "Zn", "O", "O"], [[1 / 3, 2 / 3, 0], [2 / 3, 1 / 3, 0.5], [1 / 3, 2 / 3, z], [2 / 3, 1 / 3, 0.5 + z]]


def _polar2(u, v):  # second species on the axis: removes the horizontal mirror / inversion
    return ["A", "B"], [[0, 0, 0], [0, 0, u]]


def _polar_c4v(u, v):
    return ["A", "B"], [[0, 0, 0], [0.5, 0.5, u]]


def _pair_inv(u, v):  # B pair related by inversion through A
    return ["A", "B", "B"], [[0, 0, 0], [u, v, 0.5 * (u + v)], [-u, -v, -0.5 * (u + v)]]


def _mono_pair(u, v):  # monoclinic (unique axis y): B pair in the mirror plane, related by C2y / inversion
    return ["A", "B", "B"], [[0, 0, 0], [u, 0, v], [-u, 0, -v]]


def _mixed(u, v):  # same species on two different Wyckoff orbits, listed interleaved: symmetrize() has to reorder the WFs
    return ["X", "X", "X"], [[0, 0, u], [0.5, 0.5, 0], [0, 0, -u]]


def _afm(u, v):
    return ["Mn", "Mn"], [[0, 0, 0], [0.5, 0.5, 0.5]]


def _kagome(u, v):
    return ["Mn", "Mn", "Mn"], [[0.5, 0, 0], [0, 0.5, 0], [0.5, 0.5, 0]]


# --- non-primitive cells: the space group contains pure fractional translations (next to every {g|t} also {g|t+c})


def _bcc_conv(u, v):
    return ["X", "X"], [[0, 0, 0], [0.5, 0.5, 0.5]]


def _fcc_conv(u, v):
    return ["X"] * 4, [[0, 0, 0], [0, 0.5, 0.5], [0.5, 0, 0.5], [0.5, 0.5, 0]]


def _super_x(u, v):   # 2x1x1 supercell of a one-atom cell
    return ["X", "X"], [[0, 0, 0], [0.5, 0, 0]]


def _super_z(u, v):   # 1x1x2 supercell of a one-atom cell
    return ["X", "X"], [[0, 0, 0], [0, 0, 0.5]]


def _cscl_super_x(u, v):   # 2x1x1 supercell of CsCl, the two species listed interleaved
    return ["A", "B", "A", "B"], [[0, 0, 0], [0.25, 0.5, 0.5], [0.5, 0, 0], [0.75, 0.5, 0.5]]


def _graphene_super_z(u, v):   # 1x1x2 supercell of (AA stacked) graphene
    return ["C"] * 4, [[1 / 3, 2 / 3, 0], [2 / 3, 1 / 3, 0], [1 / 3, 2 / 3, 0.5], [2 / 3, 1 / 3, 0.5]]


LIB = {
    "sc": dict(lat="sc", atoms=_one, proj=[["X:s"], ["X:p"], ["X:s", "X:p"], ["X:t2g"], ["X:eg"], ["X:sp3d2"], ["X:d"],
                                           ["X:s;p"], ["X:sp3"]],
               mag={"fm_z": [[0, 0, 1]], "fm_x": [[1, 0, 0]], "fm_111": [[S3, S3, S3]]}),
    "cscl": dict(lat="sc", atoms=_cscl, proj=[["A:s", "B:s"], ["A:s", "B:p"], ["A:p", "B:s"], ["A:sp3", "B:s"], ["A:t2g", "B:s"]],
                 mag={"fm_z": [[0, 0, 1], [0, 0, 0]], "ferri_z": [[0, 0, 1], [0, 0, -0.5]]}),
    "zincblende": dict(lat="fcc", atoms=_zincblende, proj=[["Ga:sp3", "As:sp3"], ["Ga:s", "As:p"], ["Ga:s", "As:s"], ["Ga:p", "As:s"]],
                       mag={}),
    "diamond": dict(lat="fcc", atoms=_diamond, proj=[["C:s"], ["C:sp3"], ["C:p"]], mag={}),
    "fcc": dict(lat="fcc", atoms=_one, proj=[["X:s"], ["X:p"], ["X:t2g"], ["X:s", "X:p"]],
                mag={"fm_z": [[0, 0, 1]], "fm_111": [[S3, S3, S3]]}),
    "bcc": dict(lat="bcc", atoms=_one, proj=[["X:s"], ["X:p"], ["X:t2g"], ["X:eg"], ["X:s", "X:p"], ["X:sp3d2"]],
                mag={"fm_z": [[0, 0, 1]], "fm_x": [[1, 0, 0]], "fm_111": [[S3, S3, S3]], "fm_110": [[1, 1, 0]]}),
    "afm_cscl": dict(lat="sc", atoms=_afm, proj=[["Mn:s"], ["Mn:p"], ["Mn:t2g"]],
                     mag={"afm_z": [[0, 0, 1], [0, 0, -1]], "afm_x": [[1, 0, 0], [-1, 0, 0]], "afm_111": [[S3, S3, S3], [-S3, -S3, -S3]]},
                     mag_only=True),
    "afm_tetra": dict(lat="tetragonal", atoms=_afm, proj=[["Mn:s"], ["Mn:p"], ["Mn:pz"], ["Mn:pxy"]],
                      mag={"afm_z": [[0, 0, 1], [0, 0, -1]], "afm_x": [[1, 0, 0], [-1, 0, 0]]}, mag_only=True),
    "graphene": dict(lat="hexagonal", atoms=_graphene, proj=[["C:pz"], ["C:sp2"], ["C:sp2", "C:pz"], ["C:s"], ["C:p"], ["C:pxy"]],
                     mag={"fm_z": [[0, 0, 1], [0, 0, 1]], "afm_z": [[0, 0, 1], [0, 0, -1]], "fm_x": [[1, 0, 0], [1, 0, 0]]}),
    "graphene60": dict(lat="hexagonal60", atoms=lambda u, v: (["C", "C"], [[1 / 3, 1 / 3, 0], [2 / 3, 2 / 3, 0]]),
                       proj=[["C:pz"], ["C:sp2"], ["C:s"], ["C:p"]], mag={}),
    "hbn": dict(lat="hexagonal", atoms=_hbn, proj=[["B:pz", "N:pz"], ["B:s", "N:p"], ["B:sp2", "N:pz"], ["B:s", "N:s"]],
                mag={"fm_z": [[0, 0, 1], [0, 0, 0]]}),
    "hex1": dict(lat="hexagonal", atoms=_one, proj=[["X:s"], ["X:p"], ["X:pz"], ["X:pxy"], ["X:s", "X:pz"], ["X:d"]],
                 mag={"fm_z": [[0, 0, 1]], "fm_x": [[1, 0, 0]]}),
    "kagome": dict(lat="hexagonal", atoms=_kagome, proj=[["Mn:s"], ["Mn:pz"], ["Mn:p"]],
                   mag={"fm_z": [[0, 0, 1]] * 3,
                        "ncl120": [[1, 0, 0], [-0.5, np.sqrt(3) / 2, 0], [-0.5, -np.sqrt(3) / 2, 0]]}),
    "chain": dict(lat="hexagonal", atoms=_chain, proj=[["Te:s"], ["Te:p"], ["Te:pz"]], mag={}),
    "wurtzite": dict(lat="hexagonal", atoms=_wurtzite, proj=[["Zn:s", "O:s"], ["Zn:s", "O:p"], ["Zn:s", "O:pz"]], mag={}),
    "rhombo": dict(lat="rhombohedral", atoms=_one, proj=[["X:s"], ["X:p"], ["X:d"]], mag={}),
    "tetragonal": dict(lat="tetragonal", atoms=_one, proj=[["X:s"], ["X:p"], ["X:pz"], ["X:pxy"], ["X:s", "X:pz"], ["X:t2g"], ["X:eg"], ["X:d"]],
                       mag={"fm_z": [[0, 0, 1]], "fm_x": [[1, 0, 0]]}),
    "tetra_polar": dict(lat="tetragonal", atoms=_polar_c4v, proj=[["A:s", "B:s"], ["A:p", "B:s"], ["A:s", "B:pz"], ["A:pxy", "B:s"]],
                        mag={"fm_z": [[0, 0, 1], [0, 0, 0]]}),
    "orthorhombic": dict(lat="orthorhombic", atoms=_one, proj=[["X:s"], ["X:p"], ["X:sp"], ["X:p2"], ["X:pz"], ["X:s", "X:p"], ["X:t2g"]],
                         mag={"fm_z": [[0, 0, 1]], "fm_x": [[1, 0, 0]]}),
    "ortho_polar": dict(lat="orthorhombic", atoms=_polar2, proj=[["A:s", "B:s"], ["A:p", "B:s"], ["A:s", "B:pz"]],
                        mag={"fm_z": [[0, 0, 1], [0, 0, 0]], "fm_y": [[0, 1, 0], [0, 0, 0]]}),
    "ortho_mixed": dict(lat="orthorhombic", atoms=_mixed, proj=[["X:s"], ["X:p"], ["X:pz"], ["X:s", "X:p"]],
                        mag={"fm_z": [[0, 0, 1]] * 3}),
    "monoclinic": dict(lat="monoclinic", atoms=_mono_pair, proj=[["A:s", "B:s"], ["A:p", "B:s"], ["A:s", "B:p"]],
                       mag={"fm_y": [[0, 1, 0], [0, 0, 0], [0, 0, 0]]}),
    "triclinic": dict(lat="triclinic", atoms=_pair_inv, proj=[["A:s", "B:s"], ["A:p", "B:s"], ["A:s", "B:p"], ["A:d", "B:s"]],
                      mag={}),
    # non-primitive cells.  'super': the lattice is diag(super) @ (lattice of kind 'base'); 'lat' names the kind whose
    # axis equivalences the cell still has.  Hybrids are offered only where the (smaller) group of the supercell
    # keeps their span
    "bcc_conv": dict(lat="sc", atoms=_bcc_conv, proj=[["X:s"], ["X:p"], ["X:t2g"], ["X:eg"], ["X:s", "X:p"], ["X:sp3d2"], ["X:s;p"]],
                     mag={"fm_z": [[0, 0, 1]] * 2, "fm_111": [[S3, S3, S3]] * 2}),
    "fcc_conv": dict(lat="sc", atoms=_fcc_conv, proj=[["X:s"], ["X:p"], ["X:t2g"], ["X:eg"]],
                     mag={"fm_z": [[0, 0, 1]] * 4}),
    "tetra_super": dict(lat="orthorhombic", base="tetragonal", super=[2, 1, 1], atoms=_super_x,
                        proj=[["X:s"], ["X:p"], ["X:pz"], ["X:pxy"], ["X:s", "X:pz"], ["X:t2g"], ["X:d"], ["X:sp"]],
                        mag={"fm_z": [[0, 0, 1]] * 2, "fm_x": [[1, 0, 0]] * 2, "afm_z": [[0, 0, 1], [0, 0, -1]]}),
    "hex_super_z": dict(lat="hexagonal", base="hexagonal", super=[1, 1, 2], atoms=_super_z,
                        proj=[["X:s"], ["X:p"], ["X:pz"], ["X:pxy"], ["X:s", "X:pz"], ["X:d"]],
                        mag={"fm_z": [[0, 0, 1]] * 2, "afm_z": [[0, 0, 1], [0, 0, -1]]}),
    "cscl_super": dict(lat="orthorhombic", base="sc", super=[2, 1, 1], atoms=_cscl_super_x,   # four-fold axis along x: p2 = (pz, py) is closed
                       proj=[["A:s", "B:s"], ["A:p", "B:s"], ["A:s", "B:p"], ["A:p2", "B:s"]],
                       mag={"fm_x": [[1, 0, 0], [0, 0, 0]] * 2}),
    "graphene_super_z": dict(lat="hexagonal", base="hexagonal", super=[1, 1, 2], atoms=_graphene_super_z,
                             proj=[["C:pz"], ["C:s"], ["C:sp2"], ["C:p"]], mag={}),
}
NAMES = sorted(LIB)


def variants(name):
    """all (proj index, soc, mag tag) combinations of a structure, in a fixed order"""
    e = LIB[name]
    out = []
    for ip in range(len(e["proj"])):
        if not e.get("mag_only"):
            out.append((ip, False, None))
            out.append((ip, True, None))
        for tag in sorted(e["mag"]):
            out.append((ip, True, tag))
    return out


FAMILIES = {
    "cubic": ["sc", "cscl", "zincblende", "diamond", "fcc", "bcc", "afm_cscl"],
    "hexagonal": ["graphene", "graphene60", "hbn", "hex1", "kagome", "chain", "wurtzite", "rhombo"],
    "lowsym": ["tetragonal", "tetra_polar", "afm_tetra", "orthorhombic", "ortho_polar", "ortho_mixed", "monoclinic", "triclinic"],
    "nonprim": ["bcc_conv", "fcc_conv", "tetra_super", "hex_super_z", "cscl_super", "graphene_super_z"],
}


@st.composite
def struct_st(draw, names=None, max_wann=12, vfilter=None):
    """JSON description of a structure: name, projection set, soc / magnetic variant, free parameters.
    vfilter(name, proj index, soc, mag tag) -> bool restricts the variants (every name must keep at least one)"""
    name = draw(st.sampled_from(list(names or NAMES)))
    allv = [v for v in variants(name) if nwann(name, v[0], v[1]) <= max_wann and (vfilter is None or vfilter(name, *v))]
    ip, soc, mag = draw(st.sampled_from(allv))
    return dict(name=name, proj=ip, soc=soc, mag=mag,
                a=draw(fl(1.0, 2.2, 3)), b=draw(fl(2.3, 3.1, 3)), c=draw(fl(3.2, 4.2, 3)),
                o=[draw(fl(-0.6, 0.6, 3)), draw(fl(-0.6, 0.6, 3)), draw(fl(-0.6, 0.6, 3))],
                u=draw(fl(0.08, 0.42, 3)), v=draw(fl(0.08, 0.42, 3)))


def nwann(name, ip, soc):
    e = LIB[name]
    names, _ = e["atoms"](0.2, 0.3)
    n = 0
    for p in e["proj"][ip]:
        at, orb = [x.strip() for x in p.split(":")]
        n += names.count(at) * norb(orb)
    return n * (2 if soc else 1)


def resolve(s):
    """-> dict(lat(dict for wbsys.lattice_matrix), L, names, positions, proj, soc, magmom)"""
    e = LIB[s["name"]]
    lat = dict(kind=e.get("base", e["lat"]), a=s["a"], b=s["b"], c=s["c"], o=list(s["o"]), rot=None)
    names, pos = e["atoms"](s["u"], s["v"])
    mag = None if s["mag"] is None else [list(map(float, m)) for m in e["mag"][s["mag"]]]
    L = wbsys.lattice_matrix(lat)
    if e.get("super") is not None:
        L = np.diag(np.array(e["super"], dtype=float)) @ L
    return dict(lat=lat, L=L, names=list(names), positions=np.array(pos, dtype=float),
                proj=list(e["proj"][s["proj"]]), soc=bool(s["soc"]), magmom=mag)


def wf_sites(rs):
    """list of (atom index, orbital label, spin) per Wannier function in the order symmetrize() expects"""
    out = []
    nsp = 2 if rs["soc"] else 1
    for p in rs["proj"]:
        at, orb = [x.strip() for x in p.split(":")]
        for ia, n in enumerate(rs["names"]):
            if n == at:
                for io in range(norb(orb)):
                    for isp in range(nsp):
                        out.append((ia, f"{p}#{io}", isp))
    return out


def build_start(s, rs_seed, R, keys, decay=1.0, disp=0.03, cmode="wf", sites=None):
    """random (non symmetric) start model: hermitian random matrices on the closed R list `R`; centres = atomic
    positions + random displacement of size `disp` (reduced coordinates):
      cmode 'wf'   : an independent displacement for every Wannier function,
      cmode 'site' : one displacement shared by all Wannier functions of one atom and projection string,
      cmode 'exact': no displacement.
    sites: order of the Wannier functions (default: wf_sites(), the order System_R.symmetrize() documents)
    -> (wbsys.Model, resolved struct)"""
    rs = resolve(s)
    sites = wf_sites(rs) if sites is None else list(sites)
    nw = len(sites)
    rng = rng_of(rs_seed)
    cen = np.array([rs["positions"][ia] for ia, _, _ in sites], dtype=float)
    d_wf = rng.uniform(-disp, disp, size=cen.shape)
    if cmode == "wf":
        cen = cen + d_wf
    elif cmode == "site":
        first = {}
        for i, (ia, lab, _) in enumerate(sites):
            first.setdefault((ia, lab.split("#")[0]), i)
        cen = cen + np.array([d_wf[first[(ia, lab.split("#")[0])]] for ia, lab, _ in sites])
    elif cmode != "exact":
        raise ValueError(cmode)
    L = rs["L"]
    Rs = wbsys.closed_R_list(R)
    iRvec = np.array(Rs, dtype=int)
    cR = np.linalg.norm(iRvec @ L, axis=1)
    damp = np.exp(-decay * cR / abs(np.linalg.det(L)) ** (1 / 3))
    mats = {}
    for key in keys:
        nc = wbsys.CART[key]
        X = crandom(rng, (len(Rs), nw, nw) + (3,) * nc) * damp.reshape((-1,) + (1,) * (2 + nc))
        if key in wbsys.HERMITIAN_KEYS:
            X = wbsys.hermitize(X, iRvec)
        if key == "FF":  # FF_ab(-R) = FF_ba(R)^dagger
            idx = {R: i for i, R in enumerate(Rs)}
            X = np.array([0.5 * (X[i] + np.conj(np.transpose(X[idx[tuple(-x for x in R)]], (1, 0, 3, 2)))) for i, R in enumerate(Rs)])
        if key == "AA":
            X[Rs.index((0, 0, 0)), np.arange(nw), np.arange(nw)] = 0
        mats[key] = X
    return wbsys.Model(L, cen, iRvec, mats), rs


def symmetrize(system, rs, **kw):
    """the call under test; -> symmetrizer object returned by the code"""
    return system.symmetrize(proj=list(rs["proj"]), positions=np.array(rs["positions"]), atom_name=list(rs["names"]),
                             soc=rs["soc"], magmom=None if rs["magmom"] is None else np.array(rs["magmom"]), **kw)


# ------------------------------------------------------------------------------------------------
# second route: the caller builds the space group, the projections (site dependent local frames) and the symmetriser
# and calls System_R.symmetrize2()

FULL_SHELLS = ("s", "p", "d", "f")


def multi_site(name, ip):
    """True if some projection of the set sits on a species with several atoms and is not a plain s orbital"""
    e = LIB[name]
    names, _ = e["atoms"](0.2, 0.3)
    for p in e["proj"][ip]:
        at, orb = [x.strip() for x in p.split(":")]
        if names.count(at) > 1 and any(o.strip() != "s" for o in orb.split(";")):
            return True
    return False


def full_shells_only(name, ip):
    return all(o.strip() in FULL_SHELLS for p in LIB[name]["proj"][ip] for o in p.split(":")[1].split(";"))


def split_orbits(pos, ops, tol=1e-6):
    """indices of `pos` (reduced) grouped into orbits under the operations ops = [(W, t), ...] (own implementation:
    image = W p + t, compared modulo lattice vectors); orbits in the order of their first member"""
    pos = np.asarray(pos, dtype=float)
    orbit_of = [-1] * len(pos)
    orbits = []
    for i in range(len(pos)):
        if orbit_of[i] >= 0:
            continue
        orbit_of[i] = len(orbits)
        members = [i]
        for W, t in ops:
            img = W @ pos[i] + t
            for j in range(len(pos)):
                d = img - pos[j]
                if orbit_of[j] < 0 and np.max(np.abs(d - np.round(d))) < tol:
                    orbit_of[j] = len(orbits)
                    members.append(j)
        orbits.append(sorted(members))
    return orbits


def random_rotation(rng):
    """proper rotation matrix (rows = orthonormal right-handed frame)"""
    Q, Rr = np.linalg.qr(rng.normal(size=(3, 3)))
    Q = Q * np.sign(np.diag(Rr))[None, :]
    if np.linalg.det(Q) < 0:
        Q[:, 0] = -Q[:, 0]
    return Q.T


def build_symmetrizer(rs, frames="rotate", rs_seed=0):
    """space group (irrep, as System_R.symmetrize() asks for it), one Projection per Wyckoff orbit of every projection
    string with site dependent local frames, and the SymmetrizerSAWF made of them.
      frames 'rotate': Projection(rotate_basis=True) - the frame of a site is the one of the first site of the orbit rotated
                       by the operation that generates the site;
      frames 'orbit' : an explicit basis_list made like that of rotate_basis=True, but the generating operation of every site
                       (also of the first one: an element of its site-symmetry group) is picked at random among all
                       operations that map the first site onto it (harness' own W p + t and L^T W L^-T);
      frames 'list'  : an explicit basis_list of independent random proper rotations, one per site (only meaningful for
                       full shells, whose span does not depend on the frame);
      frames 'same'  : rotate_basis=False.
    -> (symmetrizer, sites, info); sites = order of the Wannier functions the symmetriser expects: projections in the
    given order, per projection its orbitals (split at ';'), per orbital the sites in the order of Projection.positions,
    per site the orbitals, spin interlaced.  Entries as in wf_sites(): (atom index, label, spin)"""
    from irrep.spacegroup import SpaceGroup
    from wannierberri.symmetry.projections import Projection
    from wannierberri.symmetry.sawf import SymmetrizerSAWF
    names = list(rs["names"])
    pos = np.array(rs["positions"], dtype=float)
    first = {}
    for n in names:
        first.setdefault(n, len(first))
    spacegroup = SpaceGroup.from_cell(real_lattice=np.array(rs["L"]), positions=pos, typat=[first[n] for n in names],
                                      magmom=None if rs["magmom"] is None else np.array(rs["magmom"], dtype=float),
                                      include_TR=True, spinor=bool(rs["soc"]))
    ops = [(np.array(g.rotation, dtype=float), np.array(g.translation, dtype=float)) for g in spacegroup.symmetries]
    rng = rng_of(rs_seed)
    nsp = 2 if rs["soc"] else 1
    projections, sites = [], []
    frames_differ = False
    for p in rs["proj"]:
        at, orbital = [x.strip() for x in p.split(":")]
        idx = [i for i, n in enumerate(names) if n == at]
        for orbit in split_orbits(pos[idx], ops):
            ia = [idx[j] for j in orbit]
            kw = dict(position_num=pos[ia], orbital=orbital, spacegroup=spacegroup)
            if frames == "rotate":
                proj = Projection(rotate_basis=True, **kw)
            elif frames == "list":
                proj = Projection(rotate_basis=False, basis_list=[random_rotation(rng) for _ in ia], **kw)
            elif frames == "orbit":
                LT = np.array(rs["L"], dtype=float).T
                blist = []
                for a in ia:
                    cands = []
                    for W, t in ops:
                        d = W @ pos[ia[0]] + t - pos[a]
                        if np.max(np.abs(d - np.round(d))) < 1e-6:
                            cands.append(W)
                    Wc = LT @ cands[int(rng.integers(len(cands)))] @ np.linalg.inv(LT)
                    blist.append(Wc.T)   # rows = images of the Cartesian axes
                proj = Projection(rotate_basis=False, basis_list=blist, **kw)
            elif frames == "same":
                proj = Projection(rotate_basis=False, **kw)
            else:
                raise ValueError(frames)
            projections.append(proj)
            # order of the sites as the projection stores them (documented attribute `positions`)
            order = []
            for q in np.array(proj.positions, dtype=float):
                d = pos[ia] - q[None, :]
                hit = np.nonzero(np.max(np.abs(d - np.round(d)), axis=1) < 1e-6)[0]
                if len(hit) != 1:
                    raise RuntimeError(f"site {q} of the projection {p} matches {len(hit)} atoms")
                order.append(ia[int(hit[0])])
            if sorted(order) != sorted(ia) or (frames in ("list", "orbit") and order != ia):
                raise RuntimeError(f"projection {p}: sites {order} are not the atoms {ia} handed in")
            B = np.array(proj.basis_list, dtype=float)
            frames_differ = frames_differ or bool(np.max(np.abs(B - B[0][None])) > 1e-6)
            for orb in proj.orbitals:
                for a in order:
                    for io in range(norb(orb)):
                        for isp in range(nsp):
                            sites.append((a, f"{p}|{orb}#{io}", isp))
    symmetrizer = SymmetrizerSAWF.from_spacegroup_and_projections(spacegroup=spacegroup, projections=projections)
    rot_dep = False
    for ro in getattr(symmetrizer, "rot_orb_list", []):
        ro = np.asarray(ro)
        rot_dep = rot_dep or bool(np.max(np.abs(ro - ro[0][None])) > 1e-6)
    return symmetrizer, sites, dict(frames_differ=frames_differ, rot_orb_site_dependent=rot_dep, nproj=len(projections))


def label(s):
    e = LIB[s["name"]]
    return f"{s['name']}:{'+'.join(e['proj'][s['proj']])}:{'soc' if s['soc'] else 'scalar'}:{s['mag'] or 'nonmag'}"


# ------------------------------------------------------------------------------------------------
# harness-side symmetry oracle (used by C20 as the verdict and by C07 as the precondition 'genuinely symmetric')


def point_ops(system):
    """group elements of system.pointgroup as plain data: (full O(3) matrix, time reversal flag)"""
    out = []
    for s in system.pointgroup.symmetries:
        Rp = np.array(s.R, dtype=float)
        out.append((Rp * (-1.0 if s.Inv else 1.0), bool(s.TR)))
    return out


def image_k(k_red, Rfull, TR, recip):
    """k' = (+-) Rfull k : a spatial operation rotates k, time reversal inverts it (own formula, reduced coordinates)"""
    kc = np.asarray(k_red, dtype=float) @ recip
    kc2 = (Rfull @ kc) * (-1.0 if TR else 1.0)
    return kc2 @ np.linalg.inv(recip)


def axial_Todd(V, Rfull, TR):
    """transformation of a band-resolved axial, time-reversal-odd vector (Berry curvature, spin): V'(k') = (+-) det(R) R V(k)"""
    Rp = Rfull * np.sign(np.linalg.det(Rfull))
    return (-1.0 if TR else 1.0) * (np.asarray(V) @ Rp.T)


class KEvaluator:
    """band energies, total Berry curvature and spin at single k-points through the code's Data_K + tabulators
    (fresh tabulator objects, one 1x1x1 grid object)"""

    def __init__(self, system):
        import wannierberri as wb
        from wannierberri.calculators import tabulate
        from wannierberri.data_K import get_data_k_class_from_system
        self.system = system
        self.grid = wb.Grid(system, NKdiv=1, NKFFT=1, use_symmetry=False)
        self.cls = get_data_k_class_from_system(system)
        self.tabs = {"energy": tabulate.Energy()}
        if system.has_R_mat("AA"):
            self.tabs["berry"] = tabulate.BerryCurvature()
        else:
            self.tabs["berry"] = tabulate.BerryCurvature(kwargs_formula={"external_terms": False})
        if system.has_R_mat("SS"):
            self.tabs["spin"] = tabulate.Spin()

    def __call__(self, k_red):
        data = self.cls(self.system, grid=self.grid, dK=np.array(k_red, dtype=float))
        return {q: np.array(t(data).data[0]) for q, t in self.tabs.items()}


def gap_info(E, thresh=1e-4):
    """-> (min gap among gaps above the degeneracy threshold, True if some gap is ambiguously close to it)"""
    g = np.diff(np.sort(np.asarray(E)))
    amb = bool(np.any((g > 0.5 * thresh) & (g < 2 * thresh)))
    big = g[g >= 2 * thresh]
    return (float(big.min()) if len(big) else np.inf), amb


def covariance_errors(system, k_list, ops=None):
    """for every group element g and every k: E(gk) vs E(k), Omega(gk), S(gk) vs transformed values.
    -> dict quantity -> (max error / tolerance, worst detail, scale); plus 'skipped' count of k-points with gaps ambiguously
    close to the tabulators' degeneracy threshold.  Tolerances of DESIGN 2.3: 1e-9 (1+|E|) for energies,
    1e-7 * scale + max(1e-9, 1e-14 (L/gap)^2) for Berry curvature (L = longest lattice vector, gap = smallest gap above the degeneracy threshold at k), 1e-9 * (1+scale) for spin"""
    ev = KEvaluator(system)
    ops = ops if ops is not None else point_ops(system)
    recip = np.array(system.recip_lattice)
    Lmax = max(1.0, float(np.max(np.linalg.norm(np.array(system.real_lattice), axis=1))))
    worst = {}
    scale = {}
    skipped = 0
    used = 0
    for k in k_list:
        ref = ev(k)
        gap, amb = gap_info(ref["energy"])
        if amb:
            skipped += 1
            continue
        used += 1
        floor = max(1e-9, 1e-14 * (Lmax / min(1.0, gap)) ** 2)   # rounding noise ~1e-16 (L/gap)^2 of a curvature that vanishes by symmetry
        for ig, (Rfull, TR) in enumerate(ops):
            k2 = image_k(k, Rfull, TR, recip)
            got = ev(k2)
            for q, v in got.items():
                if q == "energy":
                    want = ref[q]
                    tol = 1e-9 * (1 + np.max(np.abs(want)))
                else:
                    want = axial_Todd(ref[q], Rfull, TR)
                    sc = max(np.max(np.abs(want)), np.max(np.abs(v)))
                    scale[q] = max(scale.get(q, 0.0), float(sc))
                    tol = 1e-7 * sc + floor if q == "berry" else 1e-9 * (1 + sc)
                err = float(np.max(np.abs(v - want)))
                r = err / tol
                if r > worst.get(q, (0.0, ""))[0]:
                    worst[q] = (r, f"{q}: |value(gk) - g value(k)| = {err:.3e} (tolerance {tol:.1e}) for group element {ig} "
                                   f"(det={np.linalg.det(Rfull):+.0f}, TR={TR}) at k={[round(float(x), 6) for x in k]}")
    return worst, scale, dict(skipped=skipped, used=used, ngroup=len(ops))


def matrices_by_R(system):
    """{key: {R tuple: block}} of a System_R"""
    iR = [tuple(int(x) for x in R) for R in np.array(system.rvec.iRvec)]
    return {k: {R: np.array(v[i]) for i, R in enumerate(iR)} for k, v in system._XX_R.items()}


def max_diff_by_R(A, B):
    """max |A(R) - B(R)| over the union of R lists (a missing R counts as zero) for two {R: block} dicts"""
    d = 0.0
    for R in set(A) | set(B):
        a, b = A.get(R), B.get(R)
        if a is None:
            d = max(d, float(np.max(np.abs(b))))
        elif b is None:
            d = max(d, float(np.max(np.abs(a))))
        else:
            d = max(d, float(np.max(np.abs(a - b))))
    return d
