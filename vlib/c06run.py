"""C06 at the level of run(): the weights that run() itself keeps (live K list, weight files on disk) partition the
Brillouin zone after every iteration of a refinement history *including restarts* (from the last or from an earlier
iteration - the K list on disk then holds points created later, which must carry weight zero).

Oracle (harness arithmetic only): after every iteration
  * sum of the weights of the live K list == 1 (1e-10), no negative weight,
  * the weight file written for the iteration sums to 1,
  * the cumulative DOS at a level above all bands == num_wann (an independent witness: = num_wann * sum of weights),
  * (no symmetry) every weighted point's weight equals the volume of its cell and the cell volumes sum to 1.
"""
import os
import numpy as np
from hypothesis import strategies as st

from .runner import Violation, ok
from .util import scratch_dir
from . import runhelp

MESHES = [2, 3, [2, 1, 2], [1, 3, 1], [3, 2, 1]]
MODES = ["allow_restart", "dump_results"]

run_st = st.fixed_dictionaries(dict(
    g=runhelp.grid_case_st(max_div=3, max_fft=2),
    Emid=st.sampled_from([-0.37, 0.0113, 0.41]),
    first=st.integers(1, 3),
    back=st.sampled_from([0, 1, 1, 2, 3]),
    more=st.integers(1, 2),
    again=st.booleans(),          # a second restart (from the last iteration) after the first one
    mesh=st.sampled_from(MESHES),
    fac=st.integers(1, 3),
    irred=st.booleans(),
    mode=st.sampled_from(MODES),
))


def _mode_kw(m):
    return dict(allow_restart=True) if m == "allow_restart" else dict(dump_results=True)


def _factor_files(path):
    out = {}
    for f in sorted(os.listdir(path)):
        if f.startswith("factors_iter-") and f.endswith(".npy"):
            out[int(f.split("-")[-1].split(".")[0])] = np.load(os.path.join(path, f))
    return out


def _check_snapshots(tag, cap, nw, irred, kwpath, where):
    files = _factor_files(kwpath)
    for s in cap.snapshots:
        it = s["i_iter"]
        w = np.array(s["factors"], dtype=float)
        desc = f"{where}, iteration {it} ({len(w)} K-points)"
        if np.any(w < -1e-14):
            raise Violation(f"{tag}:negative-weight", f"{desc}: weight {w.min():.3e}")
        if abs(w.sum() - 1.0) > 1e-10:
            raise Violation(f"{tag}:weights-sum", f"{desc}: the weights of the K list sum to {w.sum():.12f}, not 1")
        if it in files:
            fw = np.asarray(files[it], dtype=float)
            if abs(fw.sum() - 1.0) > 1e-10:
                raise Violation(f"{tag}:file-sum", f"{desc}: weight file sums to {fw.sum():.12f}, not 1")
        top = np.asarray(s["data"]["cumdos"])[..., -1]
        if abs(float(top) - nw) > 1e-9 * nw:
            raise Violation(f"{tag}:states-count", f"{desc}: number of states below a level above all bands is "
                                                    f"{float(top):.10f}, must be {nw} (= num_wann * sum of weights)")
    if not irred and cap.K_list is not None:
        vol = 0.0
        for K in cap.K_list:
            if K.factor == 0:
                continue
            v = float(np.prod(np.asarray(K.dK, dtype=float)))
            if abs(v - K.factor) > 1e-12:
                raise Violation(f"{tag}:weight-vs-cell", f"{where}: K-point {np.asarray(K.Kp_fullBZ).tolist()} has weight "
                                                         f"{K.factor:.6e} but its cell has volume {v:.6e}")
            vol += v
        if abs(vol - 1.0) > 1e-10:
            raise Violation(f"{tag}:cells-volume", f"{where}: cells of the weighted points have total volume {vol:.12f}")


def check_run(case):
    import wannierberri as wb
    from wannierberri.calculators import static
    model, system, grid = runhelp.build(case["g"])
    nw = system.num_wann
    irred = case["irred"]
    mesh = case["mesh"] if isinstance(case["mesh"], int) else list(case["mesh"])
    first = case["first"]
    r_it = max(0, first - case["back"])

    def calcs():
        return {"cumdos": static.CumDOS(Efermi=np.array([case["Emid"], 1e3]), use_factor=False)}

    base = dict(adpt_mesh=mesh, adpt_fac=case["fac"], use_irred_kpt=irred, symmetrize=irred, **_mode_kw(case["mode"]))
    with scratch_dir() as scratch:
        cap = runhelp.Capture()
        kw = runhelp.run_kwargs(scratch, "W", adpt_num_iter=first, **base)
        with runhelp.capture_run(cap):
            wb.run(system, grid, calcs(), **kw)
        _check_snapshots("run", cap, nw, irred, kw["file_Klist_path"], "first run")
        n_first = len(cap.K_list)
        cap2 = runhelp.Capture()
        kw2 = runhelp.run_kwargs(scratch, "W", adpt_num_iter=case["more"], restart=True, restart_iteration=r_it, **base)
        with runhelp.capture_run(cap2):
            wb.run(system, grid, calcs(), **kw2)
        _check_snapshots("run-restart", cap2, nw, irred, kw2["file_Klist_path"],
                         f"run restarted from iteration {r_it} of {first}")
        if case["again"]:
            cap3 = runhelp.Capture()
            kw3 = runhelp.run_kwargs(scratch, "W", adpt_num_iter=1, restart=True, **base)
            with runhelp.capture_run(cap3):
                wb.run(system, grid, calcs(), **kw3)
            _check_snapshots("run-restart", cap3, nw, irred, kw3["file_Klist_path"], "second restart (last iteration)")
    earlier = r_it < first
    return ok(earlier and n_first > int(np.prod(case["g"]["NKdiv"])), f"restart_from={r_it}/{first}",
              "earlier" if earlier else "last", "irred" if irred else "full", case["mode"], "again" if case["again"] else None)
