import sys
from vlib.runner import main

if __name__ == "__main__":
    sys.exit(main())
