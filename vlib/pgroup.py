"""Harness-side crystallographic point-group reference model (used by C09 and C16).

Nothing here imports wannierberri at module level.  A symmetry operation is described by a plain dict
    {"n": 1|2|3|4|6, "ax": <axis name of the family table or None>, "inv": bool, "tr": bool}
meaning  (rotation by 2 pi/n about the axis) x (inversion if inv) x (time reversal if tr).
A mirror is n=2 + inv.  `full_matrix(op, family, Rg)` gives the orthogonal 3x3 matrix (det = -1 with inversion)
in the (optionally globally rotated) Cartesian frame.

Reference group: closure computed here with *exact integer matrices* in the lattice basis
(M = L O^T L^-1 is an integer matrix for a crystallographic operation compatible with the lattice rows L),
so the order of the generated group is known exactly and independently of PointGroup.__init__.
"""
import itertools
from fractions import Fraction

import numpy as np
from hypothesis import strategies as st

from .util import fl

S3 = np.sqrt(3.0)


def _inplane(deg):
    return [float(np.cos(np.deg2rad(deg))), float(np.sin(np.deg2rad(deg))), 0.0]


AXES = {
    "x": [1, 0, 0], "y": [0, 1, 0], "z": [0, 0, 1],
    "110": [1, 1, 0], "1-10": [1, -1, 0], "101": [1, 0, 1], "10-1": [1, 0, -1], "011": [0, 1, 1], "01-1": [0, 1, -1],
    "111": [1, 1, 1], "-111": [-1, 1, 1], "1-11": [1, -1, 1], "11-1": [1, 1, -1],
    "h30": _inplane(30), "h60": _inplane(60), "h120": _inplane(120), "h150": _inplane(150),
}

# family -> list of (n, axis) rotations that belong to the holohedry of the family in the setting of
# vlib.wbsys.lattice_matrix(rotate=False);  (1, None) = identity
FAMILY_OPS = {
    "cubic": [(1, None)] + [(n, a) for a in "xyz" for n in (2, 4)] +
             [(2, a) for a in ("110", "1-10", "101", "10-1", "011", "01-1")] +
             [(3, a) for a in ("111", "-111", "1-11", "11-1")],
    "tetragonal": [(1, None), (2, "z"), (4, "z"), (2, "x"), (2, "y"), (2, "110"), (2, "1-10")],
    "orthorhombic": [(1, None), (2, "x"), (2, "y"), (2, "z")],
    "hexagonal": [(1, None), (2, "z"), (3, "z"), (6, "z"), (2, "x"), (2, "y"), (2, "h30"), (2, "h60"), (2, "h120"),
                  (2, "h150")],
    "rhombohedral": [(1, None), (3, "z"), (2, "y"), (2, "h30"), (2, "h150")],
    "monoclinic": [(1, None), (2, "y")],
    "triclinic": [(1, None)],
}
HOLOHEDRY_ORDER = {"cubic": 48, "tetragonal": 16, "orthorhombic": 8, "hexagonal": 24, "rhombohedral": 12,
                   "monoclinic": 4, "triclinic": 2}
# lattice kinds (vlib.wbsys.lattice_matrix) invariant under the holohedry of the family
FAMILY_LATTICES = {
    "cubic": ["sc", "fcc", "bcc"],
    "tetragonal": ["tetragonal", "tetragonal", "sc", "bcc"],
    "orthorhombic": ["orthorhombic", "orthorhombic", "tetragonal", "fcc"],
    "hexagonal": ["hexagonal", "hexagonal60"],
    "rhombohedral": ["rhombohedral", "rhombohedral", "hexagonal"],
    "monoclinic": ["monoclinic", "monoclinic", "orthorhombic"],
    "triclinic": ["triclinic", "generic", "monoclinic", "rhombohedral"],
}
ALL_LATTICES = ["sc", "fcc", "bcc", "tetragonal", "orthorhombic", "hexagonal", "hexagonal60", "rhombohedral",
                "monoclinic", "triclinic"]

# names understood by wannierberri's from_string (documented list in the module docstring of point_symmetry)
STRING_NAMES = {(2, "x"): "C2x", (2, "y"): "C2y", (2, "z"): "C2z", (3, "z"): "C3z", (4, "x"): "C4x", (4, "y"): "C4y",
                (4, "z"): "C4z", (6, "z"): "C6z"}
MIRROR_NAMES = {"x": "Mx", "y": "My", "z": "Mz"}


def O(n, ax, inv=False, tr=False):
    return dict(n=n, ax=ax, inv=bool(inv), tr=bool(tr))


# generator sets with the textbook order of the group they generate (harness self-check of the closure oracle
# and "known order" clause of the property):  (family, [ops], order, name)
PRESETS = [
    ("triclinic", [O(1, None, inv=True)], 2, "Ci"),
    ("triclinic", [O(1, None, inv=True), O(1, None, tr=True)], 4, "Ci x 1'"),
    ("triclinic", [O(1, None, inv=True, tr=True)], 2, "-1'"),
    ("monoclinic", [O(2, "y"), O(1, None, inv=True)], 4, "C2h"),
    ("monoclinic", [O(2, "y", tr=True), O(2, "y", inv=True)], 4, "2'/m"),
    ("orthorhombic", [O(2, "x"), O(2, "y")], 4, "D2"),
    ("orthorhombic", [O(2, "x"), O(2, "y"), O(1, None, inv=True)], 8, "D2h"),
    ("orthorhombic", [O(2, "x", inv=True), O(2, "y", inv=True, tr=True)], 4, "m m'2'"),
    ("orthorhombic", [O(2, "x", inv=True), O(2, "y", inv=True), O(2, "z", tr=True)], 8, "mm2 x 1'"),
    ("tetragonal", [O(4, "z")], 4, "C4"),
    ("tetragonal", [O(4, "z", inv=True)], 4, "S4"),
    ("tetragonal", [O(4, "z"), O(2, "x")], 8, "D4"),
    ("tetragonal", [O(4, "z", inv=True), O(2, "x")], 8, "D2d"),
    ("tetragonal", [O(4, "z"), O(2, "x", inv=True)], 8, "C4v"),
    ("tetragonal", [O(1, None, inv=True), O(4, "z"), O(2, "x", tr=True)], 16, "4/mm'm' (suite example)"),
    ("tetragonal", [O(4, "z"), O(2, "x"), O(1, None, inv=True), O(1, None, tr=True)], 32, "D4h x 1'"),
    ("tetragonal", [O(4, "z", tr=True), O(2, "110")], 8, "4'22'"),
    ("rhombohedral", [O(3, "z"), O(2, "y")], 6, "D3"),
    ("rhombohedral", [O(3, "z"), O(2, "y", inv=True)], 6, "C3v"),
    ("rhombohedral", [O(3, "z", inv=True)], 6, "S6"),
    ("rhombohedral", [O(3, "z"), O(2, "y"), O(1, None, inv=True)], 12, "D3d"),
    ("rhombohedral", [O(3, "z"), O(2, "y", tr=True)], 6, "32'"),
    ("hexagonal", [O(6, "z")], 6, "C6"),
    ("hexagonal", [O(3, "z"), O(6, "z")], 6, "C6 (suite example)"),
    ("hexagonal", [O(6, "z", inv=True)], 6, "C3h"),
    ("hexagonal", [O(6, "z"), O(2, "x")], 12, "D6"),
    ("hexagonal", [O(6, "z", inv=True), O(2, "x")], 12, "D3h"),
    ("hexagonal", [O(6, "z"), O(2, "x"), O(1, None, inv=True)], 24, "D6h"),
    ("hexagonal", [O(6, "z", tr=True), O(2, "x"), O(1, None, inv=True)], 24, "6'/m'..."),
    ("hexagonal", [O(6, "z"), O(2, "h30", inv=True), O(1, None, tr=True)], 24, "C6v x 1'"),
    ("cubic", [O(2, "z"), O(2, "x"), O(3, "111")], 12, "T"),
    ("cubic", [O(2, "z"), O(3, "111"), O(1, None, inv=True)], 24, "Th"),
    ("cubic", [O(4, "z"), O(3, "111")], 24, "O"),
    ("cubic", [O(4, "z", inv=True), O(3, "111")], 24, "Td"),
    ("cubic", [O(4, "z"), O(3, "111"), O(1, None, inv=True)], 48, "Oh"),
    ("cubic", [O(4, "z", tr=True), O(3, "111")], 24, "4'32'"),
    ("cubic", [O(4, "x"), O(4, "y")], 24, "O from two fourfold axes"),
    ("cubic", [O(4, "z"), O(3, "111"), O(1, None, inv=True), O(1, None, tr=True)], 96, "Oh x 1'"),
]

# ------------------------------------------------------------------------------------------------
# matrices


def rot_euler(e):
    a, b, c = e
    Rz = np.array([[np.cos(a), -np.sin(a), 0], [np.sin(a), np.cos(a), 0], [0, 0, 1]])
    Ry = np.array([[np.cos(b), 0, np.sin(b)], [0, 1, 0], [-np.sin(b), 0, np.cos(b)]])
    Rz2 = np.array([[np.cos(c), -np.sin(c), 0], [np.sin(c), np.cos(c), 0], [0, 0, 1]])
    return Rz @ Ry @ Rz2


def global_rotation(grot):
    return np.eye(3) if grot is None else rot_euler(grot)


def axis_vector(ax, Rg=None):
    v = np.array(AXES[ax], dtype=float)
    if Rg is not None:
        v = Rg @ v
    return v


def rodrigues(n, axis):
    """proper rotation by 2 pi/n about `axis` (Rodrigues formula, written here; not scipy)"""
    u = np.asarray(axis, dtype=float)
    u = u / np.linalg.norm(u)
    th = 2 * np.pi / n
    K = np.array([[0, -u[2], u[1]], [u[2], 0, -u[0]], [-u[1], u[0], 0]])
    return np.eye(3) + np.sin(th) * K + (1 - np.cos(th)) * (K @ K)


def full_matrix(op, Rg=None):
    """orthogonal matrix of the spatial part (det=-1 when the operation contains inversion)"""
    if op["n"] == 1:
        R = np.eye(3)
    else:
        R = rodrigues(op["n"], axis_vector(op["ax"], Rg))
    return -R if op["inv"] else R


def lattice_of(latd, grot=None):
    from . import wbsys
    L = wbsys.lattice_matrix(dict(latd, rot=None))
    return L @ global_rotation(grot).T


def int_rep(Ofull, L):
    """M = L O^T L^-1 (action on reduced row vectors) and its distance from the integers"""
    M = L @ Ofull.T @ np.linalg.inv(L)
    Mi = np.rint(M)
    return Mi.astype(int), float(np.abs(M - Mi).max())


class RefGroup:
    """closure of generators; elements = list of dict(O=float 3x3 (full), M=int 3x3 (real-lattice basis), tr=bool)"""

    def __init__(self, gens_full, gens_tr, L, limit=200):
        self.L = np.array(L, dtype=float)
        gen = []
        self.maxdev = 0.0
        for Of, tr in zip(gens_full, gens_tr):
            M, dev = int_rep(Of, self.L)
            self.maxdev = max(self.maxdev, dev)
            gen.append((Of, M, bool(tr)))
        ident = (np.eye(3), np.eye(3, dtype=int), False)
        elems = {self._key(ident): ident}
        frontier = [ident]
        while frontier:
            new = []
            for (Of, M, tr) in frontier:
                for (Og, Mg, trg) in gen:
                    # apply g after the element: cartesian Og@Of ; reduced row vectors: v -> v M Mg
                    cand = (Og @ Of, M @ Mg, tr != trg)
                    k = self._key(cand)
                    if k not in elems:
                        elems[k] = cand
                        new.append(cand)
                        if len(elems) > limit:
                            raise RuntimeError("harness: reference closure exceeded limit (generators not crystallographic?)")
            frontier = new
        self.elements = [dict(O=e[0], M=e[1], tr=e[2]) for e in elems.values()]
        self.order = len(self.elements)

    @staticmethod
    def _key(e):
        return tuple(int(x) for x in e[1].reshape(-1)) + (bool(e[2]),)

    def key_of(self, M, tr):
        return tuple(int(x) for x in np.asarray(M).reshape(-1)) + (bool(tr),)

    @property
    def keys(self):
        return {self.key_of(e["M"], e["tr"]) for e in self.elements}

    @property
    def magnetic(self):
        return any(e["tr"] for e in self.elements)

    @property
    def abelian(self):
        for a, b in itertools.combinations(self.elements, 2):
            if not np.array_equal(a["M"] @ b["M"], b["M"] @ a["M"]):
                return False
        return True

    def recip_int(self, e):
        """integer matrix acting on reduced k row vectors for the *spatial* part: B O^T B^-1 = (M^-1)^T"""
        Minv = np.rint(np.linalg.inv(e["M"])).astype(int)
        assert np.array_equal(Minv @ e["M"], np.eye(3, dtype=int))
        return Minv.T

    def star_exact(self, kfrac):
        """exact orbit of a rational k (list of Fractions) modulo 1 under k -> iTR * k Mk; returns (set, stabiliser size)"""
        orbit = {}
        nstab = 0
        k0 = tuple(x % 1 for x in kfrac)
        for e in self.elements:
            Mk = self.recip_int(e)
            sgn = -1 if e["tr"] else 1
            img = tuple((sgn * sum(kfrac[i] * int(Mk[i, j]) for i in range(3))) % 1 for j in range(3))
            orbit[img] = orbit.get(img, 0) + 1
            if img == k0:
                nstab += 1
        return orbit, nstab


_SELFCHECK_DONE = []


def selfcheck_presets():
    """the closure oracle must reproduce the textbook orders (raises RuntimeError -> harness error)"""
    if _SELFCHECK_DONE:
        return
    from . import wbsys
    for fam, ops, order, name in PRESETS:
        kind = FAMILY_LATTICES[fam][0]
        L = wbsys.lattice_matrix(dict(kind=kind, a=1.3, b=1.7, c=2.1, o=[0.31, -0.23, 0.17], rot=None))
        g = RefGroup([full_matrix(o) for o in ops], [o["tr"] for o in ops], L)
        if g.maxdev > 1e-9 or g.order != order:
            raise RuntimeError(f"harness: preset {name}: closure order {g.order} != {order} (dev {g.maxdev})")
        if HOLOHEDRY_ORDER[fam] * 2 % g.order:
            raise RuntimeError(f"harness: preset {name}: order does not divide the grey holohedry order")
    _SELFCHECK_DONE.append(True)


# ------------------------------------------------------------------------------------------------
# building wannierberri objects from descriptors


def string_name(op, order_flip=False):
    """string form understood by from_string_prod, or None if the operation has no name"""
    parts = []
    n, ax = op["n"], op["ax"]
    inv = op["inv"]
    if n == 1:
        pass
    elif n == 2 and inv and ax in MIRROR_NAMES and not order_flip:
        parts.append(MIRROR_NAMES[ax])
        inv = False
    elif (n, ax) in STRING_NAMES:
        parts.append(STRING_NAMES[(n, ax)])
    else:
        return None
    if inv:
        parts.append("Inversion")
    if op["tr"]:
        parts.append("TimeReversal")
    if not parts:
        parts = ["Identity"]
    if order_flip:
        parts = parts[::-1]
    return "*".join(parts)


def wb_symmetry(op, form, Rg=None, flip=False):
    """the generator in one of the three documented input forms: 'sym' PointSymmetry(matrix, TR),
    'obj' Rotation/Mirror/named objects (multiplied with * ), 'str' string (falls back to 'obj' when unnamed or rotated)"""
    from wannierberri.symmetry import point_symmetry as ps
    if form == "str" and Rg is None:
        s = string_name(op, flip)
        if s is not None:
            return s, "str"
    if form == "sym":
        return ps.PointSymmetry(full_matrix(op, Rg), TR=op["tr"]), "sym"
    n, ax, inv, tr = op["n"], op["ax"], op["inv"], op["tr"]
    if n == 1:
        g = ps.Inversion if inv else ps.Identity
    elif n == 2 and inv:
        g = ps.Mirror(axis_vector(ax, Rg))
    else:
        g = ps.Rotation(n, axis_vector(ax, Rg))
        if inv:
            g = (ps.Inversion * g) if flip else (g * ps.Inversion)
    if tr:
        g = (g * ps.TimeReversal) if flip else (ps.TimeReversal * g)
    return g, "obj"


# ------------------------------------------------------------------------------------------------
# Transform descriptors + reference


def involutions(m):
    out = []
    for p in itertools.permutations(range(m)):
        if p != tuple(range(m)) and all(p[p[i]] == i for i in range(m)):
            out.append(list(p))
    return out


@st.composite
def transform_st(draw, rank, allow_noninvolutive=False):
    d = dict(factor=draw(st.sampled_from([1, -1])), conj=draw(st.booleans()), perm=None, swap=None)
    if rank >= 2:
        kind = draw(st.sampled_from(["none", "none", "perm", "perm", "swap"]))
        if kind == "perm":
            m = draw(st.integers(2, rank))
            choices = involutions(m)
            if allow_noninvolutive and m >= 3 and draw(st.integers(0, 4)) == 0:
                choices = [list(p) for p in itertools.permutations(range(m))
                           if not all(p[p[i]] == i for i in range(m))]
            d["perm"] = draw(st.sampled_from(choices))
        elif kind == "swap":
            i = draw(st.integers(1, rank))
            j = draw(st.integers(1, rank).filter(lambda x: x != i))
            d["swap"] = [-i, -j]
    return d


def wb_transform(d):
    from wannierberri.symmetry.point_symmetry import Transform
    return Transform(factor=d["factor"], conj=d["conj"],
                     transpose_axes=None if d["perm"] is None else tuple(d["perm"]),
                     swap_axes=None if d["swap"] is None else tuple(d["swap"]))


def transform_is_involutive(d):
    p = d["perm"]
    return p is None or all(p[p[i]] == i for i in range(len(p)))


def transform_is_trivial(d):
    return d["factor"] == 1 and not d["conj"] and d["perm"] is None and d["swap"] is None


def ref_apply_transform(d, x):
    """documented meaning of Transform: permute the last len(perm) axes (numpy transpose convention) or swap two
    axes, complex-conjugate, multiply by the factor.  Returns a new array."""
    x = np.array(x)
    if d["perm"] is not None:
        m = len(d["perm"])
        dim0 = x.ndim - m
        x = np.transpose(x, list(range(dim0)) + [dim0 + p for p in d["perm"]])
    elif d["swap"] is not None:
        x = np.swapaxes(x, d["swap"][0], d["swap"][1])
    if d["conj"]:
        x = np.conj(x)
    return np.array(x * d["factor"])


def transforms_commute(d1, d2, rank):
    idx = np.arange(3 ** rank, dtype=float).reshape((3,) * rank) if rank > 0 else np.zeros((1,))
    if rank == 0:
        return True
    a = ref_apply_transform(dict(d1, factor=1, conj=False), ref_apply_transform(dict(d2, factor=1, conj=False), idx))
    b = ref_apply_transform(dict(d2, factor=1, conj=False), ref_apply_transform(dict(d1, factor=1, conj=False), idx))
    return np.array_equal(a, b)


_LET = "abcdefgh"
_LET2 = "ijklmnop"


def ref_rotate(data, rank, Rproper):
    """x'[..., i1..ir] = sum_j R[i1,j1]...R[ir,jr] x[..., j1..jr]  (explicit einsum)"""
    data = np.asarray(data)
    if rank == 0:
        return np.array(data)
    sub_in = "..." + _LET[:rank]
    sub_out = "..." + _LET2[:rank]
    ops = []
    subs = []
    for r in range(rank):
        subs.append(_LET2[r] + _LET[r])
        ops.append(Rproper)
    return np.einsum(",".join(subs + [sub_in]) + "->" + sub_out, *ops, data)


def ref_transform_tensor(data, rank, Ofull, tr, dTR, dInv):
    """reference for PointSymmetry.transform_tensor as documented: rotate every tensor index with the *proper*
    part of the operation, then apply transformTR if the operation contains time reversal and transformInv if it
    contains inversion"""
    inv = np.linalg.det(Ofull) < 0
    Rp = -Ofull if inv else Ofull
    res = ref_rotate(data, rank, Rp)
    if tr:
        res = ref_apply_transform(dTR, res)
    if inv:
        res = ref_apply_transform(dInv, res)
    return res


# ------------------------------------------------------------------------------------------------
# strategies for group specifications

@st.composite
def op_st(draw, family):
    n, ax = draw(st.sampled_from(FAMILY_OPS[family]))
    return O(n, ax, inv=draw(st.booleans()), tr=draw(st.sampled_from([False, False, True])))


@st.composite
def groupspec_st(draw, max_order=None, allow_mismatch=False, families=None):
    """{"family", "gens":[op...], "lat": lattice dict (rot None), "grot": euler|None, "forms":[...], "flip":[...],
        "preset": name|None, "order": known order|None}"""
    from . import wbsys
    mode = draw(st.sampled_from(["preset", "preset", "random", "random", "random"]))
    presets = [p for p in PRESETS if (max_order is None or p[2] <= max_order) and (families is None or p[0] in families)]
    if mode == "preset":
        fam, ops, order, name = draw(st.sampled_from(presets))
        gens = [dict(o) for o in ops]
        if draw(st.booleans()):
            gens = list(draw(st.permutations(gens)))
    else:
        fam = draw(st.sampled_from(families or ["cubic", "tetragonal", "orthorhombic", "hexagonal", "hexagonal",
                                                "rhombohedral", "monoclinic", "triclinic"]))
        # distinct descriptors <=> distinct operations (a repeated generator is a separate, explicitly drawn class)
        gens = draw(st.lists(op_st(fam), min_size=0 if fam == "triclinic" else 1, max_size=4,
                             unique_by=lambda o: (o["n"], o["ax"], o["inv"], o["tr"])))
        order, name = None, None
    if allow_mismatch:
        kinds = ALL_LATTICES
    else:
        kinds = FAMILY_LATTICES[fam]
    lat = draw(wbsys.lattice_st(kinds=kinds, rotate=False))
    formmode = draw(st.sampled_from(["str", "obj", "sym", "mixed"]))
    forms = [formmode if formmode != "mixed" else draw(st.sampled_from(["str", "obj", "sym"])) for _ in gens]
    grot = None
    if "str" not in forms and draw(st.booleans()):
        grot = [draw(fl(0, 6.25)), draw(fl(0, 6.25)), draw(fl(0, 6.25))]
    flip = [draw(st.booleans()) for _ in gens]
    # optional extra generator written as a product of two (generally non-commuting) operations: 'C4z*C2x' or a*b
    prod = None
    if mode != "preset" and draw(st.integers(0, 2 ** 16)) % 4 == 1:
        pa, pb = draw(op_st(fam)), draw(op_st(fam))
        Of, tr = full_matrix(pa) @ full_matrix(pb), pa["tr"] != pb["tr"]
        if not any(np.allclose(Of, full_matrix(o)) and tr == o["tr"] for o in gens):  # never the same operation twice
            prod = [pa, pb]
    return dict(family=fam, gens=gens, lat=lat, grot=grot, forms=forms, flip=flip, preset=name, order=order, prod=prod)


def reference_generators(spec, Rg):
    """(full orthogonal matrices, TR flags) of the generators, in the order of build_wb_generators"""
    fulls = [full_matrix(o, Rg) for o in spec["gens"]]
    trs = [o["tr"] for o in spec["gens"]]
    if spec.get("prod"):
        pa, pb = spec["prod"]
        fulls.append(full_matrix(pa, Rg) @ full_matrix(pb, Rg))  # a*b = apply b first, then a
        trs.append(pa["tr"] != pb["tr"])
    return fulls, trs


def build_reference(spec):
    """-> (L, Rg, RefGroup or None, dev);  dev = max distance of the generators' lattice-basis matrices from
    integers; the reference closure is only built when the generators are compatible with the lattice (dev<1e-9)"""
    selfcheck_presets()
    Rg = None if spec["grot"] is None else global_rotation(spec["grot"])
    L = lattice_of(spec["lat"], spec["grot"])
    fulls, trs = reference_generators(spec, Rg)
    dev = max([int_rep(Of, L)[1] for Of in fulls] + [0.0])
    ref = RefGroup(fulls, trs, L) if dev < 1e-9 else None
    return L, Rg, ref, dev


def build_wb_generators(spec, Rg):
    gens = []
    used = []
    for op, form, flip in zip(spec["gens"], spec["forms"], spec["flip"]):
        g, f = wb_symmetry(op, form, Rg, flip)
        gens.append(g)
        used.append(f)
    if spec.get("prod"):
        pa, pb = spec["prod"]
        form = spec["forms"][0] if spec["forms"] else "obj"
        sa, sb = string_name(pa), string_name(pb)
        if form == "str" and Rg is None and sa is not None and sb is not None:
            gens.append(sa + "*" + sb)
            used.append("str-product")
        else:
            gens.append(wb_symmetry(pa, "obj", Rg)[0] * wb_symmetry(pb, "sym", Rg)[0])
            used.append("obj-product")
    return gens, used


def kfrac_st():
    den = st.sampled_from([1, 2, 3, 4, 6, 8, 12, 1000, 1000, 1000])

    @st.composite
    def comp(draw):
        if draw(st.integers(0, 2 ** 16)) % 3 == 1:
            # special value p/q plus an offset m*1e-5: distinct images are >= 1e-5 apart (10 x SYMMETRY_PRECISION)
            q = draw(st.sampled_from([1, 2, 3, 4, 6, 12]))
            p = draw(st.integers(-q, q))
            m = draw(st.one_of(st.integers(-30, 30), st.integers(-3000, 3000)))
            return [p * (1200000 // q) + 12 * m, 1200000]
        d = draw(den)
        return [draw(st.integers(-d, d)), d]
    return st.lists(comp(), min_size=3, max_size=3)


def kfrac_values(k):
    fr = [Fraction(int(n), int(d)) for n, d in k]
    return fr, np.array([float(f) for f in fr])
