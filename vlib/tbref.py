"""Reference tight-binding algebra used by C32 and C27 (no wannierberri code is used here).

HopTable     : a full, Hermitian-closed hopping table  T[R] (n x n complex), R integer vectors of length dim,
               plus reduced orbital positions; explicit Bloch sums in both phase conventions
                   convention 2:  H_ij(k) = sum_R T_ij(R) exp(2 pi i k.R)
                   convention 1:  H_ij(k) = sum_R T_ij(R) exp(2 pi i k.(R + t_j - t_i))
               (same eigenvalues; convention 1 is the one whose eigenvectors define the "internal" Berry
               curvature of a tight-binding model).
fhs_chern    : Chern number of the lowest `nocc` bands by the Fukui-Hatsugai-Suzuki plaquette method.
"""
import numpy as np


def lattice_nd(d, dim):
    """right-handed (det>0) dim x dim lattice from a drawn dict(a,b,c,o[3],ang): lower triangular with positive
    diagonal, optionally rotated (2D: in plane; 3D: about z then x)"""
    a, b, c = d["a"], d["b"], d["c"]
    o = d["o"]
    L = np.array([[a, 0, 0], [o[0] * a * 0.9, b, 0], [o[1] * a * 0.9, o[2] * b * 0.9, c]], dtype=float)[:dim, :dim]
    ang = d.get("ang")
    if ang is not None and dim >= 2:
        ca, sa = np.cos(ang), np.sin(ang)
        Rz = np.eye(dim)
        Rz[:2, :2] = [[ca, -sa], [sa, ca]]
        L = L @ Rz.T
        if dim == 3:
            cb, sb = np.cos(1.7 * ang + 0.3), np.sin(1.7 * ang + 0.3)
            Rx = np.array([[1, 0, 0], [0, cb, -sb], [0, sb, cb]])
            L = L @ Rx.T
    return L


class HopTable:
    def __init__(self, n, dim, pos=None):
        self.n = n
        self.dim = dim
        self.T = {}
        self.pos = np.zeros((n, dim)) if pos is None else np.array(pos, dtype=float).reshape(n, dim)

    def _get(self, R):
        R = tuple(int(x) for x in R)
        if R not in self.T:
            self.T[R] = np.zeros((self.n, self.n), dtype=complex)
        return self.T[R]

    def add_block(self, R, i0, j0, A):
        """T(R)[i0:, j0:] += A  and the Hermitian partner  T(-R)[j0:, i0:] += A^dagger"""
        A = np.atleast_2d(np.asarray(A, dtype=complex))
        p, q = A.shape
        self._get(R)[i0:i0 + p, j0:j0 + q] += A
        self._get([-x for x in R])[j0:j0 + q, i0:i0 + p] += A.conj().T

    def add_onsite_block(self, i0, A):
        """T(0)[i0:, i0:] += A  (A Hermitian; no partner added)"""
        A = np.atleast_2d(np.asarray(A, dtype=complex))
        p = A.shape[0]
        self._get([0] * self.dim)[i0:i0 + p, i0:i0 + p] += A

    def arrays(self):
        Rs = sorted(self.T)
        if not Rs:
            return np.zeros((0, self.dim), dtype=int), np.zeros((0, self.n, self.n), dtype=complex)
        return np.array(Rs, dtype=int).reshape(len(Rs), self.dim), np.array([self.T[R] for R in Rs])

    def Hk(self, k, convention=2):
        k = np.asarray(k, dtype=float)[:self.dim]
        H = np.zeros((self.n, self.n), dtype=complex)
        for R, M in self.T.items():
            H = H + M * np.exp(2j * np.pi * np.dot(k, R))
        if convention == 1:
            ph = np.exp(2j * np.pi * (self.pos @ k))
            H = ph.conj()[:, None] * H * ph[None, :]
        return H

    def Hk_mesh(self, kpts, convention=1):
        """(nk, n, n) Bloch Hamiltonians for an array of reduced k-points (nk, >=dim)"""
        kpts = np.asarray(kpts, dtype=float)[:, :self.dim]
        iR, M = self.arrays()
        ph = np.exp(2j * np.pi * (kpts @ iR.T))
        H = np.einsum("kr,rab->kab", ph, M)
        if convention == 1:
            d = np.exp(2j * np.pi * (kpts @ self.pos.T))
            H = d.conj()[:, :, None] * H * d[:, None, :]
        return H

    def bands(self, k):
        H = self.Hk(k)
        herm = np.max(np.abs(H - H.conj().T)) if H.size else 0.0
        if herm > 1e-10 * (1 + np.max(np.abs(H))):
            raise RuntimeError("reference hopping table is not Hermitian-closed (harness bug)")
        return np.linalg.eigvalsh(0.5 * (H + H.conj().T))

    def is_hermitian(self, tol=1e-12):
        for R, M in self.T.items():
            mR = tuple(-x for x in R)
            if mR not in self.T or np.max(np.abs(self.T[mR] - M.conj().T)) > tol * (1 + np.max(np.abs(M))):
                return False
        return True


# ------------------------------------------------------------------------------------------------
# reading the hopping tables of the source packages' model objects (public data of those objects)


def table_from_pythtb(model):
    """own Bloch-sum table from a pythtb (2.0) TBModel: `hoppings` list + `_site_energies`"""
    dim = int(model.dim_r)
    ns = 2 if model._nspin == 2 else 1
    norb = int(model.norb)
    pos = np.repeat(np.array(model.get_orb_vecs(cartesian=False), dtype=float).reshape(norb, dim), ns, axis=0)
    t = HopTable(norb * ns, dim, pos)
    for hop in model.hoppings:
        R = hop.get("lattice_vector", [0] * dim)
        A = np.asarray(hop["amplitude"], dtype=complex).reshape(ns, ns)
        t.add_block(R, ns * hop["from_orbital"], ns * hop["to_orbital"], A)
    se = np.asarray(model._site_energies)
    for i in range(norb):
        t.add_onsite_block(ns * i, np.asarray(se[i], dtype=complex).reshape(ns, ns))
    return t


def table_from_tbmodels(model):
    """tbmodels stores half of the table: H(R) for a set of R with H(0) halved; full = stored + h.c."""
    dim = int(model.dim)
    n = int(model.size)
    pos = np.zeros((n, dim)) if model.pos is None else np.array(model.pos, dtype=float)
    t = HopTable(n, dim, pos)
    for R, M in model.hop.items():
        M = M.toarray() if hasattr(M, "toarray") else np.asarray(M)
        t.add_block([int(x) for x in R], 0, 0, np.array(M, dtype=complex).reshape(n, n))
    return t


def table_from_system(system, dim=3):
    """the real-space Hamiltonian held by a wannierberri System_R, as plain data"""
    iR = np.array(system.rvec.iRvec, dtype=int)
    H = np.array(system.get_R_mat("Ham"))
    n = H.shape[1]
    t = HopTable(n, dim, np.array(system.wannier_centers_red, dtype=float)[:, :dim])
    for R, M in zip(iR, H):
        if np.any(R[dim:] != 0):
            raise RuntimeError("R vector outside the requested dimension")
        t._get(R[:dim])[...] += M
    return t


# ------------------------------------------------------------------------------------------------
# Fukui-Hatsugai-Suzuki


def fhs_chern(table, N, nocc):
    """Chern number (in REDUCED k coordinates, plaquettes traversed k -> k+e1 -> k+e1+e2 -> k+e2 -> k) of the
    `nocc` lowest bands of a 2D HopTable on an N x N mesh:

        C_red = (1/2pi) sum_plaquettes  -Im ln [ det<u(k)|u(k+e1)> det<u(k+e1)|u(k+e1+e2)> det<u(k+e1+e2)|u(k+e2)> det<u(k+e2)|u(k)> ]

    i.e. the discrete Berry phase  phi = -Im ln prod <u_i|u_{i+1}>  (Berry connection A = i<u|d_k u>) of every
    plaquette, each in (-pi, pi].  The eigenvectors are those of the k-periodic Bloch sum (convention 2), so that
    the mesh closes on itself across the zone boundary; the Chern number does not depend on the convention.
    Returns (C_red, direct_gap, max |plaquette phase|); the result is reliable when max|phase| is well below pi."""
    ks = np.arange(N) / N
    kk = np.array([[a, b] for a in ks for b in ks])
    H = table.Hk_mesh(kk, convention=2)
    H = 0.5 * (H + np.conj(np.swapaxes(H, 1, 2)))
    E, V = np.linalg.eigh(H)
    n = H.shape[1]
    U = V[:, :, :nocc].reshape(N, N, n, nocc)
    E = E.reshape(N, N, n)
    direct = float(np.min(E[:, :, nocc] - E[:, :, nocc - 1]))

    def link(A, B):
        return np.linalg.det(np.einsum("xyan,xyam->xynm", A.conj(), B))

    U1 = np.roll(U, -1, axis=0)
    U12 = np.roll(U1, -1, axis=1)
    U2 = np.roll(U, -1, axis=1)
    z = link(U, U1) * link(U1, U12) * link(U12, U2) * link(U2, U)
    ph = -np.angle(z)
    return float(np.sum(ph) / (2 * np.pi)), direct, float(np.max(np.abs(ph)))
