"""Helpers shared by C25 / C26 / C33: spin-up / spin-down model pairs, hand-built SystemSOC objects and the
harness' own reference for the spin-orbit Hamiltonian (no wannierberri code in the reference part).

Conventions (read from system_soc.py / data_K_soc.py, and stated in their doc strings):
  * spin channels are interlaced: orbital m of spin s has index 2m+s (s=0 up, s=1 down);
  * H(k) = [H_up(k) (+) H_dn(k)] + alpha * sum_c sigma'_c[s,s'] dV^{ss'}_c(k),
        dV^{10}(R) = dV^{01}(-R)^dagger;   with one spin channel dV^{ss'} = dV^{00} for all s,s';
  * sigma'_c = U^dagger sigma_c U with U the SU(2) rotation taking z to the axis n(theta,phi);
  * no Wannier-centre phases in X(k) itself; k-derivatives carry (R + t_j - t_i).
"""
import math

import numpy as np
from hypothesis import strategies as st

from .util import fl, rng_of, crandom
from . import wbsys

PAULI = np.array([[[0, 1], [1, 0]], [[0, -1j], [1j, 0]], [[1, 0], [0, -1]]], dtype=complex)  # PAULI[c] = sigma_c
EPS = np.zeros((3, 3, 3))
for _a, _b, _c in ((0, 1, 2), (1, 2, 0), (2, 0, 1)):
    EPS[_a, _b, _c] = 1
    EPS[_b, _a, _c] = -1


def tab_average(E, thresh=1e-4, tie=1e-7):
    """Tabulators (evaluate_k 'energy') report the *mean* energy of every group of bands whose consecutive gaps are
    <= degen_thresh (=1e-4, documented 'degenerate bands are treated together').  Applies the same grouping to a sorted
    reference spectrum; returns None when a gap is within `tie` of the threshold (grouping ambiguous)."""
    E = np.array(E, dtype=float)
    gaps = np.diff(E)
    if np.any(np.abs(gaps - thresh) < tie):
        return None
    out = E.copy()
    start = 0
    for i in range(1, len(E) + 1):
        if i == len(E) or gaps[i - 1] > thresh:
            out[start:i] = E[start:i].mean()
            start = i
    return out


def axis_of(theta, phi):
    return np.array([math.sin(theta) * math.cos(phi), math.sin(theta) * math.sin(phi), math.cos(theta)])


def own_rotated_pauli(theta, phi):
    """sigma'_c = U^+ sigma_c U,  U = exp(-i phi sigma_z/2) exp(-i theta sigma_y/2)  (matrix exponentials by scipy);
    returns array [c, s, s']"""
    from scipy.linalg import expm
    U = expm(-0.5j * phi * PAULI[2]) @ expm(-0.5j * theta * PAULI[1])
    return np.array([U.conj().T @ PAULI[c] @ U for c in range(3)])


# ------------------------------------------------------------------------------------------------
# strategies

_FRACS = [0.0, 0.5, 1 / 3, 0.25, 2 / 3, 0.75]
_coord = st.one_of(st.sampled_from(_FRACS), fl(-1.0, 1.999))
ANGLE_SPECIAL = [0.0, math.pi / 2, math.pi, math.pi / 4, 3 * math.pi / 2, 2 * math.pi]
theta_st = st.one_of(fl(0.01, 3.13), fl(0.01, 3.13), fl(0.0, 3.141592), st.sampled_from(ANGLE_SPECIAL[:4]))
phi_st = st.one_of(fl(0.01, 6.27), fl(0.01, 6.27), fl(-6.3, 12.6), st.sampled_from(ANGLE_SPECIAL))
alpha_soc_st = st.one_of(st.sampled_from([1.0, -1.0, 0.5]), fl(-2.0, 2.0))


def pairs_st(rmax, max_npairs, min_size=0):
    return st.lists(st.tuples(*[st.integers(-rmax, rmax)] * 3), min_size=min_size, max_size=max_npairs,
                    unique=True).map(lambda l: [list(p) for p in l])


@st.composite
def soc_term_st(draw, rmax=2, max_npairs=3):
    return dict(R=draw(pairs_st(rmax, max_npairs)), rs=draw(st.integers(0, 2 ** 32)), theta=draw(theta_st),
                phi=draw(phi_st), alpha=draw(alpha_soc_st), units=draw(st.sampled_from(["radians", "radians", "degrees"])))


@st.composite
def updown_st(draw, max_wann=3, max_npairs=4, rmax=2, lattice_kinds=None, nspin=None, soc="maybe", lat=None,
              nw=None):
    """parameters of a (spin-up, spin-down) pair of models on one lattice (+ optional spin-orbit term)"""
    lat = lat if lat is not None else draw(wbsys.lattice_st(kinds=lattice_kinds))
    nw = nw if nw is not None else draw(st.integers(1, max_wann))
    ns = nspin if nspin is not None else draw(st.sampled_from([1, 2, 2, 2]))
    Rup = draw(pairs_st(rmax, max_npairs))
    cup = [[draw(_coord) for _ in range(3)] for _ in range(nw)]
    d = dict(lat=lat, nw=nw, nspin=ns, decay=draw(st.sampled_from([0.5, 1.0, 2.0])),
             up=dict(R=Rup, centres=cup, rs=draw(st.integers(0, 2 ** 32))))
    if ns == 2:
        rmode = draw(st.sampled_from(["same", "diff", "diff", "perm"]))
        if rmode == "same":
            Rdn = [list(p) for p in Rup]
        elif rmode == "perm":  # same number of R-vectors, (usually) different vectors
            Rdn = [[p[2], p[0], -p[1]] for p in Rup]
        else:
            Rdn = draw(pairs_st(rmax, max_npairs))
        if draw(st.booleans()):
            cdn = [list(c) for c in cup]
        else:
            cdn = [[draw(_coord) for _ in range(3)] for _ in range(nw)]
        d["dn"] = dict(R=Rdn, centres=cdn, rs=draw(st.integers(0, 2 ** 32)))
        d["rmode"] = rmode
    else:
        d["dn"] = None
        d["rmode"] = "one-channel"
    if soc == "always" or (soc == "maybe" and draw(st.sampled_from([True, True, False]))):
        d["soc"] = draw(soc_term_st(rmax=rmax))
    else:
        d["soc"] = None
    return d


# ------------------------------------------------------------------------------------------------
# reference model


def _model_params(p, which):
    q = p[which]
    return dict(lat=p["lat"], nw=p["nw"], R=q["R"], centres=q["centres"], ckind="drawn", keys=["Ham"], rs=q["rs"],
                decay=p.get("decay", 1.0))


class SocModel:
    """pure-numpy description of a spin-up/spin-down pair with an optional spin-orbit term"""

    def __init__(self, p):
        self.p = p
        self.nspin = p["nspin"]
        self.n = p["nw"]
        # oneside: the up/down hoppings are listed for one direction only (R without -R); the code (like every System_R)
        # then takes the Hermitian part of the Fourier sum at every k
        closed = not p.get("oneside", False)
        self.mu = wbsys.make_model(_model_params(p, "up"), closed=closed)
        self.md = wbsys.make_model(_model_params(p, "dn"), closed=closed) if self.nspin == 2 else self.mu
        self.lattice = self.mu.lattice
        self.has_soc = p["soc"] is not None
        self.wcc_red = np.zeros((2 * self.n, 3))
        self.wcc_red[::2] = self.mu.wcc_red
        self.wcc_red[1::2] = self.md.wcc_red
        if self.has_soc:
            s = p["soc"]
            self.theta, self.phi, self.alpha = float(s["theta"]), float(s["phi"]), float(s["alpha"])
            self.Rsoc = np.array(wbsys.closed_R_list(s["R"]), dtype=int)
            rng = rng_of(s["rs"])
            nR, n = len(self.Rsoc), self.n
            cR = np.linalg.norm(self.Rsoc @ self.lattice, axis=1)
            damp = np.exp(-cR / max(1e-9, abs(np.linalg.det(self.lattice)) ** (1 / 3)))[:, None, None, None]
            self.dV00 = wbsys.hermitize(crandom(rng, (nR, n, n, 3)) * damp, self.Rsoc)
            if self.nspin == 2:
                self.dV11 = wbsys.hermitize(crandom(rng, (nR, n, n, 3)) * damp, self.Rsoc)
                self.dV01 = crandom(rng, (nR, n, n, 3)) * damp
                self.overlap = crandom(rng, (nR, n, n)) * damp[..., 0]

    # R sets as sets of tuples
    @staticmethod
    def _Rset(iRvec):
        return {tuple(int(x) for x in R) for R in iRvec}

    @property
    def Rsets_differ(self):
        return self.nspin == 2 and self._Rset(self.mu.iRvec) != self._Rset(self.md.iRvec)

    @property
    def Rcounts_differ(self):
        return self.nspin == 2 and len(self.mu.iRvec) != len(self.md.iRvec)

    def merged(self, pauli=None, with_soc=True):
        """the 2n x 2n model (wbsys.Model, key 'Ham') on the union of all R sets, interlaced spin order.
        pauli[c,s,s'] = rotated Pauli matrices (default: the harness' own)"""
        n = self.n
        use_soc = self.has_soc and with_soc
        Rs = self._Rset(self.mu.iRvec) | self._Rset(self.md.iRvec)
        if use_soc:
            Rs |= self._Rset(self.Rsoc)
        Rs = sorted(Rs)
        idx = {R: i for i, R in enumerate(Rs)}
        H = np.zeros((len(Rs), 2 * n, 2 * n), dtype=complex)
        for i, R in enumerate(self.mu.iRvec):
            H[idx[tuple(int(x) for x in R)], ::2, ::2] += self.mu.mats["Ham"][i]
        for i, R in enumerate(self.md.iRvec):
            H[idx[tuple(int(x) for x in R)], 1::2, 1::2] += self.md.mats["Ham"][i]
        if use_soc:
            P = own_rotated_pauli(self.theta, self.phi) if pauli is None else np.asarray(pauli)
            isoc = {tuple(int(x) for x in R): i for i, R in enumerate(self.Rsoc)}
            for R, i in isoc.items():
                j = idx[R]
                im = isoc[tuple(-x for x in R)]
                if self.nspin == 2:
                    D = {(0, 0): self.dV00[i], (1, 1): self.dV11[i], (0, 1): self.dV01[i],
                         (1, 0): np.conj(np.swapaxes(self.dV01[im], 0, 1))}
                else:
                    D = {(s, t): self.dV00[i] for s in (0, 1) for t in (0, 1)}
                for (s, t), Dst in D.items():
                    H[j, s::2, t::2] += self.alpha * np.einsum("mnc,c->mn", Dst, P[:, s, t])
        return wbsys.Model(self.lattice, self.wcc_red, np.array(Rs, dtype=int), {"Ham": H})

    def union_bands(self, k):
        return np.sort(np.concatenate([self.mu.bands(k), self.md.bands(k)]))


def build_soc_system(sm, call_set_axis=True):
    """the real SystemSOC for a SocModel (recipe validated in DESIGN section 9: matrices assigned as from_npz does)"""
    from wannierberri.system.system_soc import SystemSOC
    from wannierberri.fourier.rvectors import Rvectors
    up = wbsys.to_system(sm.mu)
    dn = wbsys.to_system(sm.md) if sm.nspin == 2 else None
    soc = SystemSOC(up, dn)
    if sm.has_soc:
        soc.rvec = Rvectors(lattice=sm.lattice.copy(), iRvec=sm.Rsoc.copy(), shifts_left_red=soc.wannier_centers_red)
        soc.set_R_mat("dV_soc_wann_0_0", sm.dV00.copy())
        if sm.nspin == 2:
            soc.set_R_mat("dV_soc_wann_1_1", sm.dV11.copy())
            soc.set_R_mat("dV_soc_wann_0_1", sm.dV01.copy())
            soc.set_R_mat("overlap_up_down", sm.overlap.copy())
        soc.has_soc = True
        if call_set_axis:
            s = sm.p["soc"]
            if s.get("units", "radians") == "degrees":
                soc.set_soc_axis(theta=float(np.rad2deg(sm.theta)), phi=float(np.rad2deg(sm.phi)), alpha_soc=sm.alpha,
                                 units="degrees")
            else:
                soc.set_soc_axis(theta=sm.theta, phi=sm.phi, alpha_soc=sm.alpha)
    else:
        # a SystemSOC without a spin-orbit term has no R-vectors of its own; Grid() asks for NKFFT_recommended
        soc._NKFFT_recommended = np.array([1, 1, 1])
    soc.set_pointgroup()
    return soc
