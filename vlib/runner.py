"""Runner for the property checks (see DESIGN.md section 2).

    python -m vlib.runner <ID> [--tier quick|thorough] [--replay FILE] [--jobs N] [--only SUB] [--n N]

A property module (props/cNN_*.py) defines

    PROPERTY_ID, RULE, ASSUMPTIONS (list[str]), SUBS (list[Sub]), optional MIN_NONTRIVIAL, summarize()

Each Sub has a Hypothesis strategy producing a *plain-data* case (JSON serialisable) and a function
func(case) -> Ok(...)   that runs the real code against the oracle and
  * returns ok(nontrivial, *labels)                       property held on this case
  * raises Violation(bucket, detail)                      the property is violated (oracle disagrees)
  * raises Reject(reason)                                 the code rejected the input cleanly (allowed)
  * raises Inconclusive(reason)                           e.g. not converged / tie witness found
An exception that escapes from wannierberri code (innermost project frame inside $VERIF_REPO) is a
violation bucketed by exception type and frame; an exception whose innermost project frame is in /verif
is a harness error (exit 2) and never a VIOLATION.
"""
import argparse
import hashlib
import importlib
import json
import os
import sys
import time
import traceback
import glob as _glob
from collections import Counter

HERE = os.path.dirname(os.path.dirname(os.path.abspath(__file__)))
REPO = os.path.realpath(os.environ.get("VERIF_REPO", "/repo"))
DEBUG = os.environ.get("VERIF_DEBUG", "") not in ("", "0")
try:
    THOROUGH_SCALE = max(0.1, float(os.environ.get("VERIF_THOROUGH_SCALE", "4") or 4))
except ValueError:
    THOROUGH_SCALE = 4.0

# ---------------------------------------------------------------------------------------------
# verdicts


class Violation(Exception):
    def __init__(self, bucket, detail=""):
        super().__init__(f"{bucket}: {detail}")
        self.bucket = str(bucket)
        self.detail = str(detail)


class Reject(Exception):
    pass


class Inconclusive(Exception):
    pass


class HarnessError(Exception):
    pass


class Ok:
    __slots__ = ("nontrivial", "labels", "known")

    def __init__(self, nontrivial, labels, known=()):
        self.nontrivial = bool(nontrivial)
        self.labels = tuple(labels)
        self.known = tuple(known)


def ok(nontrivial, *labels, known=()):
    """known: clause names (without the sub prefix) of violations observed in this case that are listed in
    KNOWN_FINDINGS.txt and were therefore excluded from the verdict by the check (counted and reported as
    KNOWN-FINDING lines, never silently dropped)"""
    return Ok(nontrivial, [l for l in labels if l], known=known)


class Sub:
    def __init__(self, name, strategy, func, quick, thorough, budget_quick=60.0, budget_thorough=420.0,
                 min_nontrivial=None, per_shard_min=4, group=None):
        self.name = name
        self.strategy = strategy
        self.func = func
        self.quick = quick
        self.thorough = thorough
        self.budget = {"quick": budget_quick, "thorough": budget_thorough}
        self.min_nontrivial = min_nontrivial
        self.per_shard_min = per_shard_min
        self.group = group or name   # bucket prefix: subs that stratify one generator share a group (= one root-cause namespace)


# ---------------------------------------------------------------------------------------------
# output handling: everything the code under test prints goes to /dev/null; our own lines go to OUT

_OUT = None


def _setup_output():
    global _OUT
    if _OUT is not None:
        return
    _OUT = os.fdopen(os.dup(1), "w", buffering=1)
    if not DEBUG:
        devnull = os.open(os.devnull, os.O_WRONLY)
        sys.stdout.flush()
        sys.stderr.flush()
        os.dup2(devnull, 1)
        os.dup2(devnull, 2)


def say(*a):
    _setup_output()
    print(*a, file=_OUT, flush=True)


# ---------------------------------------------------------------------------------------------


def canon(case):
    return json.dumps(case, sort_keys=True, default=_json_default)


def _json_default(o):
    import numpy as np
    if isinstance(o, (np.integer,)):
        return int(o)
    if isinstance(o, (np.floating,)):
        return float(o)
    if isinstance(o, np.ndarray):
        return o.tolist()
    if isinstance(o, (set, frozenset, tuple)):
        return list(o)
    if isinstance(o, complex):
        return [o.real, o.imag]
    raise TypeError(f"not JSON serialisable: {type(o)}")


def case_hash(case):
    return hashlib.sha1(canon(case).encode()).hexdigest()[:16]


def classify_exception(exc):
    """return ('violation', bucket) if the innermost project frame is in the repo, ('harness', text) if in /verif"""
    tb = traceback.extract_tb(exc.__traceback__)
    verif = os.path.realpath(HERE)
    for fr in reversed(tb):
        fn = os.path.realpath(fr.filename)
        if fn.startswith(REPO + os.sep):
            rel = os.path.relpath(fn, REPO)
            return "violation", f"exception:{type(exc).__name__}@{rel}:{fr.name}"
        if fn.startswith(verif + os.sep):
            return "harness", f"{type(exc).__name__}@{os.path.relpath(fn, verif)}:{fr.lineno}"
    return "harness", f"{type(exc).__name__} (no project frame)"


class Stats:
    def __init__(self):
        self.evaluations = 0
        self.nontrivial_hashes = set()
        self.all_hashes = set()
        self.labels = Counter()
        self.rejected = Counter()
        self.inconclusive = Counter()
        self.samples = []
        self.buckets = {}  # bucket -> dict(count, case, detail, sub, seed)
        self.budget_hit = []
        self.harness_errors = []
        self.per_sub = {}
        self.known_hits = Counter()   # bucket -> cases in which a listed finding was observed and excluded by the check

    def to_dict(self):
        return dict(evaluations=self.evaluations, nontrivial_hashes=sorted(self.nontrivial_hashes),
                    n_all=len(self.all_hashes), labels=dict(self.labels), rejected=dict(self.rejected),
                    inconclusive=dict(self.inconclusive), samples=self.samples, buckets=self.buckets,
                    budget_hit=self.budget_hit, harness_errors=self.harness_errors, per_sub=self.per_sub,
                    known_hits=dict(self.known_hits))


class _BudgetStop(Exception):
    pass


def execute(sub, case, stats, seed=None, collect=True):
    """run one case; returns None or (bucket, detail)"""
    stats.evaluations += 1
    ps = stats.per_sub.setdefault(sub.name, dict(evaluations=0, nontrivial=0, violations=0))
    ps["evaluations"] += 1
    h = case_hash(case)
    stats.all_hashes.add(h)
    try:
        res = sub.func(case)
    except Violation as v:
        bucket, detail = f"{sub.group}:{v.bucket}", v.detail
    except Reject as r:
        stats.rejected[f"{sub.name}:{str(r)[:60]}"] += 1
        return None
    except Inconclusive as r:
        stats.inconclusive[f"{sub.name}:{str(r)[:60]}"] += 1
        return None
    except (KeyboardInterrupt, SystemExit, _BudgetStop):
        raise
    except BaseException as exc:  # noqa
        kind, text = classify_exception(exc)
        if kind == "harness":
            stats.harness_errors.append(dict(sub=sub.name, where=text, case=json.loads(canon(case)),
                                             tb=traceback.format_exc()[-3000:]))
            raise HarnessError(text) from exc
        bucket, detail = f"{sub.group}:{text}", f"{type(exc).__name__}: {str(exc)[:300]}"
    else:
        if not isinstance(res, Ok):
            raise HarnessError(f"{sub.name} returned {type(res)} instead of Ok")
        for l in res.labels:
            stats.labels[f"{sub.name}:{l}"] += 1
        for kb in res.known:
            stats.known_hits[f"{sub.group}:{kb}"] += 1
        if res.nontrivial:
            if h not in stats.nontrivial_hashes:
                stats.nontrivial_hashes.add(h)
                ps["nontrivial"] += 1
                if sum(1 for s in stats.samples if s["sub"] == sub.name) < 2:
                    stats.samples.append(dict(sub=sub.name, labels=list(res.labels), case=_sample(case)))
        return None
    ps["violations"] += 1
    if collect:
        b = stats.buckets.get(bucket)
        size = len(canon(case))
        if b is None:
            stats.buckets[bucket] = dict(count=1, case=json.loads(canon(case)), detail=detail, sub=sub.name,
                                         seed=seed, size=size)
        else:
            b["count"] += 1
            if size < b["size"]:
                b.update(case=json.loads(canon(case)), detail=detail, size=size, seed=seed)
    return bucket, detail


def _sample(case):
    s = canon(case)
    if len(s) <= 1200:
        return json.loads(s)
    return s[:1200] + " ...(truncated)"


def _hyp_settings(n, shrink=False):
    from hypothesis import settings, HealthCheck, Phase, Verbosity
    phases = [Phase.generate, Phase.shrink] if shrink else [Phase.generate]
    return settings(max_examples=n, database=None, deadline=None, derandomize=False, phases=phases,
                    suppress_health_check=list(HealthCheck), report_multiple_bugs=False,
                    verbosity=Verbosity.quiet)


def run_sub(sub, n, seed, budget, stats, skip_first=False):
    """skip_first: Hypothesis begins every run with the simplest example of the strategy; shards other than the
    first one skip it (it would be the same case in every shard) and generate one more example instead"""
    from hypothesis import given, seed as hseed
    t_end = time.time() + budget
    state = {"calls": 0}

    @hseed(seed)
    @_hyp_settings(n + (1 if skip_first else 0))
    @given(sub.strategy)
    def test(case):
        state["calls"] += 1
        if skip_first and state["calls"] == 1:
            return
        if time.time() > t_end:
            raise _BudgetStop()
        execute(sub, case, stats, seed=seed)

    try:
        test()
    except _BudgetStop:
        stats.budget_hit.append(sub.name)


def load_module(pid):
    pid = pid.upper()
    files = sorted(_glob.glob(os.path.join(HERE, "props", pid.lower() + "_*.py")))
    if len(files) != 1:
        raise HarnessError(f"expected exactly one props module for {pid}, found {files}")
    name = "props." + os.path.basename(files[0])[:-3]
    return importlib.import_module(name)


def check_repo_import():
    import wannierberri
    f = os.path.realpath(wannierberri.__file__)
    if not f.startswith(REPO + os.sep):
        raise HarnessError(f"wannierberri imported from {f}, expected under {REPO}")


def _shard(args):
    pid, tier, seed, shard, jobs, only, n_override = args
    _setup_output()
    stats = Stats()
    try:
        check_repo_import()
        mod = load_module(pid)
        for sub in mod.SUBS:
            if only and sub.name not in only:
                continue
            n_total = n_override if n_override else getattr(sub, tier)
            if tier == "thorough" and not n_override:
                # module counts were calibrated on a loaded machine; on 16 idle cores they take 1-4 minutes, so the
                # thorough tier multiplies them (VERIF_THOROUGH_SCALE, default 4; wall budgets still cap every sub)
                n_total = int(n_total * THOROUGH_SCALE)
            # Hypothesis starts every run with the simplest example: give each shard at least `per_shard_min`
            # cases so that small case counts are not spent on identical minimal examples
            nshards = max(1, min(jobs, n_total // max(1, sub.per_shard_min)))
            if shard >= nshards:
                continue
            n = max(1, -(-n_total // nshards))
            run_sub(sub, n, seed * 1000 + shard, sub.budget[tier], stats, skip_first=(shard > 0))
    except HarnessError as e:
        if not stats.harness_errors:
            stats.harness_errors.append(dict(sub="?", where=str(e), tb=traceback.format_exc()[-3000:]))
    except BaseException:  # noqa
        stats.harness_errors.append(dict(sub="?", where="runner", tb=traceback.format_exc()[-3000:]))
    return stats.to_dict()


def merge(dicts):
    m = Stats()
    for d in dicts:
        m.evaluations += d["evaluations"]
        m.nontrivial_hashes.update(d["nontrivial_hashes"])
        m.labels.update(d["labels"])
        m.rejected.update(d["rejected"])
        m.inconclusive.update(d["inconclusive"])
        m.budget_hit += d["budget_hit"]
        m.known_hits.update(d.get("known_hits", {}))
        m.harness_errors += d["harness_errors"]
        for s in d["samples"]:
            if sum(1 for x in m.samples if x["sub"] == s["sub"]) < 2:
                m.samples.append(s)
        for k, v in d["per_sub"].items():
            p = m.per_sub.setdefault(k, dict(evaluations=0, nontrivial=0, violations=0))
            for kk in p:
                p[kk] += v[kk]
        for b, v in d["buckets"].items():
            if b not in m.buckets:
                m.buckets[b] = dict(v)
            else:
                m.buckets[b]["count"] += v["count"]
                if v["size"] < m.buckets[b]["size"]:
                    cnt = m.buckets[b]["count"]
                    m.buckets[b] = dict(v)
                    m.buckets[b]["count"] = cnt
    return m


def read_known(pid):
    """KNOWN_FINDINGS.txt:  'finding: property=C12 bucket=<bucket> <text>'  /  'fixed: property=.. <commit> <text>'"""
    out = {}
    path = os.path.join(HERE, "KNOWN_FINDINGS.txt")
    if not os.path.exists(path):
        return out
    for line in open(path):
        line = line.strip()
        if not line.startswith("finding:"):
            continue
        parts = line.split(None, 3)
        if len(parts) < 3:
            continue
        kv = dict(p.split("=", 1) for p in parts[1:3] if "=" in p)
        if kv.get("property") == pid and "bucket" in kv:
            out[kv["bucket"]] = parts[3] if len(parts) > 3 else ""
    return out


def shrink_bucket(mod, bucket, info, budget):
    """try to shrink with Hypothesis (find); returns the smallest failing case seen"""
    from hypothesis import find
    from hypothesis.errors import NoSuchExample
    import random
    sub = [s for s in mod.SUBS if s.name == info["sub"]][0]
    best = dict(case=info["case"], detail=info["detail"], size=info["size"])
    t_end = time.time() + budget
    st = Stats()

    def cond(case):
        if time.time() > t_end:
            raise _BudgetStop()   # leave Hypothesis' shrinker at the deadline (it would otherwise keep calling us)
        try:
            r = execute(sub, case, st, collect=False)
        except HarnessError:
            return False
        if r is not None and r[0] == bucket:
            size = len(canon(case))
            if size <= best["size"]:
                best.update(case=json.loads(canon(case)), detail=r[1], size=size)
            return True
        return False

    try:
        find(sub.strategy, cond, settings=_hyp_settings(300, shrink=True), random=random.Random(info.get("seed") or 0))
    except NoSuchExample:
        pass
    except Exception:  # noqa  (Hypothesis internal trouble must not hide the violation)
        pass
    return best


def safe_name(s):
    return "".join(c if c.isalnum() or c in "-_." else "_" for c in s)[:120]


def write_replay(pid, bucket, case, detail, subname):
    d = os.path.join(os.environ.get("VERIF_REPLAY_DIR") or os.path.join(HERE, "replays"), pid)
    os.makedirs(d, exist_ok=True)
    path = os.path.join(d, safe_name(bucket) + ".json")
    with open(path, "w") as f:
        json.dump(dict(property=pid, bucket=bucket, sub=subname, detail=detail, case=case), f,
                  indent=1, sort_keys=True, default=_json_default)
    return os.path.relpath(path, HERE)


def do_replay(pid, path):
    _setup_output()
    check_repo_import()
    mod = load_module(pid)
    rp = json.load(open(path))
    cands = [s for s in mod.SUBS if s.name == rp["sub"]] or [s for s in mod.SUBS if s.group == rp["sub"]]
    if not cands:
        say(f"HARNESS-ERROR: replay names sub '{rp['sub']}' which {pid} does not have")
        return 2
    sub = cands[0]
    st = Stats()
    try:
        r = execute(sub, rp["case"], st)
    except HarnessError as e:
        say(f"HARNESS-ERROR: {e}")
        for h in st.harness_errors:
            say(h.get("tb", ""))
        return 2
    if r is None:
        known = read_known(pid)
        for b, n in sorted(st.known_hits.items()):
            say(f"KNOWN-FINDING: property={pid} {known.get(b, '(not listed!)')} (bucket={b}, reproduced by this replay)")
        if st.known_hits:
            return 0 if all(b in known for b in st.known_hits) else 2
        say(f"replay {path}: property {pid} holds on this case")
        return 0
    say(f"replay {path}: bucket={r[0]} detail={r[1]}")
    say(f"VIOLATION property={pid} replay={path}")
    return 1


def main(argv=None):
    ap = argparse.ArgumentParser()
    ap.add_argument("pid")
    ap.add_argument("--tier", default=os.environ.get("VERIF_TIER", "quick"), choices=["quick", "thorough"])
    ap.add_argument("--replay")
    ap.add_argument("--jobs", type=int, default=None)
    ap.add_argument("--only", action="append")
    ap.add_argument("--n", type=int, default=None)
    ap.add_argument("--no-evidence", action="store_true")
    a = ap.parse_args(argv)
    pid = a.pid.upper()
    _setup_output()
    try:
        seed = int(os.environ.get("VERIF_SEED", "1") or 1)
    except ValueError:
        seed = 1
    if a.replay:
        try:
            return do_replay(pid, a.replay)
        except BaseException:  # noqa
            say("HARNESS-ERROR: replay failed\n" + traceback.format_exc())
            return 2
    t0 = time.time()
    jobs = a.jobs or int(os.environ.get("VERIF_JOBS", "0") or 0) or (8 if a.tier == "quick" else 16)
    try:
        mod = load_module(pid)
    except BaseException:  # noqa
        say("HARNESS-ERROR: cannot import property module\n" + traceback.format_exc())
        return 2
    args = [(pid, a.tier, seed, i, jobs, a.only, a.n) for i in range(jobs)]
    if jobs == 1:
        results = [_shard(args[0])]
    else:
        import multiprocessing as mp
        ctx = mp.get_context("spawn")
        with ctx.Pool(jobs) as pool:
            results = pool.map(_shard, args, chunksize=1)
    m = merge(results)
    known = read_known(pid)
    new_buckets = {b: v for b, v in m.buckets.items() if b not in known}
    viol_lines = []
    shrink_budget = 45.0 if a.tier == "quick" else 150.0
    for i, (b, v) in enumerate(sorted(new_buckets.items())):
        if i < 3 and not m.harness_errors:
            try:
                best = shrink_bucket(mod, b, v, shrink_budget)
            except BaseException:  # noqa
                best = v
        else:
            best = v
        path = write_replay(pid, b, best["case"], best["detail"], v["sub"])
        v["replay"] = path
        viol_lines.append((b, path, best["detail"]))
    wall = time.time() - t0
    min_nt = getattr(mod, "MIN_NONTRIVIAL", {}).get(a.tier, 2) if not (a.only or a.n) else 0
    nt = len(m.nontrivial_hashes)
    coverage = dict(
        evaluations=m.evaluations, distinct_nontrivial=nt, rule=mod.RULE, samples=m.samples,
        labels=dict(sorted(m.labels.items())), rejected_by_code=dict(m.rejected), inconclusive=dict(m.inconclusive),
        per_sub=m.per_sub, budget_hit=sorted(set(m.budget_hit)), jobs=jobs,
        buckets=[dict(bucket=b, count=v["count"], detail=v["detail"][:300], known=(b in known),
                      replay=v.get("replay")) for b, v in sorted(m.buckets.items())],
        explanation=getattr(mod, "EXPLANATION", ""),
        known_findings_excluded=dict(m.known_hits),
    )
    ev = dict(property_id=pid, tier=a.tier, seed=seed, level="exploration", coverage=coverage,
              assumptions=list(getattr(mod, "ASSUMPTIONS", [])), wall_s=round(wall, 2), violations=len(new_buckets))
    if not a.no_evidence:
        os.makedirs(os.path.join(HERE, "evidence"), exist_ok=True)
        with open(os.path.join(HERE, "evidence", pid + ".json"), "w") as f:
            json.dump(ev, f, indent=1, sort_keys=True, default=_json_default)
    say(f"{pid} tier={a.tier} seed={seed} jobs={jobs} evaluations={m.evaluations} distinct_nontrivial={nt} "
        f"rejected={sum(m.rejected.values())} inconclusive={sum(m.inconclusive.values())} "
        f"buckets={len(m.buckets)} wall={wall:.1f}s")
    for k, v in sorted(m.per_sub.items()):
        say(f"  sub {k}: {v}")
    for b, v in sorted(m.buckets.items()):
        if b in known:
            say(f"KNOWN-FINDING: property={pid} {known[b]} (bucket={b}, {v['count']} cases)")
    for b, n in sorted(m.known_hits.items()):
        if b in known and b not in m.buckets:
            say(f"KNOWN-FINDING: property={pid} {known[b]} (bucket={b}, observed and excluded in {n} cases)")
        elif b not in known:   # a check may only exclude what the findings file lists
            say(f"HARNESS-ERROR: check excluded bucket {b} which is not listed in KNOWN_FINDINGS.txt")
            return 2
    if m.harness_errors:
        say(f"HARNESS-ERROR: {len(m.harness_errors)} error(s); first:")
        h = m.harness_errors[0]
        say(f"  sub={h.get('sub')} where={h.get('where')}")
        say(h.get("tb", ""))
        if "case" in h:
            say("  case=" + canon(h["case"])[:1500])
        return 2
    for b, path, detail in viol_lines:
        say(f"  bucket={b} detail={detail[:300]}")
        say(f"VIOLATION property={pid} replay={path}")
    if viol_lines:
        return 1
    if nt < max(min_nt, 0):
        say(f"HARNESS-ERROR: only {nt} distinct non-trivial cases (< {min_nt}); generator/budget too weak")
        return 2
    return 0


if __name__ == "__main__":
    sys.exit(main())
