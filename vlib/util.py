"""small shared helpers (no wannierberri imports at module level)"""
import contextlib
import os
import shutil
import tempfile

import numpy as np


def rng_of(seed):
    """deterministic generator from a Hypothesis-drawn integer (the integer is part of the case)"""
    return np.random.default_rng(int(seed) & 0xFFFFFFFFFFFF)


def crandom(rng, shape, cplx=True):
    a = rng.uniform(-1, 1, size=shape)
    if cplx:
        a = a + 1j * rng.uniform(-1, 1, size=shape)
    return a


def maxabs(a):
    a = np.asarray(a)
    return float(np.max(np.abs(a))) if a.size else 0.0


def reldiff(a, b):
    """max|a-b| / (1 + max|a| + max|b|)   (the 'equal to rounding' measure of DESIGN 2.3)"""
    a = np.asarray(a)
    b = np.asarray(b)
    if a.shape != b.shape:
        return float("inf")
    if a.size == 0:
        return 0.0
    return maxabs(a - b) / (1.0 + maxabs(a) + maxabs(b))


def scalediff(a, b):
    """max|a-b| / max(|a|,|b|, tiny)  -- pure relative to scale"""
    a = np.asarray(a)
    b = np.asarray(b)
    if a.shape != b.shape:
        return float("inf")
    if a.size == 0:
        return 0.0
    s = max(maxabs(a), maxabs(b))
    if s == 0:
        return 0.0
    return maxabs(a - b) / s


@contextlib.contextmanager
def scratch_dir():
    base = os.environ.get("VERIF_SCRATCH") or "/var/tmp"
    os.makedirs(base, exist_ok=True)
    d = tempfile.mkdtemp(prefix="wbverif_", dir=base)
    try:
        yield d
    finally:
        shutil.rmtree(d, ignore_errors=True)


@contextlib.contextmanager
def chdir(d):
    old = os.getcwd()
    os.chdir(d)
    try:
        yield
    finally:
        os.chdir(old)


@contextlib.contextmanager
def numpy_seed(seed):
    """the code under test uses numpy's global RNG in a few places; pin it from a case-carried integer"""
    state = np.random.get_state()
    np.random.seed(int(seed) % (2 ** 32))
    try:
        yield
    finally:
        np.random.set_state(state)


def fl(lo, hi, digits=6):
    """Hypothesis float strategy in [lo,hi], rounded to `digits` decimals (compact JSON, stays in range)"""
    from hypothesis import strategies as st
    return st.floats(lo, hi, allow_nan=False, allow_infinity=False).map(
        lambda x: min(hi, max(lo, round(x, digits))))
