"""Reference k.p models for C28 (harness side, pure numpy; no wannierberri imports).

    H(k) = s * [ (x.G.x / 2) 1  +  C0  +  sum_j c_j cos(2 pi p_j.x + phi_j) N_j ] ,     x_i = k.a_i / (2 pi),  i < dim

x = reduced coordinates of the Cartesian k in the box spanned by the reciprocal vectors b_i (rows of `recip`), a_i the
dual (real-space) vectors; only the first `dim` reduced coordinates enter, so a dim=2 model does not depend on the third
reduced coordinate at all.  G (dim x dim) is positive definite, anisotropic and rotated against the reduced axes, hence
the Cartesian mass tensor  M = s * sum_ij G_ij a_i a_j^T / (2 pi)^2  is aligned with nothing.
One band: C0 = 0, N_j = 1.  Two bands: C0 = Delta sigma_z, N_j Pauli matrices (x, y, z) or the unit matrix, with
sum_{j on sigma_z} |c_j| <= Delta/2, so that the gap 2|d(k)| >= Delta*s everywhere (no band touching).
All Cartesian derivatives (order 1-3) are analytic:  d^m H = s*[ d^m(x.G.x/2) + sum_j c_j cos^(m)(theta_j) q_j^(x)m N_j ],
q_j = sum_i p_ji a_i.

Rigorous facts used by the check (lowest band E_0(k), Weyl):  E_0(k) >= s*(x.G.x/2 - beta), beta = |C0|_2 + sum_j |c_j| |N_j|_2,
and on the box face x_i = +-1/2 the quadratic form is >= 1/(8 (G^-1)_ii); so
    E_0 >= E_face = s*(min_i 1/(8 (G^-1)_ii) - beta)      everywhere on the boundary of the box.
"""
import numpy as np

from .util import rng_of

PAULI = [np.array([[0, 1], [1, 0]], dtype=complex), np.array([[0, -1j], [1j, 0]], dtype=complex),
         np.array([[1, 0], [0, -1]], dtype=complex), np.eye(2, dtype=complex)]


def _rot3(e):
    a, b, c = e
    Rz = np.array([[np.cos(a), -np.sin(a), 0], [np.sin(a), np.cos(a), 0], [0, 0, 1]])
    Ry = np.array([[np.cos(b), 0, np.sin(b)], [0, 1, 0], [-np.sin(b), 0, np.cos(b)]])
    Rz2 = np.array([[np.cos(c), -np.sin(c), 0], [np.sin(c), np.cos(c), 0], [0, 0, 1]])
    return Rz @ Ry @ Rz2


class PocketModel:
    """recip: (3,3) rows b_i.  dim 2|3.  nb 1|2.  kind 'parabolic' (one band, no mixing) | 'trig'.
    ratios: eigenvalue ratios of G (>= 1), angles: rotation of G in the reduced frame.  amp: beta-budget of the trigonometric
    terms as a fraction of the face value min_i 1/(8 (G^-1)_ii);  delta: Delta as such a fraction (two bands).
    The overall energy scale s is set afterwards with set_scale()."""

    def __init__(self, recip, dim, nb, kind, ratios, angles, amp, delta, nterms, rs):
        self.recip = np.array(recip, dtype=float)
        self.real = 2 * np.pi * np.linalg.inv(self.recip).T          # rows a_i,  a_i.b_j = 2 pi delta_ij
        self.dim, self.nb, self.kind = int(dim), int(nb), kind
        rng = rng_of(rs)
        lam = np.array([1.0] + [float(r) for r in ratios])[:self.dim]
        if self.dim == 3:
            R = _rot3(angles)
        else:
            c, s_ = np.cos(angles[0]), np.sin(angles[0])
            R = np.array([[c, -s_], [s_, c]])
        self.G = R @ np.diag(lam) @ R.T
        self.G = 0.5 * (self.G + self.G.T)
        self.face0 = float(np.min(1.0 / (8.0 * np.diag(np.linalg.inv(self.G)))))
        A = self.real[:self.dim]                                       # (dim,3)
        self.M0 = A.T @ self.G @ A / (2 * np.pi) ** 2                  # Cartesian mass tensor for s = 1
        self.C0 = np.zeros((self.nb, self.nb), dtype=complex)
        self.terms = []                                                # (c, q_cart(3), phi, N, p_red)
        if kind == "parabolic":
            if self.nb != 1:
                raise ValueError("parabolic models have one band")
            self.beta = 0.0
        else:
            budget = float(amp) * self.face0
            if self.nb == 1:
                mats = [np.eye(1, dtype=complex)] * int(nterms)
                w = rng.uniform(0.5, 1.0, len(mats))
                cs = budget * w / w.sum()
                self.beta = float(np.sum(np.abs(cs)))
            else:
                D = float(delta) * self.face0
                self.C0 = D * PAULI[2]
                # one term each on sigma_x and sigma_y at least (Berry curvature needs all three), the others anywhere
                which = [0, 1] + [int(rng.integers(0, 4)) for _ in range(max(0, int(nterms) - 2))]
                mats = [PAULI[i] for i in which]
                w = rng.uniform(0.5, 1.0, len(mats))
                cs = budget * w / w.sum()
                onz = [i for i, t in enumerate(which) if t == 2]
                tot = float(np.sum(np.abs(cs[onz]))) if onz else 0.0
                if tot > 0.5 * D:
                    cs[onz] *= 0.5 * D / tot
                self.beta = D + float(np.sum(np.abs(cs)))
                self.gap0 = 2 * (D - float(np.sum(np.abs(cs[onz])))) if onz else 2 * D
            for c, N in zip(cs, mats):
                p = rng.uniform(0.5, 1.4, self.dim) * rng.choice([-1.0, 1.0], self.dim)
                q = p @ A
                phi = float(rng.uniform(0, 2 * np.pi))
                self.terms.append((float(c) * float(rng.choice([-1.0, 1.0])), q, phi, np.array(N), p))
        self.s = 1.0

    # ------------------------------------------------------------------------------------------
    def set_scale(self, s):
        self.s = float(s)
        self.M = self.s * self.M0

    @property
    def face_bound(self):
        """rigorous lower bound of the lowest band on the whole boundary of the box"""
        return self.s * (self.face0 - self.beta)

    # analytic derivatives w.r.t. Cartesian k at one Cartesian k ---------------------------------
    def der(self, k, m):
        k = np.asarray(k, dtype=float)
        nb = self.nb
        one = np.eye(nb)
        if m == 0:
            out = (0.5 * (k @ self.M @ k)) * one + self.s * self.C0
        elif m == 1:
            out = one[:, :, None] * (self.M @ k)[None, None, :] + 0j
        elif m == 2:
            out = one[:, :, None, None] * self.M[None, None, :, :] + 0j
        else:
            out = np.zeros((nb, nb, 3, 3, 3), dtype=complex)
        for c, q, phi, N, _ in self.terms:
            th = q @ k + phi
            f = (np.cos(th), -np.sin(th), -np.cos(th), np.sin(th))[m]
            T = N
            for _i in range(m):
                T = np.multiply.outer(T, q)
            out = out + (self.s * c * f) * T
        return out

    def fun(self, m, cartesian=True):
        """the function handed to SystemKP: argument = Cartesian k, or reduced k if cartesian is False"""
        if cartesian:
            return lambda k: self.der(k, m)
        return lambda x: self.der(np.asarray(x, dtype=float) @ self.recip, m)

    # own vectorised evaluation of the bands at reduced points (n,3) -------------------------------
    def bands_red(self, x):
        x = np.atleast_2d(np.asarray(x, dtype=float))
        k = x @ self.recip
        H = np.zeros((len(x), self.nb, self.nb), dtype=complex)
        H += (0.5 * np.einsum("ka,ab,kb->k", k, self.M, k))[:, None, None] * np.eye(self.nb)[None]
        H += self.s * self.C0[None]
        for c, q, phi, N, _ in self.terms:
            H += (self.s * c * np.cos(k @ q + phi))[:, None, None] * N[None]
        return np.linalg.eigvalsh(H)

    def boundary_points(self, n):
        """reduced points on all faces x_i = +-1/2 (i < dim) of the box; the other coordinates on a regular mesh incl. ends"""
        t = np.linspace(-0.5, 0.5, n)
        pts = []
        if self.dim == 2:
            for i in range(2):
                for sgn in (-0.5, 0.5):
                    P = np.zeros((n, 3))
                    P[:, i] = sgn
                    P[:, 1 - i] = t
                    pts.append(P)
        else:
            u, v = np.meshgrid(t, t, indexing="ij")
            for i in range(3):
                o = [j for j in range(3) if j != i]
                for sgn in (-0.5, 0.5):
                    P = np.zeros((n * n, 3))
                    P[:, i] = sgn
                    P[:, o[0]] = u.ravel()
                    P[:, o[1]] = v.ravel()
                    pts.append(P)
        return np.concatenate(pts)

    def interior_points(self, n):
        t = (np.arange(n) + 0.5) / n - 0.5
        if self.dim == 2:
            u, v = np.meshgrid(t, t, indexing="ij")
            return np.stack([u.ravel(), v.ravel(), np.zeros(n * n)], axis=1)
        u, v, w = np.meshgrid(t, t, t, indexing="ij")
        return np.stack([u.ravel(), v.ravel(), w.ravel()], axis=1)

    # exact zero-temperature occupied fraction of the box for the parabolic model ---------------------
    def parabolic_fraction(self, E):
        """fraction of the box (reduced volume / area) with s*x.G.x/2 <= E, for pockets inside the box"""
        E = np.maximum(np.asarray(E, dtype=float), 0.0) / self.s
        det = float(np.linalg.det(self.G))
        if self.dim == 2:
            return np.pi * 2 * E / np.sqrt(det)
        return 4 * np.pi / 3 * (2 * E) ** 1.5 / np.sqrt(det)
