"""Deterministic in-process stand-in for the subset of the `ray` API that wannierberri.run_grid uses.

The harness owns the schedule (DESIGN 4/C12).  Remote calls are evaluated eagerly in-process; a *scheduler
model* driven by a PRNG seeded from the case decides at each `wait(refs, num_returns, timeout)`

  * which refs are "finished" by now (a growing set: a drawn number of additional refs finishes before
    every wait call; with a drawn probability the call "times out", i.e. fewer than num_returns are ready),
  * which <= num_returns of the finished refs are returned: ray's documented contract is only that the
    first list holds at most num_returns ready refs, in input order - with mode 'subset' the scheduler
    returns a drawn subset of the finished refs (later answers need NOT contain earlier answers, which
    is what real ray 2.48 was observed to do), with mode 'prefix' the first num_returns finished ones in
    submission order, with mode 'monotone' a superset of the previous answer whenever possible.

Use:   with fakeray.installed(schedule) as fr: wannierberri.run(..., parallel=True)
The original sys.modules['ray'] object is restored afterwards (never deleted).
"""
import contextlib
import sys
import types

import numpy as np


def _from_object_store(obj):
    import pickle
    obj = pickle.loads(pickle.dumps(obj))
    seen = set()

    def freeze(o, depth=0):
        if id(o) in seen or depth > 12:
            return
        seen.add(id(o))
        if isinstance(o, np.ndarray):
            if o.dtype != object:
                o.flags.writeable = False
            return
        if isinstance(o, dict):
            for v in o.values():
                freeze(v, depth + 1)
        elif isinstance(o, (list, tuple, set)):
            for v in o:
                freeze(v, depth + 1)
        elif hasattr(o, "__dict__"):
            for v in vars(o).values():
                freeze(v, depth + 1)

    freeze(obj)
    return obj


class ObjectRef:
    _n = 0

    def __init__(self, value=None, thunk=None):
        ObjectRef._n += 1
        self.id = ObjectRef._n
        self._value = value
        self._thunk = thunk
        self._done = thunk is None

    def result(self):
        if not self._done:
            # what a worker returns travels through the object store: it is pickled, and the numpy arrays of the
            # object handed to the driver are read-only views of the store (real ray: "assignment destination is
            # read-only" when the driver writes into them)
            self._value = _from_object_store(self._thunk())
            self._thunk = None
            self._done = True
        return self._value

    def __hash__(self):
        return self.id

    def __eq__(self, other):
        return isinstance(other, ObjectRef) and other.id == self.id

    def __repr__(self):
        return f"FakeRef({self.id})"


class Scheduler:
    def __init__(self, seed, mode="subset", ncpu=4, p_timeout=0.2, burst=(1, 4)):
        self.rng = np.random.default_rng(int(seed) & 0xFFFFFFFF)
        self.mode = mode
        self.ncpu = int(ncpu)
        self.p_timeout = p_timeout
        self.burst = burst
        self.finished = {}      # id -> True, in completion order
        self.wait_calls = 0
        self.nonmonotone = 0
        self.timeouts = 0
        self.prev_answer = set()
        self.answers = []

    def wait(self, refs, num_returns, timeout):
        self.wait_calls += 1
        ids = [r.id for r in refs]
        unfinished = [i for i in ids if i not in self.finished]
        # some more tasks finish (in a random completion order)
        nfin = int(self.rng.integers(self.burst[0], self.burst[1] + 1)) * max(1, self.ncpu // 2)
        timed_out = self.rng.random() < self.p_timeout
        have = sum(1 for i in ids if i in self.finished)
        need = max(0, num_returns - have)
        if timed_out and unfinished:
            nfin = int(self.rng.integers(0, max(1, need)))      # not enough ready: wait returns fewer (timeout)
            self.timeouts += 1
        else:
            nfin = max(nfin, need)                               # without timeout ray blocks until num_returns are ready
        if unfinished:
            order = self.rng.permutation(len(unfinished))
            for j in order[:nfin]:
                self.finished[unfinished[j]] = True
        ready = [i for i in ids if i in self.finished]           # input order
        k = min(num_returns, len(ready))
        if self.mode == "prefix":
            chosen = ready[:k]
        elif self.mode == "monotone":
            keep = [i for i in ready if i in self.prev_answer][:k]
            rest = [i for i in ready if i not in self.prev_answer]
            extra = list(self.rng.permutation(len(rest))[:k - len(keep)])
            chosen_set = set(keep) | {rest[j] for j in extra}
            chosen = [i for i in ready if i in chosen_set]
        else:  # arbitrary subset of the ready refs
            sel = set(self.rng.permutation(len(ready))[:k].tolist())
            chosen = [i for j, i in enumerate(ready) if j in sel]
        cs = set(chosen)
        if self.prev_answer and not self.prev_answer <= cs:
            self.nonmonotone += 1
        self.prev_answer = cs
        self.answers.append(len(chosen))
        byid = {r.id: r for r in refs}
        ready_refs = [byid[i] for i in chosen]
        for r in ready_refs:
            r.result()
        not_ready = [r for r in refs if r.id not in cs]
        return ready_refs, not_ready


def make_module(scheduler):
    m = types.ModuleType("ray")
    m.__fake__ = True
    m.scheduler = scheduler

    def is_initialized():
        return True

    def cluster_resources():
        return {"CPU": float(scheduler.ncpu)}

    def put(obj):
        return ObjectRef(value=obj)

    def _deref(x):
        return x.result() if isinstance(x, ObjectRef) else x

    class RemoteFunction:
        def __init__(self, f):
            self._f = f

        def remote(self, *args, **kwargs):
            f = self._f
            return ObjectRef(thunk=lambda: f(*[_deref(a) for a in args], **{k: _deref(v) for k, v in kwargs.items()}))

        def options(self, **kw):
            return self

    def remote(*args, **kwargs):
        if len(args) == 1 and callable(args[0]) and not kwargs:
            return RemoteFunction(args[0])
        return lambda f: RemoteFunction(f)

    def get(refs, timeout=None):
        if isinstance(refs, ObjectRef):
            return refs.result()
        return [r.result() for r in refs]

    def wait(refs, num_returns=1, timeout=None, fetch_local=True):
        if num_returns > len(refs):
            raise ValueError("num_returns cannot be greater than the number of objects provided to ray.wait")
        if num_returns <= 0:
            raise ValueError("Invalid number of objects to return")
        return scheduler.wait(list(refs), num_returns, timeout)

    def init(*a, **k):
        return None

    def shutdown(*a, **k):
        return None

    m.is_initialized = is_initialized
    m.cluster_resources = cluster_resources
    m.put = put
    m.remote = remote
    m.get = get
    m.wait = wait
    m.init = init
    m.shutdown = shutdown
    m.ObjectRef = ObjectRef
    return m


@contextlib.contextmanager
def installed(scheduler):
    orig = sys.modules.get("ray", None)
    mod = make_module(scheduler)
    sys.modules["ray"] = mod
    try:
        yield mod
    finally:
        if orig is not None:
            sys.modules["ray"] = orig
        else:
            sys.modules.pop("ray", None)
