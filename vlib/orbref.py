"""Own reference for real atomic orbitals (C21): orthonormal real spherical harmonics times r^l written as
cartesian polynomials (Wannier90 user guide, tables 3.1/3.2), the Wannier90 hybrids, and the wannier-berri
specific sub-shells.  Nothing here imports wannierberri.

Conventions (documented interface of wannierberri.symmetry.orbitals / projections):
  * order of orbitals inside a shell = Wannier90 order (p: pz,px,py; d: dz2,dxz,dyz,dx2-y2,dxy; f: ...)
  * rotation matrix D(R):   phi_j(R^-1 r) = sum_i phi_i(r) D_ij
  * a local basis B has the local x,y,z axes as ROWS:  orbital j on a site with basis B is  phi_j(B r)
"""
import itertools
import numpy as np

PI = np.pi


def _r2(x, y, z):
    return x * x + y * y + z * z


BASIS_FUNCS = {
    "s": lambda x, y, z: 0.5 / np.sqrt(PI) + 0 * x,
    "pz": lambda x, y, z: np.sqrt(3 / (4 * PI)) * z,
    "px": lambda x, y, z: np.sqrt(3 / (4 * PI)) * x,
    "py": lambda x, y, z: np.sqrt(3 / (4 * PI)) * y,
    "dz2": lambda x, y, z: 0.25 * np.sqrt(5 / PI) * (3 * z * z - _r2(x, y, z)),
    "dxz": lambda x, y, z: 0.5 * np.sqrt(15 / PI) * x * z,
    "dyz": lambda x, y, z: 0.5 * np.sqrt(15 / PI) * y * z,
    "dx2-y2": lambda x, y, z: 0.25 * np.sqrt(15 / PI) * (x * x - y * y),
    "dxy": lambda x, y, z: 0.5 * np.sqrt(15 / PI) * x * y,
    "fz3": lambda x, y, z: 0.25 * np.sqrt(7 / PI) * z * (5 * z * z - 3 * _r2(x, y, z)),
    "fxz2": lambda x, y, z: 0.25 * np.sqrt(21 / (2 * PI)) * x * (5 * z * z - _r2(x, y, z)),
    "fyz2": lambda x, y, z: 0.25 * np.sqrt(21 / (2 * PI)) * y * (5 * z * z - _r2(x, y, z)),
    "fzx2-zy2": lambda x, y, z: 0.25 * np.sqrt(105 / PI) * z * (x * x - y * y),
    "fxyz": lambda x, y, z: 0.5 * np.sqrt(105 / PI) * x * y * z,
    "fx3-3xy2": lambda x, y, z: 0.25 * np.sqrt(35 / (2 * PI)) * x * (x * x - 3 * y * y),
    "f3yx2-y3": lambda x, y, z: 0.25 * np.sqrt(35 / (2 * PI)) * y * (3 * x * x - y * y),
}

s2, s3, s6, s12 = np.sqrt(2), np.sqrt(3), np.sqrt(6), np.sqrt(12)

# every orbital of every accepted shell symbol as a linear combination of the basis functions above
SHELLS = {
    "s": [{"s": 1}],
    "p": [{"pz": 1}, {"px": 1}, {"py": 1}],
    "d": [{"dz2": 1}, {"dxz": 1}, {"dyz": 1}, {"dx2-y2": 1}, {"dxy": 1}],
    "f": [{"fz3": 1}, {"fxz2": 1}, {"fyz2": 1}, {"fzx2-zy2": 1}, {"fxyz": 1}, {"fx3-3xy2": 1}, {"f3yx2-y3": 1}],
    "sp": [{"s": 1 / s2, "px": 1 / s2}, {"s": 1 / s2, "px": -1 / s2}],
    "sp2": [{"s": 1 / s3, "px": -1 / s6, "py": 1 / s2}, {"s": 1 / s3, "px": -1 / s6, "py": -1 / s2},
            {"s": 1 / s3, "px": 2 / s6}],
    "sp3": [{"s": .5, "px": .5, "py": .5, "pz": .5}, {"s": .5, "px": .5, "py": -.5, "pz": -.5},
            {"s": .5, "px": -.5, "py": .5, "pz": -.5}, {"s": .5, "px": -.5, "py": -.5, "pz": .5}],
    "sp3d2": [{"s": 1 / s6, "px": -1 / s2, "dz2": -1 / s12, "dx2-y2": .5},
              {"s": 1 / s6, "px": 1 / s2, "dz2": -1 / s12, "dx2-y2": .5},
              {"s": 1 / s6, "py": -1 / s2, "dz2": -1 / s12, "dx2-y2": -.5},
              {"s": 1 / s6, "py": 1 / s2, "dz2": -1 / s12, "dx2-y2": -.5},
              {"s": 1 / s6, "pz": -1 / s2, "dz2": 1 / s3},
              {"s": 1 / s6, "pz": 1 / s2, "dz2": 1 / s3}],
    "p2": [{"pz": 1}, {"py": 1}],
    "pxy": [{"px": 1}, {"py": 1}],
    "pz": [{"pz": 1}],
    "t2g": [{"dxz": 1}, {"dyz": 1}, {"dxy": 1}],
    "eg": [{"dx2-y2": 1}, {"dz2": 1}],
}
FULL_SHELLS = ["s", "p", "d", "f"]
HYBRIDS = ["sp", "sp2", "sp3", "sp3d2", "p2", "pxy", "pz", "t2g", "eg"]
L_OF = {"s": 0, "p": 1, "d": 2, "f": 3}
BASIS_ORDER = [next(iter(o)) for sh in FULL_SHELLS for o in SHELLS[sh]]   # the 16 basis orbitals


def num_orb(symbol):
    return sum(len(SHELLS[s.strip()]) for s in symbol.split(";"))


def basis_values(pts):
    """(N,16) values of the 16 basis functions at cartesian points pts (N,3)"""
    x, y, z = pts[:, 0], pts[:, 1], pts[:, 2]
    return np.array([BASIS_FUNCS[name](x, y, z) for name in BASIS_ORDER]).T


def coef_matrix(symbol):
    """(norb,16): rows = orbitals of the (possibly ';'-joined) symbol in terms of the 16 basis functions"""
    rows = []
    for s in symbol.split(";"):
        for orb in SHELLS[s.strip()]:
            row = np.zeros(len(BASIS_ORDER))
            for k, c in orb.items():
                row[BASIS_ORDER.index(k)] = c
            rows.append(row)
    return np.array(rows)


def values(symbol, pts):
    """(N,norb) values of the orbitals of `symbol` at the points"""
    return basis_values(pts) @ coef_matrix(symbol).T


def sample_points(rng, n=40):
    p = rng.normal(size=(n, 3))
    nrm = np.linalg.norm(p, axis=1)
    return p / nrm[:, None] * rng.uniform(0.6, 1.4, size=n)[:, None]


def full_rotation_matrix(R, pts):
    """own 16x16 matrix D_full with  Phi(R^-1 r) = Phi(r) D_full  obtained by least squares on the points
    (exact, because every l-shell is invariant); needs >= 16 generic points"""
    A = basis_values(pts)
    Bv = basis_values(pts @ R)      # rows: (R^-1 r)^T = r^T R   (R orthogonal)
    D, res, rank, sv = np.linalg.lstsq(A, Bv, rcond=None)
    if rank < A.shape[1]:
        raise RuntimeError("orbref: sample points do not resolve the 16 basis functions")
    if np.abs(A @ D - Bv).max() > 1e-10:
        raise RuntimeError("orbref: basis functions are not closed under rotation (harness bug)")
    return D


def span_defect(symbol, R, pts):
    """max-norm of the component of the rotated orbitals outside the span of the (single) shell `symbol`;
    0 (to rounding) iff the span is invariant under R"""
    M = coef_matrix(symbol)
    D = full_rotation_matrix(R, pts)
    X = D @ M.T
    return float(np.abs(X - M.T @ (M @ X)).max())


def transform_defect(symbol, D, R, pts, basis1=None, basis2=None):
    """max | phi_j(B1 R^-1 r) - sum_i phi_i(B2 r) D_ij |  over the points and orbitals j (first principles)"""
    B1 = np.eye(3) if basis1 is None else np.asarray(basis1)
    B2 = np.eye(3) if basis2 is None else np.asarray(basis2)
    lhs = values(symbol, (pts @ R) @ B1.T)     # rows: (B1 R^T r)^T = r^T R B1^T
    rhs = values(symbol, pts @ B2.T) @ D
    return float(np.abs(lhs - rhs).max())


_SELF = []


def selfcheck():
    """orthonormality of the 16 basis functions on the unit sphere (Gauss-Legendre x uniform phi quadrature, exact for
    the polynomial degrees involved) and of the rows of every shell; run once per process"""
    if _SELF:
        return
    ct, wt = np.polynomial.legendre.leggauss(12)
    nphi = 16
    phi = 2 * PI * np.arange(nphi) / nphi
    pts = []
    w = []
    for c, wc in zip(ct, wt):
        st = np.sqrt(1 - c * c)
        for p in phi:
            pts.append([st * np.cos(p), st * np.sin(p), c])
            w.append(wc * 2 * PI / nphi)
    pts = np.array(pts)
    w = np.array(w)
    V = basis_values(pts)
    G = V.T @ (w[:, None] * V)
    if np.abs(G - np.eye(16)).max() > 1e-12:
        raise RuntimeError(f"orbref selfcheck: harmonics not orthonormal ({np.abs(G - np.eye(16)).max()})")
    for sh in SHELLS:
        M = coef_matrix(sh)
        if np.abs(M @ M.T - np.eye(len(M))).max() > 1e-12:
            raise RuntimeError(f"orbref selfcheck: shell {sh} not orthonormal")
    _SELF.append(True)


# ------------------------------------------------------------------------------------------------
# rotations (own constructions)

def rot_axis(axis, angle):
    n = np.asarray(axis, dtype=float)
    n = n / np.linalg.norm(n)
    K = np.array([[0, -n[2], n[1]], [n[2], 0, -n[0]], [-n[1], n[0], 0]])
    return np.eye(3) + np.sin(angle) * K + (1 - np.cos(angle)) * (K @ K)


def rot_euler(e):
    a, b, c = e
    return rot_axis([0, 0, 1], a) @ rot_axis([0, 1, 0], b) @ rot_axis([0, 0, 1], c)


def cubic_ops():
    """the 48 signed permutation matrices in a fixed order"""
    ops = []
    for perm in itertools.permutations(range(3)):
        for signs in itertools.product([1, -1], repeat=3):
            m = np.zeros((3, 3))
            for i in range(3):
                m[i, perm[i]] = signs[i]
            ops.append(m)
    return ops


def hex_ops():
    """the 24 operations of D6h (z = sixfold axis, x = twofold axis)"""
    ops = []
    for inv in (1, -1):
        for flip in (False, True):
            for n in range(6):
                m = rot_axis([0, 0, 1], n * PI / 3)
                if flip:
                    m = m @ np.diag([1.0, -1.0, -1.0])
                ops.append(inv * m)
    return ops


def own_matrix(symbol, R, pts, basis1=None, basis2=None):
    """own matrix D with  phi_j(B1 R^-1 r) = sum_i phi_i(B2 r) D_ij  by least squares, and the residual
    (max-abs); the residual vanishes iff the span of `symbol` is invariant under the effective rotation"""
    B1 = np.eye(3) if basis1 is None else np.asarray(basis1)
    B2 = np.eye(3) if basis2 is None else np.asarray(basis2)
    lhs = values(symbol, (pts @ R) @ B1.T)
    A = values(symbol, pts @ B2.T)
    D, res, rank, sv = np.linalg.lstsq(A, lhs, rcond=None)
    if rank < A.shape[1]:
        raise RuntimeError("orbref: sample points do not resolve the orbitals")
    return D, float(np.abs(A @ D - lhs).max())
