"""Shared generators and reference models (DESIGN section 3).

A *model* is a pure-numpy description (no wannierberri objects):
    Model(lattice(3,3), wcc_red(n,3), iRvec(nR,3), mats{key: (nR,n,n,3..)})
built deterministically from a small JSON-able parameter dict drawn by Hypothesis (structural
parameters are drawn individually so they shrink; bulk matrix entries come from a PRNG seeded by a
drawn integer carried in the case).  `to_system(model)` turns it into a real System_R.
The explicit Fourier sums below are the reference against which wannierberri's FFT machinery is judged.
"""
import itertools
import numpy as np
from hypothesis import strategies as st

from .util import fl, rng_of, crandom

CART = {"Ham": 0, "AA": 1, "BB": 1, "CC": 1, "SS": 1, "OO": 1, "GG": 2, "FF": 2,
        "SH": 1, "SA": 2, "SR": 2, "SHA": 2, "SHR": 2}
# matrices that satisfy X(-R) = X(R)^dagger (hermitian operators); BB = <0|H(r-R)|R> is not hermitian in that sense
HERMITIAN_KEYS = ("Ham", "AA", "SS", "CC", "OO", "GG")

# ------------------------------------------------------------------------------------------------
# lattices


def _rot(e):
    a, b, c = e
    Rz = np.array([[np.cos(a), -np.sin(a), 0], [np.sin(a), np.cos(a), 0], [0, 0, 1]])
    Ry = np.array([[np.cos(b), 0, np.sin(b)], [0, 1, 0], [-np.sin(b), 0, np.cos(b)]])
    Rz2 = np.array([[np.cos(c), -np.sin(c), 0], [np.sin(c), np.cos(c), 0], [0, 0, 1]])
    return Rz @ Ry @ Rz2


_len = fl(0.7, 3.0)
_off = fl(-1.0, 1.0)
_ang = fl(0, 6.25)

LATTICE_KINDS = ["generic", "sc", "fcc", "bcc", "tetragonal", "orthorhombic", "hexagonal", "hexagonal60",
                 "rhombohedral", "monoclinic", "triclinic"]


@st.composite
def lattice_st(draw, kinds=None, rotate=True):
    kind = draw(st.sampled_from(kinds or LATTICE_KINDS))
    d = dict(kind=kind, a=draw(_len), b=draw(_len), c=draw(_len),
             o=[draw(_off), draw(_off), draw(_off)])
    if rotate and (kind == "generic" or draw(st.booleans())):
        d["rot"] = [draw(_ang), draw(_ang), draw(_ang)]
    else:
        d["rot"] = None
    return d


def lattice_matrix(d):
    a, b, c = d["a"], d["b"], d["c"]
    o = d["o"]
    k = d["kind"]
    if k in ("generic", "triclinic"):
        L = np.array([[a, 0, 0], [o[0] * a * 0.9, b, 0], [o[1] * a * 0.9, o[2] * b * 0.9, c]])
    elif k == "sc":
        L = a * np.eye(3)
    elif k == "fcc":
        L = a / 2 * np.array([[0, 1, 1], [1, 0, 1], [1, 1, 0.0]])
    elif k == "bcc":
        L = a / 2 * np.array([[-1, 1, 1], [1, -1, 1], [1, 1, -1.0]])
    elif k == "tetragonal":
        L = np.diag([a, a, c])
    elif k == "orthorhombic":
        L = np.diag([a, b, c])
    elif k == "hexagonal":
        L = np.array([[a, 0, 0], [-a / 2, a * np.sqrt(3) / 2, 0], [0, 0, c]])
    elif k == "hexagonal60":
        L = np.array([[a, 0, 0], [a / 2, a * np.sqrt(3) / 2, 0], [0, 0, c]])
    elif k == "rhombohedral":
        t = 0.3 + 0.35 * (o[0] + 1)  # c/a like parameter
        L = a * np.array([[1, 0, t], [-0.5, np.sqrt(3) / 2, t], [-0.5, -np.sqrt(3) / 2, t]])
    elif k == "monoclinic":
        L = np.array([[a, 0, 0], [0, b, 0], [o[0] * a * 0.8, 0, c]])
    else:
        raise ValueError(k)
    if d.get("rot") is not None:
        L = L @ _rot(d["rot"]).T
    return np.array(L, dtype=float)


# ------------------------------------------------------------------------------------------------
# models

_CENTRE_FRACS = [0.0, 0.5, 1 / 3, 0.25, 2 / 3, 0.75, 1 / 6, 1 / 12]


@st.composite
def model_params_st(draw, max_wann=4, max_npairs=6, rmax=2, keys=("Ham",), optional_keys=(), lattice_kinds=None,
                    min_wann=1):
    nw = draw(st.integers(min_wann, max_wann))
    pairs = draw(st.lists(st.tuples(*[st.integers(-rmax, rmax)] * 3), min_size=0, max_size=max_npairs, unique=True))
    centres = []
    ckind = draw(st.sampled_from(["fractions", "generic", "outside", "coinciding", "zero"]))
    for i in range(nw):
        if ckind == "zero":
            centres.append([0.0, 0.0, 0.0])
        elif ckind == "fractions":
            centres.append([draw(st.sampled_from(_CENTRE_FRACS)) for _ in range(3)])
        elif ckind == "generic":
            centres.append([draw(fl(0, 0.999)) for _ in range(3)])
        elif ckind == "outside":
            centres.append([draw(st.sampled_from(_CENTRE_FRACS)) + draw(st.integers(-2, 2)) for _ in range(3)])
        else:  # coinciding groups
            if i == 0 or draw(st.booleans()):
                centres.append([draw(st.sampled_from(_CENTRE_FRACS)) for _ in range(3)])
            else:
                centres.append(list(centres[-1]))
    opt = [k for k in optional_keys if draw(st.booleans())]
    return dict(lat=draw(lattice_st(kinds=lattice_kinds)), nw=nw, R=[list(p) for p in pairs], centres=centres,
                ckind=ckind, keys=list(keys) + opt, rs=draw(st.integers(0, 2 ** 32)),
                decay=draw(st.sampled_from([0.5, 1.0, 2.0])))


class Model:
    def __init__(self, lattice, wcc_red, iRvec, mats):
        self.lattice = np.array(lattice, dtype=float)
        self.wcc_red = np.array(wcc_red, dtype=float).reshape(-1, 3)
        self.iRvec = np.array(iRvec, dtype=int).reshape(-1, 3)
        self.mats = mats
        self.nw = self.wcc_red.shape[0]

    @property
    def recip(self):
        return 2 * np.pi * np.linalg.inv(self.lattice).T

    def copy(self):
        return Model(self.lattice.copy(), self.wcc_red.copy(), self.iRvec.copy(),
                     {k: v.copy() for k, v in self.mats.items()})

    def index_R(self):
        return {tuple(int(x) for x in R): i for i, R in enumerate(self.iRvec)}

    # ---- reference Fourier sums -------------------------------------------------------------
    def phases(self, k_red):
        return np.exp(2j * np.pi * (self.iRvec @ np.asarray(k_red, dtype=float)))

    def Xk(self, key, k_red, der=0):
        """sum_R e^{2 pi i k.R} X(R) (i (R + t_j - t_i))^{der}  -> shape (n,n,[cart...],[3]*der)"""
        X = self.mats[key]
        ph = self.phases(k_red)
        wcc = self.wcc_red @ self.lattice
        cR = self.iRvec @ self.lattice
        # d[R,i,j,:] = R + t_j - t_i
        d = cR[:, None, None, :] + wcc[None, None, :, :] - wcc[None, :, None, :]
        nc = X.ndim - 3
        res = X * ph.reshape((-1,) + (1,) * (X.ndim - 1))
        for _ in range(der):
            res = 1j * res[..., None] * d.reshape(d.shape[:3] + (1,) * (res.ndim - 3) + (3,))
        return res.sum(axis=0)

    def Hk(self, k_red):
        return self.Xk("Ham", k_red)

    def bands(self, k_red):
        H = self.Hk(k_red)
        H = 0.5 * (H + H.conj().T)
        return np.linalg.eigvalsh(H)


def closed_R_list(pairs):
    Rs = {(0, 0, 0)}
    for p in pairs:
        p = tuple(int(x) for x in p)
        Rs.add(p)
        Rs.add(tuple(-x for x in p))
    return sorted(Rs)


def hermitize(X, iRvec, key="Ham"):
    """impose X(-R) = X(R)^dagger (own construction, independent of Rvectors.conj_XX_R)"""
    idx = {tuple(int(x) for x in R): i for i, R in enumerate(iRvec)}
    out = np.zeros_like(X)
    for R, i in idx.items():
        j = idx[tuple(-x for x in R)]
        out[i] = 0.5 * (X[i] + np.conj(np.swapaxes(X[j], 0, 1)))
    return out


def make_model(p, hermitian=True, closed=True):
    """deterministic model from params dict (see model_params_st)"""
    L = lattice_matrix(p["lat"])
    nw = p["nw"]
    Rs = closed_R_list(p["R"]) if closed else sorted({(0, 0, 0)} | {tuple(r) for r in p["R"]})
    iRvec = np.array(Rs, dtype=int)
    rng = rng_of(p["rs"])
    mats = {}
    cR = np.linalg.norm(iRvec @ L, axis=1)
    damp = np.exp(-p.get("decay", 1.0) * cR / max(1e-9, np.abs(np.linalg.det(L)) ** (1 / 3)))
    for key in p["keys"]:
        nc = CART[key]
        X = crandom(rng, (len(Rs), nw, nw) + (3,) * nc)
        X = X * damp.reshape((-1,) + (1,) * (X.ndim - 1))
        if hermitian and closed and key in HERMITIAN_KEYS:
            X = hermitize(X, iRvec)
        if key == "AA":
            i0 = Rs.index((0, 0, 0))
            X[i0, np.arange(nw), np.arange(nw)] = 0
        mats[key] = X
    return Model(L, np.array(p["centres"], dtype=float).reshape(nw, 3), iRvec, mats)


def to_system(model, spinor=None, periodic=(True, True, True), pointgroup_gen=None, **kw):
    from wannierberri.system.system_R import System_R
    from wannierberri.fourier.rvectors import Rvectors
    s = System_R(silent=True, spinor=spinor, periodic=periodic, **kw)
    s.set_real_lattice(model.lattice.copy())
    s.num_wann = model.nw
    s.wannier_centers_cart = model.wcc_red @ model.lattice
    s.rvec = Rvectors(lattice=model.lattice.copy(), iRvec=model.iRvec.copy(),
                      shifts_left_red=model.wcc_red.copy())
    for k, X in model.mats.items():
        s.set_R_mat(k, np.array(X, dtype=complex))
    s.do_at_end_of_init()
    if pointgroup_gen:
        s.set_pointgroup(symmetry_gen=pointgroup_gen)
    return s


def model_of_system(s):
    """read a System_R back into a pure-numpy Model (R-ordered as in the system)"""
    return Model(np.array(s.real_lattice), np.array(s.wannier_centers_red), np.array(s.rvec.iRvec),
                 {k: np.array(v) for k, v in s._XX_R.items()})


def mats_by_R(model):
    """dict key -> dict R(tuple) -> matrix, for R-order independent comparison"""
    out = {}
    for key, X in model.mats.items():
        out[key] = {tuple(int(x) for x in R): X[i] for i, R in enumerate(model.iRvec)}
    return out


def kpoint_st():
    f = fl(-1.0, 1.0)
    special = st.sampled_from([0.0, 0.5, 0.25, 1 / 3, -0.5, 1.0])
    comp = st.one_of(f, f, special)
    return st.lists(comp, min_size=3, max_size=3)


def mp_points(mp_grid):
    return np.array([[i / mp_grid[0], j / mp_grid[1], l / mp_grid[2]]
                     for i, j, l in itertools.product(range(mp_grid[0]), range(mp_grid[1]), range(mp_grid[2]))])
