"""Reference k.p models for C31 (harness side, pure numpy; no wannierberri imports).

A model is   H(u) = sum_t c_t u^alpha_t M_t  +  sum_j a_j cos(q_j.u + phi_j) N_j ,      u_i = kappa_i / K_i ,
where kappa is the k-vector *as handed to the user function* (Cartesian k, or reduced k when
k_vector_cartesian=False), K_i the half-size of the box in that coordinate (so u runs over [-1,1]^3 and every term is
O(1) eV everywhere in the box), M_t, N_j random Hermitian matrices of unit Frobenius norm.
All derivatives are generated from the same coefficient table:
    d^m H / dk_cart^m [a1..am] = sum_{i1..im} J[a1,i1]..J[am,im]  d^m H / du^m [i1..im],   J[a,i] = d u_i / d k_cart_a .
"""
import itertools
from functools import lru_cache

import numpy as np

from .util import rng_of, crandom

ALPHAS = [a for a in itertools.product(range(4), repeat=3) if sum(a) <= 3]   # 20 monomials of degree <= 3


def _falling(a, d):
    r = 1
    for i in range(d):
        r *= (a - i)
    return r


@lru_cache(maxsize=None)
def _index_counts(m):
    """all index tuples of a rank-m Cartesian tensor with the number of derivatives per axis"""
    out = []
    for idx in itertools.product(range(3), repeat=m):
        out.append((idx, tuple(idx.count(a) for a in range(3))))
    return out


def mono_der(alpha, u, m):
    """rank-m tensor of the m-th derivatives of u^alpha at u"""
    T = np.zeros((3,) * m)
    cache = {}
    for idx, d in _index_counts(m):
        if d not in cache:
            v = 1.0
            for a in range(3):
                if d[a] > alpha[a]:
                    v = 0.0
                    break
                v *= _falling(alpha[a], d[a]) * u[a] ** (alpha[a] - d[a])
            cache[d] = v
        T[idx] = cache[d]
    return T


def outer_pow(q, m):
    T = np.ones(())
    for _ in range(m):
        T = np.multiply.outer(T, q)
    return T


class KPModel:
    def __init__(self, n, alphas, trig, rs, recip, cartesian, split=0.0):
        """alphas: list of exponent triples; trig: list of [q0,q1,q2]; recip: (3,3) reciprocal lattice rows"""
        self.n = n
        self.recip = np.array(recip, dtype=float)
        self.recip_inv = np.linalg.inv(self.recip)
        self.cartesian = bool(cartesian)
        rng = rng_of(rs)
        self.terms = []
        for al in alphas:
            M = crandom(rng, (n, n))
            M = M + M.conj().T
            M /= np.linalg.norm(M)
            c = float(rng.uniform(0.3, 1.0) * rng.choice([-1, 1]))
            self.terms.append((tuple(int(x) for x in al), c, M))
        self.trig = []
        for q in trig:
            N = crandom(rng, (n, n))
            N = N + N.conj().T
            N /= np.linalg.norm(N)
            a = float(rng.uniform(0.3, 1.0))
            phi = float(rng.uniform(0, 2 * np.pi))
            self.trig.append((np.array(q, dtype=float), a, phi, N))
        self.split = float(split)
        self.M0 = np.diag(np.arange(n) * self.split).astype(complex)
        if self.cartesian:
            self.K = 0.5 * np.abs(self.recip).sum(axis=0)      # |kappa_i| <= 0.5 sum_j |B_ji|
            self.J = np.eye(3) / self.K[None, :]
        else:
            self.K = np.array([0.5, 0.5, 0.5])
            self.J = self.recip_inv / self.K[None, :]
        self.Jnorm = float(np.linalg.norm(self.J, 2))
        self.Kcart = float(np.linalg.norm(0.5 * np.abs(self.recip).sum(axis=0)))
        self.maxdeg = max([sum(t[0]) for t in self.terms] + [0])

    # -- coordinates ------------------------------------------------------------------------------
    def kappa_of_red(self, k_red):
        """the documented convention: reduced k is translated into [-1/2,1/2), then converted"""
        k = np.array(k_red, dtype=float)
        k = k - np.floor(k + 0.5)
        return k @ self.recip if self.cartesian else k

    # -- derivatives w.r.t. u -----------------------------------------------------------------------
    def der_u(self, u, m):
        out = np.zeros((self.n, self.n) + (3,) * m, dtype=complex)
        if m == 0:
            out += self.M0
        for al, c, M in self.terms:
            if sum(al) < m:
                continue
            out += c * np.multiply.outer(M, mono_der(al, u, m))
        for q, a, phi, N in self.trig:
            out += a * np.cos(q @ u + phi + m * np.pi / 2) * np.multiply.outer(N, outer_pow(q, m))
        return out

    def der_cart(self, kappa, m):
        """m-th derivative w.r.t. Cartesian k at user-coordinate kappa -> (n,n,[3]*m)"""
        u = np.asarray(kappa, dtype=float) / self.K
        T = self.der_u(u, m)
        for ax in range(m):
            T = np.moveaxis(np.tensordot(T, self.J, axes=([2 + ax], [1])), -1, 2 + ax)
        return T

    def fun(self, m):
        return lambda kappa: self.der_cart(kappa, m)

    # -- bounds -------------------------------------------------------------------------------------
    def bound(self, m):
        """upper bound of the Frobenius norm of the m-th Cartesian derivative tensor anywhere in the box"""
        b = 0.0
        one = np.ones(3)
        if m == 0:
            b += float(np.linalg.norm(self.M0))
        for al, c, M in self.terms:
            if sum(al) >= m:
                b += abs(c) * float(np.linalg.norm(mono_der(al, one, m)))     # ||M||_F = 1, entries maximal at the corner
        for q, a, phi, N in self.trig:
            b += a * float(np.linalg.norm(q)) ** m
        return b * self.Jnorm ** m
