"""Independent reference for the Wigner-Seitz / MDRS replica selection (used by C01).

No wannierberri imports.  For one pair of Wannier functions with centre difference s = t_b - t_a (reduced
coordinates) and a Monkhorst-Pack mesh N, the replicas of the residue class r (r_i in 0..N_i-1) are the lattice
vectors R = r + N*j; MDRS keeps the ones that minimise |R + s| (Cartesian) and gives each weight 1/(their number).
The brute force below enumerates j in [-J, J]^3.
"""
import itertools
import numpy as np


def shift_digits(ws_tolerance):
    """number of decimals to which the code rounds reduced centre differences (Rvectors.set_Rvec docstring/rule)"""
    if ws_tolerance > 0:
        return int(np.ceil(-np.log10(ws_tolerance))) + 1, ws_tolerance
    return 8, abs(ws_tolerance)


def residue_classes(mp):
    return np.array(list(itertools.product(range(mp[0]), range(mp[1]), range(mp[2]))), dtype=int)


def candidates(mp, J):
    """integer array (Nmesh, (2J+1)^3, 3) of all R = r + N*j"""
    mp = np.asarray(mp, dtype=int)
    r = residue_classes(mp)
    j = np.array(list(itertools.product(range(-J, J + 1), repeat=3)), dtype=int)
    return r[:, None, :] + j[None, :, :] * mp[None, None, :]


def exact_candidates(lattice, mp, s_red, tol, max_per_class=30000):
    """candidates R = r + N*j that provably contain every R with |R+s| <= (true minimum of the class) + tol.

    With M = diag(N) L (super-lattice rows) and p = (r+s) L :  R+s = p + j M, so j = cart M^-1 - (r+s)/N and
    |j_i + ((r+s)/N)_i| <= |cart| * |column i of M^-1|.  An upper bound of the class minimum is the distance of the
    replica obtained by rounding (r+s)/N.  Returns None when the box would exceed max_per_class points."""
    mp = np.asarray(mp, dtype=int)
    r = residue_classes(mp)
    M = lattice * mp[:, None]
    Minv = np.linalg.inv(M)
    x = (r + np.asarray(s_red, dtype=float)[None, :]) / mp[None, :]  # (Nmesh,3) real-valued -j of the continuous minimum
    jc = -np.rint(x).astype(int)
    d0 = np.sqrt((((x + jc) @ M) ** 2).sum(axis=1)).max()
    K = np.ceil((d0 + tol) * np.sqrt((Minv ** 2).sum(axis=0)) + 0.5).astype(int) + 1
    if np.prod(2 * K + 1) > max_per_class:
        return None
    k = np.array(list(itertools.product(*[range(-int(Ki), int(Ki) + 1) for Ki in K])), dtype=int)
    return r[:, None, :] + (jc[:, None, :] + k[None, :, :]) * mp[None, None, :]


def select(lattice, cand, s_red, tol, eps=1e-9):
    """brute-force selection for one shift.

    returns dist (Nmesh, nc), sel (bool, Nmesh, nc), tie (bool: some candidate sits on the selection threshold
    within eps, so two correct evaluations may differ)"""
    cart = (cand + np.asarray(s_red, dtype=float)[None, None, :]) @ lattice
    dist = np.sqrt((cart ** 2).sum(axis=2))
    dmin = dist.min(axis=1, keepdims=True)
    sel = dist - dmin < tol
    tie = bool(np.any(np.abs(dist - dmin - tol) <= eps))
    return dist, sel, tie


def selected_sets(cand, sel):
    """list over residue classes of sets of R tuples"""
    out = []
    for c, m in zip(cand, sel):
        out.append({tuple(int(x) for x in R) for R in c[m]})
    return out


def grid_dft(Xq, kint, mp):
    """X(r) = 1/N sum_q exp(-2 pi i q.r) X(q) on the residue classes; explicit O(N^2) sum (no FFT library).

    Xq : (Nq, ...) ; kint : (Nq,3) integer mesh coordinates of the q points (any integers, not reduced mod N)
    returns array of shape tuple(mp) + Xq.shape[1:]"""
    mp = np.asarray(mp, dtype=int)
    r = residue_classes(mp)
    q = np.asarray(kint, dtype=float) / mp[None, :]
    ph = np.exp(-2j * np.pi * (r @ q.T))  # (Nr, Nq)
    X = np.tensordot(ph, Xq, axes=(1, 0)) / len(q)
    return X.reshape(tuple(mp) + Xq.shape[1:])


def bloch_sum(iRvec, XR, q_red):
    """X(q) = sum_R exp(2 pi i q.R) X(R) for a list of q (Nq,3) -> (Nq, ...)   (no centre phases)"""
    ph = np.exp(2j * np.pi * (np.asarray(q_red, dtype=float) @ np.asarray(iRvec).T))  # (Nq,nR)
    return np.tensordot(ph, XR, axes=(1, 0))
