"""helpers for the run()-based history checks C10, C11, C12 (harness side only)"""
import contextlib
import os

import numpy as np
from hypothesis import strategies as st

from . import wbsys
from .util import fl

# point-group generator sets per lattice family (lattice built with rot=None so that named axes fit)
GROUPS = {
    "triclinic": [[], ["Inversion"], ["TimeReversal"]],
    "orthorhombic": [[], ["Inversion"], ["C2z"], ["Mx"], ["TimeReversal"], ["C2z", "Inversion"], ["C2x", "C2y"],
                     ["TimeReversal*C2z"], ["Mz", "TimeReversal"], ["C2x", "C2y", "Inversion", "TimeReversal"]],
    "tetragonal": [["C4z"], ["C4z", "Inversion"], ["C4z", "C2x"], ["C4z", "TimeReversal"], ["C2z", "TimeReversal*C4z"]],
    "sc": [["C4z", "C4x"], ["C4z", "C4x", "Inversion"], ["C4z", "C4x", "TimeReversal"]],
    "hexagonal": [["C3z"], ["C6z"], ["C6z", "Mz"], ["C3z", "Inversion", "TimeReversal"]],
    "fcc": [["C4z", "C4x"], ["C4z", "C4x", "Inversion"], ["C2z", "C2x", "TimeReversal"]],
    "bcc": [["C4z", "C4x"], ["C4z", "C4x", "Inversion"], ["C4z", "TimeReversal"]],
}


def equal_axes(kind):
    return {"tetragonal": [(0, 1)], "hexagonal": [(0, 1)], "sc": [(0, 1), (1, 2)], "fcc": [(0, 1), (1, 2)],
            "bcc": [(0, 1), (1, 2)]}.get(kind, [])


@st.composite
def grid_case_st(draw, max_div=3, max_fft=2, kinds=None, max_wann=3, optional_keys=("AA",)):
    kind = draw(st.sampled_from(kinds or list(GROUPS)))
    gens = draw(st.sampled_from(GROUPS[kind]))
    model = draw(wbsys.model_params_st(max_wann=max_wann, max_npairs=4, rmax=1, keys=("Ham",),
                                       optional_keys=optional_keys, lattice_kinds=[kind]))
    model["lat"]["rot"] = None
    div = [draw(st.integers(1, max_div)) for _ in range(3)]
    fft = [draw(st.integers(1, max_fft)) for _ in range(3)]
    for a, b in equal_axes(kind):
        div[b] = div[a]
        fft[b] = fft[a]
    return dict(model=model, gens=gens, NKdiv=div, NKFFT=fft)


CALC_NAMES = ["ahc_int", "cumdos", "dos", "ohmic_sea", "ohmic_surf", "cumdos_tetra", "ahc_tetra_int", "bd_sea_int", "ahc"]


def make_calculators(names, Efermi, has_AA):
    from wannierberri.calculators import static
    Ef = np.array(Efermi, dtype=float)
    internal = {"external_terms": False}
    nf = dict(use_factor=False)   # natural units: results O(1), so absolute rounding floors are meaningful
    out = {}
    for n in names:
        if n == "ahc_int":
            out[n] = static.AHC(Efermi=Ef, kwargs_formula=internal, **nf)
        elif n == "ahc":
            out[n] = static.AHC(Efermi=Ef, **nf) if has_AA else static.AHC(Efermi=Ef, kwargs_formula=internal, **nf)
        elif n == "cumdos":
            out[n] = static.CumDOS(Efermi=Ef, **nf)
        elif n == "dos":
            out[n] = static.DOS(Efermi=Ef, **nf)
        elif n == "ohmic_sea":
            out[n] = static.Ohmic_FermiSea(Efermi=Ef, **nf)
        elif n == "ohmic_surf":
            out[n] = static.Ohmic_FermiSurf(Efermi=Ef, **nf)
        elif n == "cumdos_tetra":
            out[n] = static.CumDOS(Efermi=Ef, tetra=True, **nf)
        elif n == "ahc_tetra_int":
            out[n] = static.AHC(Efermi=Ef, tetra=True, kwargs_formula=internal, **nf)
        elif n == "bd_sea_int":
            out[n] = static.BerryDipole_FermiSea(Efermi=Ef, kwargs_formula=internal, **nf)
        else:
            raise ValueError(n)
    return out


@st.composite
def calcs_case_st(draw, names=None, max_calcs=3):
    names = names or CALC_NAMES
    chosen = draw(st.lists(st.sampled_from(names), min_size=1, max_size=max_calcs, unique=True))
    nE = draw(st.integers(1, 5))
    E0 = draw(fl(-1.5, 1.0))
    dE = draw(st.sampled_from([0.0731, 0.211, 0.5017]))
    return dict(names=chosen, Efermi=[E0 + 0.0137 + i * dE for i in range(nE)])


def build(case_grid):
    """-> (model, system, grid)"""
    import wannierberri as wb
    model = wbsys.make_model(case_grid["model"])
    system = wbsys.to_system(model, pointgroup_gen=list(case_grid["gens"]) or None)
    grid = wb.Grid(system, NKdiv=np.array(case_grid["NKdiv"]), NKFFT=np.array(case_grid["NKFFT"]))
    return model, system, grid


class Capture:
    """records the K list object handed to run() by grid.get_K_list and a snapshot at every savedata()"""

    def __init__(self):
        self.K_list = None
        self.process_calls = 0
        self.global_merges = 0
        self.snapshots = []  # dicts: i_iter, factors(list), n, data{key: array}

    def snapshot(self, resultdict, i_iter):
        K = self.K_list or []
        self.snapshots.append(dict(
            i_iter=int(i_iter), n=len(K), factors=[float(k.factor) for k in K],
            levels=[int(k.refinement_level) for k in K],
            data={k: np.array(v.data, copy=True) for k, v in resultdict.results.items() if hasattr(v, "data")}))


@contextlib.contextmanager
def capture_run(cap):
    """wrap Grid.get_K_list / ResultDict.savedata (harness side instrumentation, restored afterwards)"""
    from wannierberri.grid.grid import Grid
    from wannierberri.result.resultdict import ResultDict
    orig_get = Grid.get_K_list
    orig_save = ResultDict.savedata

    def get_K_list(self, *a, **k):
        kl = orig_get(self, *a, **k)
        cap.K_list = kl
        return kl

    def savedata(self, prefix, suffix, i_iter):
        cap.snapshot(self, i_iter)
        return orig_save(self, prefix, suffix, i_iter)

    import wannierberri.run_grid as rg
    orig_process = rg.process
    orig_excl = rg.exclude_equiv_points

    def process(paralfunc, K_list, *a, **k):
        cap.K_list = K_list          # also set on restart, where the list is read from the pickle file
        cap.process_calls += 1
        return orig_process(paralfunc, K_list, *a, **k)

    def exclude_equiv_points(K_list, new_points=None):
        n0 = len(K_list)
        r = orig_excl(K_list, new_points=new_points)
        cap.global_merges += n0 - len(K_list)   # new points deleted by the merge across different parents
        return r

    Grid.get_K_list = get_K_list
    ResultDict.savedata = savedata
    rg.process = process
    rg.exclude_equiv_points = exclude_equiv_points
    try:
        yield cap
    finally:
        Grid.get_K_list = orig_get
        ResultDict.savedata = orig_save
        rg.process = orig_process
        rg.exclude_equiv_points = orig_excl


def eval_K_from_scratch(system, grid, K, calculators, symmetrize, parameters_K=None):
    """what run() computes for one K-point, done by the harness"""
    from wannierberri.data_K import get_data_k_class_from_system
    from wannierberri.result import ResultDict
    cls = get_data_k_class_from_system(system)
    data = cls(system, dK=K.Kp_fullBZ, grid=grid, Kpoint=K, **(parameters_K or {}))
    res = ResultDict({k: v(data) for k, v in calculators.items()})
    if symmetrize:
        res = system.pointgroup.symmetrize(res)
    return res


class ScratchEvaluator:
    def __init__(self, system, grid, calculators, symmetrize):
        self.args = (system, grid, calculators, symmetrize)
        self.cache = {}
        self.n_eval = 0

    def __call__(self, K):
        key = (np.asarray(K.K, dtype=float).tobytes(), np.asarray(K.dK, dtype=float).tobytes())
        if key not in self.cache:
            system, grid, calcs, symm = self.args
            r = eval_K_from_scratch(system, grid, K, calcs, symm)
            self.cache[key] = {k: np.array(v.data, copy=True) for k, v in r.results.items()}
            self.n_eval += 1
        return self.cache[key]

    def weighted_sum(self, K_list, factors):
        """-> (sum dict, scale dict) with scale = sum_i |f_i| max|R_i| (rounding-error yardstick)"""
        tot, scale = {}, {}
        for K, f in zip(K_list, factors):
            if f == 0:
                continue
            r = self(K)
            for k, d in r.items():
                tot[k] = tot.get(k, 0) + f * d
                scale[k] = scale.get(k, 0.0) + abs(f) * (float(np.max(np.abs(d))) if d.size else 0.0)
        return tot, scale


def run_kwargs(scratch, tag, **kw):
    base = dict(fout_name=os.path.join(scratch, f"res_{tag}"), suffix="", parallel=False,
                file_Klist_path=os.path.join(scratch, f"klist_{tag}"), print_progress_step_time=1e9)
    base.update(kw)
    return base


def hot_model(eps, x0):
    """two-band model with a gap 2*eps at k=(x0,0,0) and a Berry-curvature hot spot there (D10 boundary generator)"""
    sx = np.array([[0, 1], [1, 0]], complex)
    sy = np.array([[0, -1j], [1j, 0]])
    sz = np.diag([1., -1]).astype(complex)
    R = [(0, 0, 0), (1, 0, 0), (-1, 0, 0), (0, 1, 0), (0, -1, 0)]
    H = {r: np.zeros((2, 2), complex) for r in R}
    ph = np.exp(-2j * np.pi * x0)
    H[(1, 0, 0)] += ph / 2j * sx
    H[(-1, 0, 0)] += -np.conj(ph) / 2j * sx
    H[(0, 1, 0)] += 1 / 2j * sy
    H[(0, -1, 0)] += -1 / 2j * sy
    H[(0, 0, 0)] += (eps + 2) * sz
    H[(1, 0, 0)] += -0.5 * ph * sz
    H[(-1, 0, 0)] += -0.5 * np.conj(ph) * sz
    H[(0, 1, 0)] += -0.5 * sz
    H[(0, -1, 0)] += -0.5 * sz
    return wbsys.Model(np.eye(3), np.zeros((2, 3)), np.array(R), {"Ham": np.array([H[r] for r in R])})
