"""C30  Grid tabulation covers every grid point with its own values (DESIGN 4/C30)

Oracles: (i) the C-ordered mesh (i/N0, j/N1, l/N2) built by the harness; (ii) the k-points collected by run()
before they are put on the grid (recorded by a harness-side wrapper of TABresult.to_grid) are the mesh points,
each exactly once (at least once when symmetry images are added); (iii) the value stored in slot (i,j,l) equals
`evaluate_k` of that point alone with fresh tabulators, and the tabulated energies equal the harness' own band
energies from the explicit Fourier sum (pins the slot <-> k-point mapping without any wannierberri code);
(iv) component extraction equals the algebraic operation written here (index, norm, square, trace, tuple).
"""
import numpy as np
from hypothesis import strategies as st

from vlib.runner import Sub, Violation, Inconclusive, ok
from vlib.util import scratch_dir
from vlib import bgrid

PROPERTY_ID = "C30"
RULE = ("random Hermitian models (1-3 WFs, all matrices), spinless / double_spin (exact degeneracy, tabulator "
        "averages the pair) / explicit time-reversal symmetric with use_irred_kpt in {False, True}; grid N in "
        "[1..6]^3 (<= 48 points) in a drawn factorisation NKdiv x NKFFT; 1-3 tabulators from {Velocity, InvMass, "
        "Der3E, BerryCurvature, DerBerryCurvature, Spin, OrbitalMoment} + Energy; ibands None / subsets / reversed; "
        "components x,y,z,norm,sq (rank 1), xx..zzz, trace, index tuples (rank>=2), upper case; band index int / "
        "list / None; non-trivial = anisotropic grid (not N0=N1=N2) with NKdiv != 1 and NKFFT != 1 and all points "
        "compared with the single-point evaluation; labels count rank>=2 components; distinct = distinct case")
ASSUMPTIONS = ["the single-point reference is evaluate_k(system, k, calculators={fresh tabulators}) as the statement "
               "says; the Energy quantity is additionally compared with the harness' own eigenvalues",
               "tolerance 1e-8 of the array scale x (1e-3/gap)^4 for inter-group gaps below 1e-3 eV (+1e-10 floor); "
               "component extraction must be exact up to 1e-13 relative (same numbers, different order of summation)",
               "gaps within 1e-9 of the tabulators' degeneracy threshold (1e-4) make a mismatch inconclusive",
               "symmetry reduction is exercised with the magnetic point group {E, T} of explicitly time-reversal "
               "symmetric models (spatial groups are the subject of C07)"]
MIN_NONTRIVIAL = {"quick": 6, "thorough": 120}
RTOL = 1e-8

TABS = {"Velocity": 1, "InvMass": 2, "Der3E": 3, "BerryCurvature": 1, "DerBerryCurvature": 2, "Spin": 1,
        "OrbitalMoment": 1}
TAB_NAMES = sorted(TABS)
XYZ = "xyz"


@st.composite
def comp_st(draw, rank):
    if rank == 0:
        return None
    kind = draw(st.sampled_from(["str", "str", "tuple", "special", "upper"]))
    idx = [draw(st.integers(0, 2)) for _ in range(rank)]
    if kind == "tuple":
        return {"tuple": idx}
    if kind == "special":
        return draw(st.sampled_from(["norm", "sq"])) if rank == 1 else "trace"
    s = "".join(XYZ[i] for i in idx)
    return s.upper() if kind == "upper" else s


@st.composite
def case_st(draw):
    syskind = draw(st.sampled_from(["plain", "double", "double", "tr_plain", "tr_double"]))
    names = draw(st.lists(st.sampled_from(TAB_NAMES), min_size=1, max_size=3, unique=True))
    if syskind == "tr_plain":
        names = [n for n in names if n != "Spin"] or ["Velocity"]      # no SS matrix in the spinless TR model
    comps = {n: [draw(comp_st(TABS[n])) for _ in range(draw(st.integers(1, 3)))] for n in names}
    model = draw(bgrid.model_st(max_wann=3, max_npairs=4, rmax=2))
    return dict(model=model, syskind=syskind, irred=bool(draw(st.booleans())) if syskind.startswith("tr") else False,
                N=draw(bgrid.grid_total_st(nmax=6, maxpoints=48)), sel=[draw(st.integers(0, 3)) for _ in range(3)],
                tabs=names, comps=comps,
                ibands=draw(st.one_of(st.none(), st.none(), st.lists(st.integers(0, 5), min_size=1, max_size=3, unique=True))),
                iq=draw(st.sampled_from(["none", "int", "list"])), iq_rs=draw(st.integers(0, 1000)))


def apply_component(T, rank, comp):
    """the algebraic operation, written independently: T has the tensor indices last"""
    if comp is None:
        return T
    if isinstance(comp, dict):
        return T[(Ellipsis,) + tuple(comp["tuple"])]
    c = comp.lower()
    if rank == 1 and c == "norm":
        return np.sqrt(np.sum(T * T, axis=-1))
    if rank == 1 and c == "sq":
        return np.sum(T * T, axis=-1)
    if c == "trace":
        return sum(T[(Ellipsis,) + (i,) * rank] for i in range(3))
    return T[(Ellipsis,) + tuple(XYZ.index(ch) for ch in c)]


def make_tabs(names, ibands):
    from wannierberri.calculators import tabulate
    return {n: getattr(tabulate, n)(ibands=None if ibands is None else list(ibands)) for n in names}


def check(case):
    from wannierberri import calculators as calc
    from wannierberri.evaluate_k import evaluate_k
    from wannierberri.result.tabresult import TABresult
    syskind = case["syskind"]
    N = [int(x) for x in case["N"]]
    div, fft = bgrid.factorisation(N, case["sel"])
    s, model, deg = bgrid.build_system(case["model"], spin="double" if syskind.endswith("double") else "plain",
                                       tr=syskind.startswith("tr"))
    nb = s.num_wann
    ibands = None if case["ibands"] is None else sorted({b % nb for b in case["ibands"]},
                                                        reverse=bool(case["iq_rs"] % 2))
    nsel = nb if ibands is None else len(ibands)
    names = list(case["tabs"])
    irred = bool(case["irred"])
    kmesh = bgrid.mesh(N)
    # ---- run() with a recorder around TABresult.to_grid (harness-side, restored afterwards)
    recorded = []
    orig = TABresult.to_grid

    def recording_to_grid(self, grid, order='C'):
        if not recorded:
            recorded.append(np.array(self.kpoints, dtype=float))
        return orig(self, grid, order=order)
    TABresult.to_grid = recording_to_grid
    try:
        with scratch_dir() as d:
            tabs = make_tabs(names, ibands)
            res, grid = bgrid.run_grid(s, div, fft, {"TAB": calc.TabulatorAll(tabs, mode="grid", ibands=ibands)}, d,
                                       use_irred_kpt=irred)
    finally:
        TABresult.to_grid = orig
    tab = res.results["TAB"]
    # ---- (i) the grid and its order
    if tab.grid is None or list(np.array(tab.grid)) != N:
        raise Violation("grid-size", f"TABresult.grid={tab.grid} for a {N} grid (NKdiv={div}, NKFFT={fft})")
    kp = np.array(tab.kpoints)
    if kp.shape != kmesh.shape or np.max(np.abs(kp - kmesh)) > 1e-12:
        raise Violation("kpoints-order", f"TABresult.kpoints is not the C-ordered {N} mesh")
    # ---- (ii) coverage before collection
    raw = recorded[0] if recorded else None
    if raw is None:
        raise Violation("no-collection", "run() returned a grid tabulation without collecting it on the grid")
    idx = np.rint(raw * np.array(N)[None, :]).astype(int)
    if np.max(np.abs(idx / np.array(N)[None, :] - raw)) > 1e-9:
        raise Violation("off-grid-point", "a tabulated k-point is not a point of the requested mesh")
    flat = (idx % np.array(N)) @ np.array([N[1] * N[2], N[2], 1])
    counts = np.bincount(flat, minlength=len(kmesh))
    if np.any(counts == 0):
        raise Violation("grid-point-missing", f"{int(np.sum(counts == 0))} of {len(kmesh)} mesh points were not tabulated")
    if not irred and np.any(counts != 1):
        raise Violation("grid-point-repeated", f"multiplicities {sorted(set(counts.tolist()))} without symmetry images")
    # ---- (iii) every slot holds the value of its own k-point
    Eall = np.array([np.repeat(model.bands(k), deg) for k in kmesh])
    gap = bgrid.min_intergroup_gap(Eall, 1e-4)
    gap0 = bgrid.min_intergroup_gap(Eall, 1e-9)
    cond = max(1.0, 1e-3 / gap) ** 4 if np.isfinite(gap) else 1.0
    V = abs(np.linalg.det(model.lattice))
    ref = {q: [] for q in names + ["Energy"]}
    for k in kmesh:
        fresh = make_tabs(names + ["Energy"], ibands)
        r = evaluate_k(s, k=tuple(float(x) for x in k), calculators=fresh, return_single_as_dict=True)
        for q in ref:
            ref[q].append(np.array(r[q].data)[0])
    worst = None
    for q in ref:
        rank = TABS.get(q, 0)
        got = np.array(tab.get_data(q))
        want = np.array(ref[q]).reshape(tuple(N) + (nsel,) + (3,) * rank)
        cf = abs(getattr(tabs.get(q), "constant_factor", 1.0)) if q in tabs else 1.0
        good, rel = bgrid.close(got, want, RTOL * cond, 1e-10 * cf * max(1.0, 1 / V, V) * cond)
        if not good and (worst is None or rel > worst[1]):
            worst = (q, rel, got.shape, want.shape)
    if worst is not None:
        if bgrid.threshold_tie(Eall, 1e-4):
            raise Inconclusive("tie: gap at the degeneracy threshold")
        raise Violation("slot-vs-single-point",
                        f"{worst[0]}: rel diff {worst[1]:.2e} shapes {worst[2]} vs {worst[3]}; N={N} NKdiv={div} "
                        f"NKFFT={fft} ibands={ibands} irred={irred}")
    if gap0 > 1e-3:
        sel = list(range(nb)) if ibands is None else ibands
        own = Eall[:, sel].reshape(tuple(N) + (nsel,))
        gotE = np.array(tab.get_data("Energy"))
        if gotE.shape != own.shape or np.max(np.abs(gotE - own)) > 1e-8 * (1 + np.max(np.abs(own))):
            raise Violation("energy-vs-own-bands", f"tabulated energies differ from the harness' bands; N={N} "
                                                   f"NKdiv={div} NKFFT={fft} ibands={ibands}")
    # ---- (iv) components and band selection of get_data
    rng = np.random.default_rng(case["iq_rs"])
    if case["iq"] == "none":
        ib, pick = None, slice(None)
    elif case["iq"] == "int":
        ib = int(rng.integers(0, nsel))
        pick = ib
    else:
        ib = [int(x) for x in rng.permutation(nsel)[:max(1, nsel - 1)]]
        pick = ib
    rank2 = False
    for q in names:
        rank = TABS[q]
        full = np.array(tab.get_data(q))                       # N + (nsel,) + (3,)*rank
        stored = full[:, :, :, pick]
        got0 = np.array(tab.get_data(q, iband=ib))
        if got0.shape != stored.shape or np.max(np.abs(got0 - stored), initial=0) != 0:
            raise Violation("band-selection", f"get_data({q}, iband={ib}) is not the selection of the stored bands")
        comps = list(case["comps"][q])
        comps += [c for c in tab.results[q].get_component_list() if c not in comps][:10]
        for c in comps:
            carg = tuple(c["tuple"]) if isinstance(c, dict) else c
            got = np.array(tab.get_data(q, iband=ib, component=carg))
            want = apply_component(stored, rank, c)
            scale = np.max(np.abs(stored), initial=0)
            if got.shape != want.shape or np.max(np.abs(got - want), initial=0) > 1e-13 * max(scale, scale ** 2):
                raise Violation("component", f"{q} component={carg!r} iband={ib}: differs from the algebraic "
                                             f"operation on the stored tensor (shapes {got.shape} {want.shape})")
            if rank >= 2:
                rank2 = True
    aniso = len(set(N)) > 1
    both = int(np.prod(div)) > 1 and int(np.prod(fft)) > 1
    return ok(aniso and both, syskind, "irred" if irred else None, "anisotropic" if aniso else "isotropic",
              "div>1&fft>1" if both else None, "rank>=2-component" if rank2 else None,
              "ibands" if ibands is not None else "all-bands", f"iband-query={case['iq']}",
              "near-degenerate" if cond > 1 else None, *["tab=" + n for n in names])


# wall-clock budgets can be stretched on an overloaded machine (never changes which cases are generated)
import os as _os
_BS = float(_os.environ.get("VERIF_BUDGET_SCALE", "1") or 1)
SUBS = [Sub("grid", case_st(), check, quick=32, thorough=2400, budget_quick=70 * _BS, budget_thorough=500 * _BS)]
