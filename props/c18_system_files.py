"""C18  System files round-trip  (DESIGN 4/C18)

Three writers / readers of a real-space system are exercised on generated systems (1..7 Wannier functions):

  npz : System_R.to_npz  -> System_R.from_npz / load_npz            (binary, exact)
  tb  : System_R.to_tb_file -> System_R.from_tb_file                (text, Ham and AA with %15.8e)
  hr  : System_R.to_hr_file (+ Wannier-centre file in WT format) -> System_R.from_hr_file

Oracle: the generated pure-numpy model (vlib.wbsys.Model).  Lattice, centres, the *set* of R-vectors and the
matrices re-indexed by R are compared with the model to the printed precision of each format; the serialised
point group must have the same elements; the band energies of the reloaded system are compared with the explicit
Fourier sum of the model, its Berry curvature (wannierberri.evaluate_k) with the one of the original system under
a first-order, conditioning-aware error bound.
"""
import os

import numpy as np
from hypothesis import strategies as st

from vlib.runner import Sub, Violation, ok
from vlib.util import rng_of, scratch_dir, maxabs
from vlib import wbsys

PROPERTY_ID = "C18"
RULE = ("random real-space models, num_wann 1..7 (odd and even), <=21 R-vectors closed or not closed under negation "
        "(|R_i|<=3 plus an optional far vector |R_i|<=150), centres inside/outside/coinciding/with |x|<1e-7 Cartesian "
        "components, 11 lattice families, entries partly exactly zero; npz: Ham + any subset of 12 further matrices and a "
        "point group generated from lattice-compatible generators (optionally x TR, rotated frame); tb: Ham(+AA) in "
        "convention II or I, centres read from the file or passed; hr: Ham + WT centre file or passed centres.  "
        "non-trivial = odd num_wann, or AA written with a convention change, or a point group with more than one element")
ASSUMPTIONS = [
    "printed precision: %15.8e -> 6e-9 relative per real/imaginary part; WT centre file -> components with |x|<=1e-7 "
    "are written as 0, everything else with full repr precision; np.savetxt lattice and npz -> 1e-14 relative",
    "tb reader preconditions (read from get_system_tb): centres are passed explicitly when the file has no AA block or "
    "was written in convention I; AA(R=0) has a zero diagonal when the centres are taken from the file",
    "bands/Berry curvature are compared only for Hermitian models on R sets closed under negation; Berry-curvature "
    "tolerance = first-order perturbation bound from the printed precision (terms ~ eps*D^2/gap^3 etc., factor 10), "
    "skipped at k-points where the smallest band gap is < 1e-3 (evaluate_k averages bands closer than 1e-4) or eps_H/gap > 1e-4",
    "point-group generators are lattice-compatible by construction (checked by the harness before use)",
]
MIN_NONTRIVIAL = {"quick": 150, "thorough": 3000}

EPS_TXT = 6e-9  # %15.8e : 9 significant digits -> relative rounding error <= 5e-9
EPS_BIN = 1e-14
GAP_MIN = 1e-3  # the tabulators behind evaluate_k average bands closer than 1e-4: stay a decade away from that tie
NPZ_OPTIONAL = ("AA", "BB", "CC", "SS", "OO", "GG", "FF", "SH", "SR", "SA", "SHA", "SHR")

# ------------------------------------------------------------------------------------------------
# point-group generators compatible with the lattice families of vlib.wbsys (Cartesian frame before rotation)

_CUBIC = [("rot", 4, (0, 0, 1)), ("rot", 4, (1, 0, 0)), ("rot", 3, (1, 1, 1)), ("rot", 2, (1, 1, 0)), ("inv",),
          ("mir", (1, 0, 0)), ("mir", (0, 0, 1)), ("rot", 2, (0, 1, 0))]
GENERATORS = {
    "generic": [("inv",), ("id",)],
    "triclinic": [("inv",), ("id",)],
    "sc": _CUBIC, "fcc": _CUBIC, "bcc": _CUBIC,
    "tetragonal": [("rot", 4, (0, 0, 1)), ("rot", 2, (1, 0, 0)), ("rot", 2, (1, 1, 0)), ("mir", (0, 0, 1)),
                   ("mir", (1, 0, 0)), ("inv",)],
    "orthorhombic": [("rot", 2, (1, 0, 0)), ("rot", 2, (0, 1, 0)), ("rot", 2, (0, 0, 1)), ("mir", (1, 0, 0)),
                     ("mir", (0, 1, 0)), ("mir", (0, 0, 1)), ("inv",)],
    "hexagonal": [("rot", 6, (0, 0, 1)), ("rot", 3, (0, 0, 1)), ("rot", 2, (1, 0, 0)), ("rot", 2, (0, 1, 0)),
                  ("mir", (0, 0, 1)), ("mir", (1, 0, 0)), ("inv",)],
    "hexagonal60": [("rot", 6, (0, 0, 1)), ("rot", 3, (0, 0, 1)), ("rot", 2, (1, 0, 0)), ("rot", 2, (0, 1, 0)),
                    ("mir", (0, 0, 1)), ("mir", (0, 1, 0)), ("inv",)],
    "rhombohedral": [("rot", 3, (0, 0, 1)), ("rot", 2, (0, 1, 0)), ("mir", (0, 1, 0)), ("inv",)],
    "monoclinic": [("rot", 2, (0, 1, 0)), ("mir", (0, 1, 0)), ("inv",)],
}


def _rotation(n, axis):
    """Rodrigues formula (own implementation)"""
    u = np.array(axis, dtype=float)
    u = u / np.linalg.norm(u)
    th = 2 * np.pi / n
    K = np.array([[0, -u[2], u[1]], [u[2], 0, -u[0]], [-u[1], u[0], 0]])
    return np.eye(3) + np.sin(th) * K + (1 - np.cos(th)) * (K @ K)


def generator_matrix(spec):
    if spec[0] == "rot":
        return _rotation(spec[1], spec[2])
    if spec[0] == "mir":
        return -_rotation(2, spec[1])
    if spec[0] == "inv":
        return -np.eye(3)
    return np.eye(3)


def group_generators(lat, gens, L):
    """list of (3x3 orthogonal matrix, TR) in the (possibly rotated) Cartesian frame of the lattice L"""
    table = GENERATORS[lat["kind"]]
    rot = wbsys._rot(lat["rot"]) if lat.get("rot") is not None else np.eye(3)
    out = []
    for idx, tr in gens:
        R = rot @ generator_matrix(table[idx % len(table)]) @ rot.T
        # harness-side guarantee that the generator maps the lattice onto itself (else: harness bug, exit 2)
        M = L @ R.T @ np.linalg.inv(L)
        if maxabs(M - np.round(M)) > 1e-9:
            raise RuntimeError(f"harness generator table: {table[idx % len(table)]} is not a symmetry of {lat}")
        # PointGroup keeps repeated generators as repeated elements (C09 territory): hand over distinct ones only
        if not any(maxabs(R - R2) < 1e-7 and bool(tr) == tr2 for R2, tr2 in out):
            out.append((R, bool(tr)))
    return out


def own_closure(gens):
    """group generated by (R,TR) pairs, as list of (R,TR); own implementation for the size oracle"""
    elems = [(np.eye(3), False)]
    for g in gens:
        if not any(maxabs(g[0] - e[0]) < 1e-7 and g[1] == e[1] for e in elems):
            elems.append(g)
    changed = True
    while changed:
        changed = False
        for a in list(elems):
            for b in list(elems):
                c = (a[0] @ b[0], a[1] != b[1])
                if not any(maxabs(c[0] - e[0]) < 1e-7 and c[1] == e[1] for e in elems):
                    elems.append(c)
                    changed = True
        if len(elems) > 200:
            raise RuntimeError("harness: group closure does not terminate")
    return elems


def sym_signature(sym):
    """(full 3x3 matrix incl. inversion, TR) of a wannierberri PointSymmetry"""
    return np.array(sym.R, dtype=float) * (-1 if bool(sym.Inv) else 1), bool(sym.TR)


# ------------------------------------------------------------------------------------------------
# strategies

TINY_VALUES = [0.0, 5e-8, -5e-8, 1e-7, -9.9e-8, 2e-7, -3e-9, 1.0000001e-7]


def _case_st(fmt):
    if fmt == "npz":
        model = wbsys.model_params_st(max_wann=7, max_npairs=5, rmax=3, keys=("Ham",), optional_keys=NPZ_OPTIONAL)
    elif fmt == "tb":
        model = wbsys.model_params_st(max_wann=7, max_npairs=5, rmax=3, keys=("Ham",))
    else:
        model = wbsys.model_params_st(max_wann=7, max_npairs=5, rmax=3, keys=("Ham",))
    d = dict(
        model=model,
        closed=st.booleans(),
        moreR=st.one_of(st.just([]), st.lists(st.tuples(*[st.integers(-3, 3)] * 3), min_size=1, max_size=4, unique=True)),
        bigR=st.one_of(st.none(), st.none(), st.lists(st.integers(-150, 150), min_size=3, max_size=3)),
        zero_frac=st.sampled_from([0.0, 0.0, 0.3, 0.7]),
        tiny=st.lists(st.tuples(st.integers(0, 6), st.integers(0, 2), st.integers(0, len(TINY_VALUES) - 1)), max_size=3),
        kpts=st.lists(wbsys.kpoint_st(), min_size=2, max_size=2),
        # the system that is written was obtained from a spinless one by System_R.double_spin()
        double=st.sampled_from([False, False, False, True]),
    )
    if fmt == "npz":
        _g = st.tuples(st.sampled_from(range(8)), st.sampled_from([False, False, True]))
        d.update(gens=st.one_of(st.just([]), st.lists(_g, min_size=1, max_size=3)), gen0=_g,
                 use_gen0=st.sampled_from([True, True, False]),
                 loader=st.sampled_from(["from_npz", "load_npz", "subset"]),
                 nsub=st.integers(0, 3),
                 # atomic structure attached with set_structure(): None, without or with magnetic moments
                 structure=st.one_of(st.none(), st.none(), st.fixed_dictionaries(dict(
                     nat=st.integers(1, 3), magmom=st.booleans(), rs=st.integers(0, 2 ** 16)))))
    elif fmt == "tb":
        d.update(aa=st.sampled_from([True, True, True, False]),
                 mode=st.sampled_from(["II-file", "II-file", "II-passed", "I-passed", "II-noberry-file", "II-noberry-passed"]))
    else:
        d.update(centres_from=st.sampled_from(["file", "file", "passed"]))
    return st.fixed_dictionaries(d)


# ------------------------------------------------------------------------------------------------
# building the model


def build_model(case):
    p = dict(case["model"])
    closed = bool(case["closed"])
    p["R"] = [list(r) for r in p["R"]] + [list(r) for r in case["moreR"] if list(r) not in [list(x) for x in p["R"]]]
    if case.get("bigR") is not None and list(case["bigR"]) not in p["R"]:
        p["R"] = p["R"] + [list(case["bigR"])]
    if case.get("aa"):
        p["keys"] = list(p["keys"]) + ["AA"]
    model = wbsys.make_model(p, hermitian=True, closed=closed)
    L = model.lattice
    # centres with tiny Cartesian components
    cart = model.wcc_red @ L
    touched = False
    for (i, c, v) in case["tiny"]:
        if i < model.nw:
            cart[i, c] = TINY_VALUES[v]
            touched = True
    if touched:
        model.wcc_red = cart @ np.linalg.inv(L)
    # exact zeros (mask symmetric under (R,i,j) -> (-R,j,i) on closed sets so that hermiticity survives)
    if case["zero_frac"] > 0:
        rng = rng_of(case["model"]["rs"] + 17)
        idx = model.index_R()
        nR = len(model.iRvec)
        for key in sorted(model.mats):
            X = model.mats[key]
            mask = rng.uniform(size=(nR, model.nw, model.nw)) >= case["zero_frac"]
            if closed:
                m2 = mask.copy()
                for R, i in idx.items():
                    j = idx[tuple(-x for x in R)]
                    m2[i] = mask[i] & mask[j].T
                mask = m2
            model.mats[key] = X * mask.reshape(mask.shape + (1,) * (X.ndim - 3))
    return model


def doubled_model(model):
    """what System_R.double_spin() documents: every orbital twice (2i, 2i+1), spin-diagonal matrices, same centres"""
    nw = model.nw
    mats = {}
    for k, X in model.mats.items():
        Y = np.zeros((X.shape[0], 2 * nw, 2 * nw) + X.shape[3:], dtype=X.dtype)
        Y[:, 0::2, 0::2] = X
        Y[:, 1::2, 1::2] = X
        mats[k] = Y
    # double_spin() also sets the spin operator: on-site Pauli matrices inside every pair (2i, 2i+1)
    sig = np.array([[[0, 1], [1, 0]], [[0, -1j], [1j, 0]], [[1, 0], [0, -1]]], dtype=complex)
    SS = np.zeros((len(model.iRvec), 2 * nw, 2 * nw, 3), dtype=complex)
    i0 = [tuple(int(x) for x in R) for R in model.iRvec].index((0, 0, 0))
    for i in range(nw):
        for a in range(2):
            for b in range(2):
                SS[i0, 2 * i + a, 2 * i + b, :] = sig[:, a, b]
    mats["SS"] = SS
    return wbsys.Model(model.lattice.copy(), np.repeat(model.wcc_red, 2, axis=0), model.iRvec.copy(), mats)


def by_R(iRvec, X):
    return {tuple(int(x) for x in R): X[i] for i, R in enumerate(iRvec)}


def compare_R_sets(model, s, what):
    got = [tuple(int(x) for x in R) for R in np.asarray(s.rvec.iRvec)]
    want = [tuple(int(x) for x in R) for R in model.iRvec]
    if len(set(got)) != len(got):
        raise Violation(f"{what}:R-duplicated", f"reloaded R-vectors contain duplicates: {got}")
    if set(got) != set(want):
        raise Violation(f"{what}:R-set", f"lost {sorted(set(want) - set(got))} invented {sorted(set(got) - set(want))}")


def compare_matrix(model, s, key, what, eps, extra_abs=None):
    """element-wise |re/im difference| <= eps*|re/im| (+ extra_abs array broadcast per R)"""
    if not s.has_R_mat(key):
        raise Violation(f"{what}:matrix-missing", f"{key} not present in the reloaded system")
    X = np.asarray(s.get_R_mat(key))
    ref = model.mats[key]
    if X.shape != ref.shape:
        raise Violation(f"{what}:matrix-shape", f"{key}: {X.shape} != {ref.shape}")
    got = by_R(np.asarray(s.rvec.iRvec), X)
    want = by_R(model.iRvec, ref)
    for R, W in want.items():
        G = got[R]
        for part in ("real", "imag"):
            g = getattr(G, part)
            w = getattr(W, part)
            tol = eps * np.abs(w) + 1e-300
            if extra_abs is not None and R in extra_abs and part in extra_abs[R]:
                tol = tol + extra_abs[R][part]
            bad = np.abs(g - w) > tol
            if np.any(bad):
                i = tuple(int(x) for x in np.argwhere(bad)[0])
                raise Violation(f"{what}:matrix-{key}", f"{key}[R={R}]{i}.{part}: read {g[i]!r} written {w[i]!r} "
                                f"(|diff|={abs(g[i] - w[i]):.3e} > {float(np.broadcast_to(tol, w.shape)[i]):.3e})")


def compare_lattice(model, s, what):
    Lg = np.asarray(s.real_lattice, dtype=float)
    if Lg.shape != (3, 3) or maxabs(Lg - model.lattice) > EPS_BIN * (1 + maxabs(model.lattice)):
        raise Violation(f"{what}:lattice", f"lattice differs by {maxabs(Lg - model.lattice):.3e}")


# ------------------------------------------------------------------------------------------------
# bands and Berry curvature of the reloaded system


def _first_order_bound(model, k, eps, dt, has_AA):
    """(tolerance for band energies, tolerance for the Berry curvature or None when ill-conditioned, gap)"""
    nw = model.nw
    L = model.lattice
    wcc = model.wcc_red @ L
    cR = model.iRvec @ L
    d = cR[:, None, None, :] + wcc[None, None, :, :] - wcc[None, :, None, :]
    dist = np.linalg.norm(d, axis=-1).reshape(len(cR), -1).max(axis=1)
    HF = np.array([np.linalg.norm(x) for x in model.mats["Ham"]])
    Hs = HF.sum()
    Ds = (HF * dist).sum()
    E = model.bands(k)
    gap = float(np.min(np.diff(E))) if nw > 1 else np.inf
    eps_H = eps * Hs
    eps_D = eps * Ds + 2 * dt * Hs
    tolE = 2 * eps_H + 1e-12 * (1 + maxabs(E))
    if nw > 1 and (eps_H > 1e-4 * gap or gap < GAP_MIN):
        return None, None, gap
    ig = 0.0 if nw == 1 else 1.0 / gap
    tol = 2 * Ds * eps_D * ig ** 2 + 4 * Ds ** 2 * eps_H * ig ** 3
    scale = Ds ** 2 * ig ** 2
    if has_AA:
        AF = np.array([np.linalg.norm(x) for x in model.mats["AA"]])
        As = AF.sum()
        dAs = (AF * dist).sum()
        eps_A = eps * As + 2 * dt
        eps_dA = eps * dAs + 2 * dt * As
        tol += eps_dA + 2 * dAs * eps_H * ig
        tol += (eps_D * As + Ds * eps_A) * ig + 3 * Ds * As * eps_H * ig ** 2
        tol += 2 * As * eps_A + 2 * As ** 2 * eps_H * ig
        scale += dAs + Ds * As * ig + As ** 2
    return tolE, 10 * nw * tol + 1e-9 * (1 + scale), gap


def compare_physics(case, model, s_orig, s_new, what, eps, dt):
    """energies of the reloaded system vs explicit Fourier sum; Berry curvature vs the original system"""
    from wannierberri import evaluate_k
    has_AA = s_new.has_R_mat("AA") and s_orig.has_R_mat("AA")
    q = "berry_curvature" if has_AA else "berry_curvature_internal_terms"
    labels = set()
    for k in case["kpts"]:
        k = [float(x) for x in k]
        tolE, tolO, gap = _first_order_bound(model, k, eps, dt, has_AA)
        if tolE is None:
            labels.add("physics-skipped(near-degenerate)")
            continue
        r_new = evaluate_k(s_new, k=k, quantities=["energy", q])
        E = np.asarray(r_new["energy"], dtype=float)
        Eref = model.bands(k)
        if E.shape != Eref.shape or maxabs(E - Eref) > tolE:
            raise Violation(f"{what}:bands", f"k={k}: bands of the reloaded system differ from the explicit sum by "
                            f"{maxabs(E - Eref):.3e} > {tolE:.3e}")
        r_old = evaluate_k(s_orig, k=k, quantities=["energy", q])
        O_new = np.asarray(r_new[q])
        O_old = np.asarray(r_old[q])
        if O_new.shape != O_old.shape or maxabs(O_new - O_old) > tolO:
            raise Violation(f"{what}:berry-curvature", f"k={k} ({q}): reloaded vs original differ by "
                            f"{maxabs(O_new - O_old):.3e} > {tolO:.3e} (gap {gap:.3e}, scale {maxabs(O_old):.3e})")
        labels.add("curvature-compared")
    return labels


def common_labels(case, model):
    nw = model.nw
    return [f"nw={nw}", "odd" if nw % 2 else "even", "closed" if case["closed"] else "not-closed",
            "bigR" if case.get("bigR") is not None else None, "doubled" if case.get("double") and model.nw % 2 == 0 and not any(k.startswith("S") for k in model.mats) else None, "zeros" if case["zero_frac"] > 0 else None,
            "tiny-centres" if any(i < nw for i, _, _ in case["tiny"]) else None, case["model"]["ckind"],
            f"nR={min(len(model.iRvec), 9)}" + ("+" if len(model.iRvec) > 9 else "")]


# ------------------------------------------------------------------------------------------------
# npz


def check_npz(case):
    from wannierberri.system.system_R import System_R
    from wannierberri.symmetry.point_symmetry import PointSymmetry
    model = build_model(case)
    L = model.lattice
    gens = group_generators(case["model"]["lat"], ([case["gen0"]] if case["use_gen0"] else []) + list(case["gens"]), L)
    s = wbsys.to_system(model, pointgroup_gen=[PointSymmetry(R.copy(), TR=tr) for R, tr in gens] if gens else None)
    if case.get("double") and not any(k.startswith("S") for k in model.mats):   # documented precondition: spinless
        s.double_spin()
        model = doubled_model(model)
    struct = None
    if case.get("structure"):
        srng = rng_of(case["structure"]["rs"])
        nat = case["structure"]["nat"]
        struct = dict(positions=srng.uniform(0, 1, size=(nat, 3)),
                      atom_labels=[["A", "B", "Fe"][int(i)] for i in srng.integers(0, 3, size=nat)],
                      magnetic_moments=[list(v) for v in srng.uniform(-2, 2, size=(nat, 3))] if case["structure"]["magmom"] else None)
        s.set_structure(positions=struct["positions"].copy(), atom_labels=list(struct["atom_labels"]),
                        magnetic_moments=struct["magnetic_moments"])
    own = own_closure(gens)
    if s.pointgroup.size != len(own):
        # not a file round-trip issue (C09 territory) - would make the oracle below meaningless
        raise RuntimeError(f"harness: group size {s.pointgroup.size} != own closure {len(own)}")
    keys = sorted(model.mats)
    with scratch_dir() as d:
        path = os.path.join(d, "sys")
        s.to_npz(path)
        if case["loader"] == "from_npz":
            s2 = System_R.from_npz(path)
            loaded = keys
        elif case["loader"] == "load_npz":
            s2 = System_R(silent=True)
            ret = s2.load_npz(path)
            if ret is not s2:
                raise Violation("npz:load-return", "load_npz does not return the system")
            loaded = keys
        else:
            sub = [keys[(case["nsub"] + 3 * j) % len(keys)] for j in range(1 + case["nsub"] % 2)]
            loaded = sorted(set(sub) | {"Ham"})
            s2 = System_R.from_npz(path, matrices=loaded)
    what = "npz"
    compare_lattice(model, s2, what)
    if int(s2.num_wann) != model.nw:
        raise Violation("npz:num_wann", f"{s2.num_wann} != {model.nw}")
    wcc = model.wcc_red @ L
    got = np.asarray(s2.wannier_centers_cart, dtype=float)
    if got.shape != wcc.shape or maxabs(got - wcc) > EPS_BIN * (1 + maxabs(wcc)):
        raise Violation("npz:centres", f"centres differ by {maxabs(got - wcc):.3e}")
    if maxabs(np.asarray(s2.wannier_centers_red) - model.wcc_red) > 1e-12 * (1 + maxabs(model.wcc_red)):
        raise Violation("npz:centres-red", "reduced centres of the reloaded system differ")
    compare_R_sets(model, s2, what)
    if sorted(s2._XX_R.keys()) != loaded:
        raise Violation("npz:matrix-keys", f"loaded {sorted(s2._XX_R.keys())}, expected {loaded} (saved {keys})")
    for key in loaded:
        compare_matrix(model, s2, key, what, EPS_BIN)
    if not np.array_equal(np.asarray(s2.periodic, dtype=bool), np.asarray(s.periodic, dtype=bool)):
        raise Violation("npz:periodic", f"{s2.periodic} != {s.periodic}")
    if bool(s2.is_phonon) != bool(s.is_phonon):
        raise Violation("npz:is_phonon", f"{s2.is_phonon}")
    # shifts of the R-vector object must refer to the reloaded centres
    if maxabs(np.asarray(s2.rvec.shifts_left_red) - model.wcc_red) > 1e-12 * (1 + maxabs(model.wcc_red)):
        raise Violation("npz:rvec-shifts", "Rvectors of the reloaded system carry other centres")
    # point group: same size, every element found exactly once (both directions)
    pg = s2.pointgroup
    sig_new = [sym_signature(x) for x in pg.symmetries]
    sig_old = [sym_signature(x) for x in s.pointgroup.symmetries]
    if len(sig_new) != len(sig_old) or pg.size != len(own):
        raise Violation("npz:pointgroup-size", f"{len(sig_new)} elements after reload, {len(sig_old)} before")
    for name, A, B in (("lost", sig_old, sig_new), ("invented", sig_new, sig_old)):
        for (R, tr) in A:
            n = sum(1 for (R2, tr2) in B if tr2 == tr and maxabs(R - R2) < 1e-10)
            if n != 1:
                raise Violation(f"npz:pointgroup-{name}", f"element TR={tr} R={np.round(R, 6).tolist()} matched {n} times")
    for (R, tr) in own:
        if sum(1 for (R2, tr2) in sig_new if tr2 == tr and maxabs(R - R2) < 1e-7) != 1:
            raise Violation("npz:pointgroup-own", f"own-closure element TR={tr} R={np.round(R, 6).tolist()} not in reloaded group")
    if maxabs(np.asarray(pg.real_lattice) - L) > EPS_BIN * (1 + maxabs(L)):
        raise Violation("npz:pointgroup-lattice", "lattice stored in the point group differs")
    if struct is not None:
        if not hasattr(s2, "positions") or maxabs(np.asarray(s2.positions, dtype=float) - struct["positions"]) > 0:
            raise Violation("npz:structure", "atomic positions lost or changed")
        if [str(x) for x in np.asarray(s2.atom_labels).tolist()] != struct["atom_labels"]:
            raise Violation("npz:structure", f"atom labels {np.asarray(s2.atom_labels).tolist()} != {struct['atom_labels']}")
        mm = getattr(s2, "magnetic_moments", None)
        if struct["magnetic_moments"] is None:
            if mm is not None:
                raise Violation("npz:structure", f"magnetic moments invented: {mm}")
        elif mm is None or maxabs(np.asarray(mm, dtype=float) - np.array(struct["magnetic_moments"])) > 0:
            raise Violation("npz:structure", "magnetic moments lost or changed")
    labels = set()
    if case["closed"]:
        labels = compare_physics(case, model, s, s2, what, EPS_BIN, EPS_BIN * (1 + maxabs(wcc)))
    if struct is not None:
        labels.add("structure+magmom" if struct["magnetic_moments"] is not None else "structure")
    nt = model.nw % 2 == 1 or len(own) > 1
    return ok(nt, "npz", f"group={len(own)}", "group>1" if len(own) > 1 else None,
              "TR-in-group" if any(tr for _, tr in own) else None,
              "rotated-frame" if case["model"]["lat"].get("rot") is not None else None,
              f"loader={case['loader']}", f"nkeys={len(keys)}", *common_labels(case, model), *sorted(labels))


# ------------------------------------------------------------------------------------------------
# _tb.dat


def check_tb(case):
    from wannierberri.system.system_R import System_R
    model = build_model(case)
    L = model.lattice
    s = wbsys.to_system(model)
    if case.get("double"):
        s.double_spin()
        model = doubled_model(model)
    has_AA = "AA" in model.mats
    mode = case["mode"]
    if not has_AA:
        mode = "noAA-passed"  # reader precondition: without an AA block the centres must be given
    wcc = model.wcc_red @ L
    with scratch_dir() as d:
        fn = os.path.join(d, "model_tb.dat")
        if mode == "I-passed":
            s.to_tb_file(tb_file=fn, use_convention_II=False)
        else:
            s.to_tb_file(tb_file=fn)
        kw = dict(tb_file=fn, silent=True)
        if mode.endswith("passed"):
            kw["wannier_centers_cart"] = wcc.copy()
        if mode in ("II-file", "II-passed", "I-passed"):
            kw["berry"] = True
        if mode == "I-passed":
            kw["convention_II_to_I"] = False
        s2 = System_R.from_tb_file(**kw)
    what = "tb"
    compare_lattice(model, s2, what)
    if int(s2.num_wann) != model.nw:
        raise Violation("tb:num_wann", f"{s2.num_wann} != {model.nw}")
    got = np.asarray(s2.wannier_centers_cart, dtype=float)
    if mode.endswith("passed"):
        tolc = EPS_BIN * (1 + np.abs(wcc))
    else:
        tolc = EPS_TXT * np.abs(wcc) + 1e-300
    if got.shape != wcc.shape or np.any(np.abs(got - wcc) > tolc):
        raise Violation(f"tb:centres[{mode}]", f"centres read {got.tolist()} written {wcc.tolist()}")
    if maxabs(np.asarray(s2.rvec.shifts_left_red) - np.asarray(s2.wannier_centers_red)) > 1e-12 * (1 + maxabs(model.wcc_red)):
        raise Violation("tb:rvec-shifts", "Rvectors of the reloaded system carry other centres than the system")
    compare_R_sets(model, s2, what)
    compare_matrix(model, s2, "Ham", what, EPS_TXT)
    reads_AA = has_AA and mode in ("II-file", "II-passed", "I-passed")
    if reads_AA:
        extra = None
        if mode in ("II-file", "II-passed"):
            # diagonal of AA(R=0) went through  print(AA_ii + t_i) - t_i'
            e = np.zeros((model.nw, model.nw, 3))
            e[np.arange(model.nw), np.arange(model.nw)] = EPS_TXT * np.abs(wcc) * 2 + 1e-300
            extra = {(0, 0, 0): {"real": e}}
        compare_matrix(model, s2, "AA", what, EPS_TXT, extra_abs=extra)
    elif s2.has_R_mat("AA"):
        raise Violation("tb:AA-invented", "AA present in a system read without berry=True")
    labels = set()
    if case["closed"]:
        dt = maxabs(wcc) * EPS_TXT * 2 + 1e-15
        labels = compare_physics(case, model, s, s2, what, EPS_TXT, dt)
    conv_change = has_AA and mode in ("II-file", "II-passed", "II-noberry-file")
    nt = model.nw % 2 == 1 or conv_change
    return ok(nt, "tb", f"mode={mode}", "AA-convention-change" if conv_change else None, *common_labels(case, model),
              *sorted(labels))


# ------------------------------------------------------------------------------------------------
# _hr.dat + WT centre file


def check_hr(case):
    from wannierberri.system.system_R import System_R
    model = build_model(case)
    L = model.lattice
    s = wbsys.to_system(model)
    if case.get("double"):
        s.double_spin()
        model = doubled_model(model)
    wcc = model.wcc_red @ L
    with scratch_dir() as d:
        seed = os.path.join(d, "model")
        s.to_hr_file(seedname=seed)
        for f in ("model_hr.dat", "model_wannier_centre_WT_format.dat"):
            if not os.path.exists(os.path.join(d, f)):
                raise Violation("hr:file-missing", f"{f} not written")
        kw = dict(real_lattice=L.copy(), silent=True)
        if case["centres_from"] == "passed":
            kw["wannier_centers_cart"] = wcc.copy()
        s2 = System_R.from_hr_file(seed, **kw)
    what = "hr"
    compare_lattice(model, s2, what)
    if int(s2.num_wann) != model.nw:
        raise Violation("hr:num_wann", f"{s2.num_wann} != {model.nw}")
    got = np.asarray(s2.wannier_centers_cart, dtype=float)
    # WT format: |x| <= 1e-7 -> 0.0, everything else repr (exact)
    tolc = np.where(np.abs(wcc) <= 1e-7, 1e-7, 4e-16 * np.abs(wcc))
    if case["centres_from"] == "passed":
        tolc = 4e-16 * np.abs(wcc)
    if got.shape != wcc.shape or np.any(np.abs(got - wcc) > tolc):
        bad = np.argwhere(np.abs(got - wcc) > tolc)[0].tolist() if got.shape == wcc.shape else None
        raise Violation("hr:centres", f"shape {got.shape}, first mismatch at {bad}: read {got.tolist()} written {wcc.tolist()}")
    if maxabs(np.asarray(s2.rvec.shifts_left_red) - np.asarray(s2.wannier_centers_red)) > 1e-12 * (1 + maxabs(model.wcc_red)):
        raise Violation("hr:rvec-shifts", "Rvectors of the reloaded system carry other centres than the system")
    compare_R_sets(model, s2, what)
    compare_matrix(model, s2, "Ham", what, EPS_TXT)
    if sorted(s2._XX_R.keys()) != ["Ham"]:
        raise Violation("hr:matrix-keys", f"{sorted(s2._XX_R.keys())}")
    labels = set()
    if case["closed"]:
        labels = compare_physics(case, model, s, s2, what, EPS_TXT, 1e-7 if case["centres_from"] == "file" else 1e-15)
    nt = model.nw % 2 == 1
    return ok(nt, "hr", f"centres={case['centres_from']}",
              "centre<1e-7" if np.any((np.abs(wcc) <= 1e-7) & (wcc != 0)) else None,
              "negative-centre" if np.any(wcc < 0) else None, *common_labels(case, model), *sorted(labels))


SUBS = [
    Sub("npz", _case_st("npz"), check_npz, quick=400, thorough=8000),
    Sub("tb", _case_st("tb"), check_tb, quick=400, thorough=12000),
    Sub("hr", _case_st("hr"), check_hr, quick=400, thorough=12000),
]
