"""C06  K-point weights partition the Brillouin zone for every grid and refinement history  (DESIGN 4/C06)

Model-based (stateful) check: a case is a *history* given as plain data
    {lattice family + params, generators, NKdiv, NKFFT, periodic, steps:[{pick, mesh, use_symmetry, include_dead}]}
that the check function interprets exactly the way run() drives the K list
    (Grid.get_K_list, then per step  K_list += K.divide(...)  for the picked points and
     exclude_equiv_points(K_list, new_points=...)).
After the initial list and after every step the invariants 1-6 of the DESIGN are evaluated with harness-side
arithmetic only:
  * the point group acting on k is generated here from Cartesian matrices (Rodrigues formula) and closed as a group of
    *integer* matrices M_g = B A_g^T B^-1 (B = reciprocal lattice, rows); orbits / equivalence classes are computed
    in exact integer arithmetic on the refinement lattice (no use of PointGroup.star / KpointBZparallel.equiv);
  * tilings are decided with fractions.Fraction built from the floats the code produced (the oracle itself does not
    round; an explicit tolerance 1e-12 absorbs the rounding of the code's own floats).
Sub 'tetra' does the same for GridTetra / GridTrigonal and KpointBZtetra.divide.
"""
from fractions import Fraction
from math import gcd

import numpy as np
from hypothesis import strategies as st

from vlib.runner import Sub, Violation, Inconclusive, ok
from vlib.util import fl, rng_of, maxabs
from vlib import wbsys, c06run

PROPERTY_ID = "C06"
RULE = ("histories: lattice family (11 kinds, optionally rotated in space) + 0-3 generators from the crystallographic "
        "table of the family (each optionally x TimeReversal; given as PointSymmetry or by name), NKdiv in [1..8]^3 made "
        "compatible with the group, NKFFT in [1..3]^3, optional non-periodic 3rd direction, initial list with/without "
        "symmetry, 0-8 refinement steps {1-3 picked points (alive, or any incl. dead), mesh 2|3|4|[a,b,c] (constant or "
        "changing between steps), use_symmetry}; tetra: default 5-tetra cell / trigonal wedge / subsets of the Kuhn and "
        "5-tetra tilings with permuted vertices and optional weights, right- and left-handed cells, split thresholds from a target count, 0-6 divides "
        "with ndiv 2..4; non-trivial(grid) = (group order>1 and >=1 merge happened) or >=2 refinement steps; "
        "non-trivial(tetra) = >=1 split at construction or >=1 divide; run: real run() with 1-3 refinements, then a restart from the "
        "last or an earlier iteration (1-2 more refinements) and optionally a second restart, both storage modes, with/without "
        "symmetry - non-trivial = restart from an earlier iteration after >=1 point was refined; distinct = distinct generated case")
ASSUMPTIONS = [
    "grids are generated compatible with the group (my own integer test: M_ab*N_b divisible by N_a for all operations)",
    "refinement depth is capped so that cells stay larger than 1.5e-5 >> SYMMETRY_PRECISION=1e-6 (no equivalence ties)",
    "geometric covering (invariant 5) is asserted only (a) for histories that never used symmetry (plain partition of "
    "the torus, any lattice) or (b) when all k-space operations are signed permutations of the reduced axes, the grid "
    "and the (constant) refinement mesh are equal along permuted axes -- for hexagonal/fcc/... groups the image of a "
    "cell is not a cell and the statement promises only weight conservation there",
    "weights: sums to 1e-12, class sums to 1e-13; positions: 1e-12 (Fractions of the code's floats, explicit tolerance)",
    "tetra: thresholds being honoured is not asserted (not promised); only tiling / weight / volume conservation",
]
MIN_NONTRIVIAL = {"quick": 50, "thorough": 500}
WTOL = 1e-12
MAXPROD = 2048      # cap of prod(mesh) along one axis over a history

# ------------------------------------------------------------------------------------------------
# harness-side point groups


def rodrigues(n, axis):
    a = np.array(axis, dtype=float)
    a = a / np.sqrt(a @ a)
    t = 2 * np.pi / n
    Kx = np.array([[0, -a[2], a[1]], [a[2], 0, -a[0]], [-a[1], a[0], 0]])
    return np.eye(3) + np.sin(t) * Kx + (1 - np.cos(t)) * (Kx @ Kx)


def mirror(normal):
    a = np.array(normal, dtype=float)
    a = a / np.sqrt(a @ a)
    return np.eye(3) - 2 * np.outer(a, a)


def gen_matrix(name):
    """full 3x3 Cartesian matrix (det +-1) of a named operation in the unrotated frame of wbsys.lattice_matrix"""
    t = {"E": np.eye(3), "Inversion": -np.eye(3),
         "C2x": rodrigues(2, [1, 0, 0]), "C2y": rodrigues(2, [0, 1, 0]), "C2z": rodrigues(2, [0, 0, 1]),
         "C3z": rodrigues(3, [0, 0, 1]), "C4x": rodrigues(4, [1, 0, 0]), "C4y": rodrigues(4, [0, 1, 0]),
         "C4z": rodrigues(4, [0, 0, 1]), "C6z": rodrigues(6, [0, 0, 1]),
         "C2_110": rodrigues(2, [1, 1, 0]), "C2_1m10": rodrigues(2, [1, -1, 0]), "C3_111": rodrigues(3, [1, 1, 1]),
         "Mx": mirror([1, 0, 0]), "My": mirror([0, 1, 0]), "Mz": mirror([0, 0, 1]), "M_110": mirror([1, 1, 0])}
    return t[name]


_CUBIC = ["C2x", "C2y", "C2z", "C4x", "C4y", "C4z", "C2_110", "C2_1m10", "C3_111", "Mx", "My", "Mz", "M_110",
          "Inversion", "E"]
_HEX = ["C6z", "C3z", "C2z", "C2x", "C2y", "Mx", "My", "Mz", "Inversion", "E"]
GEN_TABLE = {
    "sc": _CUBIC, "fcc": _CUBIC, "bcc": _CUBIC,
    "tetragonal": ["C2x", "C2y", "C2z", "C4z", "C2_110", "C2_1m10", "Mx", "My", "Mz", "M_110", "Inversion", "E"],
    "orthorhombic": ["C2x", "C2y", "C2z", "Mx", "My", "Mz", "Inversion", "E"],
    "hexagonal": _HEX, "hexagonal60": _HEX,
    "rhombohedral": ["C3z", "C2y", "My", "Inversion", "E"],
    "monoclinic": ["C2y", "My", "Inversion", "E"],
    "triclinic": ["Inversion", "E"], "generic": ["Inversion", "E"],
}
WB_NAMES = {"E": "Identity", "Inversion": "Inversion", "C2x": "C2x", "C2y": "C2y", "C2z": "C2z", "C3z": "C3z",
            "C4x": "C4x", "C4y": "C4y", "C4z": "C4z", "C6z": "C6z", "Mx": "Mx", "My": "My", "Mz": "Mz"}


def k_group(lat, gens):
    """integer matrices M (k_red' = k_red @ M) of the group generated by `gens` acting on k; closed here"""
    L = wbsys.lattice_matrix(lat)
    B = 2 * np.pi * np.linalg.inv(L).T
    Q = wbsys._rot(lat["rot"]) if lat.get("rot") is not None else np.eye(3)
    cart = []
    Ms = []
    for g in gens:
        R = Q @ gen_matrix(g["name"]) @ Q.T
        cart.append((R, bool(g["TR"])))
        A = -R if g["TR"] else R                 # action on k: time reversal sends k -> -k
        M = B @ A.T @ np.linalg.inv(B)
        Mi = np.rint(M).astype(np.int64)
        if maxabs(M - Mi) > 1e-7:
            raise RuntimeError(f"harness table: {g} is not a symmetry of lattice {lat['kind']}")
        Ms.append(Mi)
    group = {tuple(np.eye(3, dtype=np.int64).ravel())}
    frontier = [np.eye(3, dtype=np.int64)]
    while frontier:
        new = []
        for X in frontier:
            for G in Ms:
                Y = X @ G
                key = tuple(Y.ravel())
                if key not in group:
                    group.add(key)
                    new.append(Y)
        if len(group) > 96:
            raise RuntimeError("harness: group does not close")
        frontier = new
    arr = np.array(sorted(group), dtype=np.int64).reshape(-1, 3, 3)
    return L, B, cart, arr


def grid_compatible(Ms, nk):
    for M in Ms:
        for a in range(3):
            for b in range(3):
                if (int(M[a, b]) * int(nk[b])) % int(nk[a]) != 0:
                    return False
    return True


def tie_classes(Ms):
    parent = [0, 1, 2]

    def find(x):
        while parent[x] != x:
            x = parent[x]
        return x
    for M in Ms:
        for a in range(3):
            for b in range(3):
                if a != b and M[a, b] != 0:
                    parent[max(find(a), find(b))] = min(find(a), find(b))
    return [find(a) for a in range(3)]


def repair_grid(Ms, nk):
    nk = [int(x) for x in nk]
    if grid_compatible(Ms, nk):
        return nk
    cl = tie_classes(Ms)
    nk2 = [nk[cl[a]] for a in range(3)]
    if grid_compatible(Ms, nk2):
        return nk2
    return [nk[0]] * 3


def lcm(a, b):
    return a * b // gcd(a, b)


# ------------------------------------------------------------------------------------------------
# strategies

FAMILIES = ["sc", "fcc", "bcc", "tetragonal", "orthorhombic", "hexagonal", "hexagonal60", "rhombohedral",
            "monoclinic", "triclinic", "generic"]
_mesh = st.one_of(st.sampled_from([2, 3]), st.sampled_from([2, 3, 4]),
                  st.lists(st.integers(1, 3), min_size=3, max_size=3).filter(lambda m: max(m) > 1))
_pick = st.one_of(fl(0.0, 0.999999), fl(0.0, 0.999999), fl(0.9, 0.999999), st.just(0.999999))
_step = st.fixed_dictionaries(dict(
    pick=st.lists(_pick, min_size=1, max_size=3),
    mesh=st.one_of(st.none(), st.none(), _mesh),
    use_symmetry=st.sampled_from([True, True, True, False]),
    include_dead=st.sampled_from([False, False, False, True]),
))


@st.composite
def history_st(draw):
    kind = draw(st.sampled_from(FAMILIES))
    lat = draw(wbsys.lattice_st(kinds=[kind]))
    ng = draw(st.sampled_from([0, 1, 1, 2, 2, 3]))
    gens = draw(st.lists(st.fixed_dictionaries(dict(name=st.sampled_from(GEN_TABLE[kind]), TR=st.booleans())),
                         min_size=ng, max_size=ng))
    ns = draw(st.integers(0, 8))
    return dict(lat=lat, gens=gens, as_string=draw(st.booleans()),
                NKdiv=draw(st.lists(st.integers(1, 8), min_size=3, max_size=3)),
                NKFFT=draw(st.lists(st.integers(1, 3), min_size=3, max_size=3)),
                nonperiodic_z=draw(st.sampled_from([False, False, False, False, True])),
                grid_sym=draw(st.sampled_from([True, True, True, True, False])),
                use_symmetry0=draw(st.sampled_from([True, True, True, False])),
                mesh0=draw(_mesh),
                steps=draw(st.lists(_step, min_size=ns, max_size=ns)),
                rs=draw(st.integers(0, 2 ** 32)))


# ------------------------------------------------------------------------------------------------
# helpers on K lists


class FakeResult:
    """stand-in for an evaluated result (run() stores results on the K-points between refinement steps)"""
    __slots__ = ("max", "tag")

    def __init__(self, tag):
        self.max = np.array([1.0])
        self.tag = tag


def mesh3(m):
    return [int(m)] * 3 if isinstance(m, int) else [int(x) for x in m]


def snapshot(K_list):
    return dict(objs=list(K_list), K=np.array([k.K for k in K_list], dtype=float).reshape(-1, 3),
                dK=np.array([k.dK for k in K_list], dtype=float).reshape(-1, 3),
                fac=np.array([k.factor for k in K_list], dtype=float),
                lev=np.array([k.refinement_level for k in K_list], dtype=int),
                res=[id(k.result) if k.result is not None else None for k in K_list])


def to_int(K, Qc, what):
    x = np.asarray(K, dtype=float) * float(Qc)
    xi = np.rint(x)
    if x.size and np.abs(x - xi).max() > 1e-3:
        raise Inconclusive(f"{what}: point not on the refinement lattice (cannot classify exactly)")
    return xi.astype(np.int64)


def canon_keys(Kint, Ms, Qc):
    """canonical representative (lexicographic minimum over the group, modulo the lattice) of every point"""
    if len(Kint) == 0:
        return []
    imgs = np.einsum("na,gab->ngb", Kint, Ms) % np.int64(Qc)
    order = np.lexsort((imgs[:, :, 2], imgs[:, :, 1], imgs[:, :, 0]), axis=-1)
    first = order[:, 0]
    rep = imgs[np.arange(len(Kint)), first]
    return [tuple(int(x) for x in r) for r in rep]


def box_fr(K, dK):
    lo = [Fraction(float(k)) - Fraction(float(d)) / 2 for k, d in zip(K, dK)]
    hi = [Fraction(float(k)) + Fraction(float(d)) / 2 for k, d in zip(K, dK)]
    return lo, hi


FTOL = Fraction(1, 10 ** 12)


def check_box_tiling(pK, pdK, pfac, plev, children, meff, bucket="divide"):
    """children boxes K +- dK/2 tile the parent box, weights add up, levels/dK as promised"""
    n = int(np.prod(meff))
    if len(children) != n:
        raise Violation(f"{bucket}:number-of-subcells", f"{len(children)} sub-cells for mesh {meff}")
    plo, phi = box_fr(pK, pdK)
    pvol = Fraction(1)
    for a in range(3):
        pvol *= (phi[a] - plo[a])
    boxes = []
    vol = Fraction(0)
    fsum = 0.0
    for c in children:
        if c.refinement_level != plev + 1:
            raise Violation(f"{bucket}:level", f"child level {c.refinement_level}, parent {plev}")
        if c.factor < 0:
            raise Violation(f"{bucket}:negative-weight", f"{c.factor}")
        lo, hi = box_fr(c.K, c.dK)
        v = Fraction(1)
        for a in range(3):
            if lo[a] < plo[a] - FTOL or hi[a] > phi[a] + FTOL:
                raise Violation(f"{bucket}:subcell-outside-parent",
                                f"axis {a}: child [{float(lo[a])},{float(hi[a])}] parent [{float(plo[a])},{float(phi[a])}]")
            if hi[a] - lo[a] <= FTOL:
                raise Violation(f"{bucket}:degenerate-subcell", f"axis {a} extent {float(hi[a] - lo[a])}")
            v *= (hi[a] - lo[a])
        vol += v
        fsum += c.factor
        boxes.append((lo, hi))
    if abs(vol - pvol) > FTOL * 10:
        raise Violation(f"{bucket}:volume", f"sub-cell volumes sum to {float(vol)}, parent cell {float(pvol)}")
    for i in range(n):
        for j in range(i):
            if all(min(boxes[i][1][a], boxes[j][1][a]) - max(boxes[i][0][a], boxes[j][0][a]) > FTOL for a in range(3)):
                raise Violation(f"{bucket}:subcells-overlap", f"children {j} and {i} overlap")
    if abs(fsum - pfac) > WTOL:
        raise Violation(f"{bucket}:weight", f"children carry {fsum}, parent had {pfac}")


def check_totals(K_list, where):
    fac = np.array([k.factor for k in K_list], dtype=float)
    if np.any(fac < 0):
        raise Violation("negative-weight", f"{where}: min factor {fac.min()}")
    if abs(fac.sum() - 1.0) > WTOL:
        raise Violation("total-weight", f"{where}: weights sum to {fac.sum()!r}")


def probe_cover(snap, Ms, Qfine, rng, nprobe, where):
    """W(q) = 1/|G| sum_g sum_K factor_K/vol_K [q M_g in cell_K] == 1 for probes strictly inside the finest cells"""
    alive = snap["fac"] > 0
    K = snap["K"][alive]
    dK = snap["dK"][alive]
    dens = snap["fac"][alive] / np.prod(dK, axis=1)
    lo = K - dK / 2
    Qf = np.array(Qfine, dtype=np.int64)
    r = np.array([rng.integers(0, 2 * q, size=nprobe) for q in Qf]).T          # (nprobe,3)
    qint = 2 * r + 1                                                            # odd numerators over 4*Qfine
    W = np.zeros(nprobe)
    den = 4 * Qf
    for M in Ms:
        # signed permutation (checked by the caller) or identity: image numerators stay odd over the same denominators
        img = np.zeros_like(qint)
        for a in range(3):
            for b in range(3):
                if M[a, b] != 0:
                    img[:, b] = (int(M[a, b]) * qint[:, a]) % den[b]
        p = img / den[None, :].astype(float)
        rel = (p[:, None, :] - lo[None, :, :]) % 1.0
        inside = np.all(rel < dK[None, :, :], axis=2)
        W += inside @ dens
    W /= len(Ms)
    if np.abs(W - 1).max() > 1e-9:
        i = int(np.argmax(np.abs(W - 1)))
        raise Violation("cells-do-not-cover", f"{where}: weighted cover of probe {(qint[i] / den).tolist()} is {W[i]!r}")


def is_signed_perm(M):
    A = np.abs(M)
    return bool(np.all(A.sum(axis=0) == 1) and np.all(A.sum(axis=1) == 1))


# ------------------------------------------------------------------------------------------------
# the history interpreter


def check_history(case):
    from wannierberri.grid import Grid
    from wannierberri.grid.Kpoint import KpointBZparallel, exclude_equiv_points
    from wannierberri.symmetry.point_symmetry import PointSymmetry

    lat = case["lat"]
    L, B, cart, Ms_full = k_group(lat, case["gens"])
    Ident = np.eye(3, dtype=np.int64)[None]
    nonper = bool(case["nonperiodic_z"]) and all(M[2, a] == 0 == M[a, 2] for M in Ms_full for a in (0, 1))
    periodic = (True, True, not nonper)
    grid_sym = bool(case["grid_sym"])
    Ms = Ms_full if grid_sym else Ident
    NKdiv = repair_grid(Ms_full, case["NKdiv"]) if grid_sym else [int(x) for x in case["NKdiv"]]
    NKFFT = repair_grid(Ms_full, case["NKFFT"]) if grid_sym else [int(x) for x in case["NKFFT"]]

    # ---- the real objects
    if case["as_string"] and lat.get("rot") is None and all(g["name"] in WB_NAMES for g in case["gens"]):
        gen_in = [("TimeReversal*" if g["TR"] else "") + WB_NAMES[g["name"]] for g in case["gens"]]
        how = "gens=strings"
    else:
        gen_in = [PointSymmetry(R.copy(), TR=tr) for R, tr in cart]
        how = "gens=matrices"
    model = wbsys.Model(L, [[0.0, 0.0, 0.0]], [[0, 0, 0]], {"Ham": np.zeros((1, 1, 1), dtype=complex)})
    system = wbsys.to_system(model, periodic=periodic, pointgroup_gen=gen_in)
    if [bool(x) for x in system.periodic] != list(periodic):
        raise Violation("periodic", f"system.periodic={system.periodic}")
    grid = Grid(system, NKdiv=np.array(NKdiv), NKFFT=np.array(NKFFT), use_symmetry=grid_sym)
    div = [int(x) for x in grid.div]
    exp_div = [NKdiv[0], NKdiv[1], 1 if nonper else NKdiv[2]]
    exp_fft = [NKFFT[0], NKFFT[1], 1 if nonper else NKFFT[2]]
    if div != exp_div or [int(x) for x in grid.FFT] != exp_fft:
        raise Violation("grid-size", f"Grid has div={div} FFT={list(grid.FFT)}, requested {exp_div} {exp_fft}")
    N = int(np.prod(div))
    use0 = bool(case["use_symmetry0"])
    K_list = grid.get_K_list(use_symmetry=use0)

    # ---- effective meshes and the exact refinement lattice
    steps = []
    prod = [1, 1, 1]
    for stp in case["steps"]:
        m = mesh3(stp["mesh"] if stp["mesh"] is not None else case["mesh0"])
        meff = [m[a] if periodic[a] else 1 for a in range(3)]
        if max(prod[a] * meff[a] for a in range(3)) > MAXPROD:
            break
        prod = [prod[a] * meff[a] for a in range(3)]
        steps.append((stp, m, meff))
    Qax = [div[a] * prod[a] for a in range(3)]          # cell edges and centres are multiples of 1/(2 Qax)
    Qc = 1
    for a in range(3):
        Qc = lcm(Qc, 2 * Qax[a])
    rng = rng_of(case["rs"])

    # ---- invariant 1 + 2 on the initial list
    check_totals(K_list, "initial list")
    snap = snapshot(K_list)
    if np.any(snap["lev"] != 0):
        raise Violation("initial:level", "initial points must have refinement level 0")
    if maxabs(snap["dK"] - 1.0 / np.array(div)[None, :]) > 1e-15:
        raise Violation("initial:dK", "cell size of an initial point is not 1/NKdiv")
    for k in K_list:
        if not np.array_equal(np.asarray(k.NKFFT), np.array(exp_fft)):
            raise Violation("initial:NKFFT", f"{k.NKFFT}")
        if maxabs(np.asarray(k.Kp_fullBZ) - np.asarray(k.K) / np.array(exp_fft)) > 1e-15:
            raise Violation("initial:Kp_fullBZ", "K / NKFFT")
    nint = np.rint(snap["K"] * np.array(div)[None, :]).astype(np.int64)
    if maxabs(nint / np.array(div)[None, :] - snap["K"]) > 1e-12:
        raise Violation("initial:off-grid", "a retained K-point is not a grid point")
    G0 = Ms if use0 else Ident
    covered = {}
    Qd = lcm(lcm(div[0], div[1]), div[2])
    unit = np.array([Qd // d for d in div], dtype=np.int64)        # grid point n  <->  integer vector n*unit (mod Qd)
    for i in range(len(K_list)):
        # own orbit of the grid point: images under the integer matrices, modulo a reciprocal lattice vector
        orb = set()
        for M in G0:
            img = ((nint[i] * unit) @ M) % Qd
            if np.any(img % unit):
                raise Violation("initial:image-off-grid", f"image of grid point {nint[i].tolist()} is not a grid point")
            orb.add(tuple(int(x) for x in img // unit))
        for p in orb:
            if p in covered:
                raise Violation("initial:covered-twice",
                                f"grid point {p} is an image of retained points {covered[p]} and {i}")
            covered[p] = i
        if abs(snap["fac"][i] - len(orb) / N) > WTOL:
            raise Violation("initial:orbit-weight",
                            f"K={snap['K'][i].tolist()} has weight {snap['fac'][i]!r}, orbit size {len(orb)} of {N}")
    if len(covered) != N:
        raise Violation("initial:not-covered", f"{N - len(covered)} grid points are images of no retained point")

    # ---- refinement history
    for k in K_list:
        k.set_result(FakeResult("init"))
    nmerge = 0
    nsteps = 0
    sym_ever = use0
    dead_picked = False
    absorbed_by_dead = False
    meshes_seen = set()
    for istep, (stp, m, meff) in enumerate(steps):
        us = bool(stp["use_symmetry"])
        sym_ever = sym_ever or us
        meshes_seen.add(tuple(meff))
        before = snapshot(K_list)
        cand = list(range(len(K_list))) if stp["include_dead"] else [i for i in range(len(K_list)) if before["fac"][i] > 0]
        sel = sorted({cand[min(len(cand) - 1, int(f * len(cand)))] for f in stp["pick"]})
        l1 = len(K_list)
        raw_all = []            # (K, dK, factor, level) of all sub-cells before any merging
        added = []
        for iK in sel:
            parent = K_list[iK]
            pK, pdK, pf, plev = before["K"][iK], before["dK"][iK], float(before["fac"][iK]), int(before["lev"][iK])
            if pf == 0:
                dead_picked = True
            if us:
                clone = KpointBZparallel(K=pK.copy(), dK=pdK.copy(), NKFFT=np.array(parent.NKFFT), factor=pf,
                                         pointgroup=parent.pointgroup, refinement_level=plev)
                raw = clone.divide(ndiv=np.array(m), periodic=system.periodic, use_symmetry=False)
            children = parent.divide(ndiv=np.array(m), periodic=system.periodic, use_symmetry=us)
            if not us:
                raw = children
            if parent.factor != 0:
                raise Violation("divide:parent-keeps-weight", f"refined point keeps factor {parent.factor}")
            check_box_tiling(pK, pdK, pf, plev, raw, meff)
            for c in raw:
                if maxabs(np.asarray(c.dK) * np.array(meff) - pdK) > 1e-15:
                    raise Violation("divide:dK", f"child dK {c.dK} parent {pdK} mesh {meff}")
            rawK = np.array([c.K for c in raw]).reshape(-1, 3)
            rawf = np.array([c.factor for c in raw], dtype=float)
            raw_all.append((rawK, rawf, plev + 1))
            if us:
                # merged children == one representative per equivalence class of the raw children, class weight kept
                keys_raw = canon_keys(to_int(rawK, Qc, "sub-cell"), Ms, Qc)
                cls = {}
                for kk, f in zip(keys_raw, rawf):
                    cls[kk] = cls.get(kk, 0.0) + f
                keys_ch = canon_keys(to_int(np.array([c.K for c in children]).reshape(-1, 3), Qc, "child"), Ms, Qc)
                if len(set(keys_ch)) != len(keys_ch):
                    raise Violation("divide:equivalent-children-left", "two returned sub-cells are symmetry equivalent")
                if set(keys_ch) != set(cls):
                    raise Violation("divide:class-lost", f"{len(cls)} classes of sub-cells, {len(set(keys_ch))} returned")
                for c, kk in zip(children, keys_ch):
                    if abs(c.factor - cls[kk]) > 1e-13:
                        raise Violation("divide:class-weight", f"class weight {cls[kk]!r}, representative has {c.factor!r}")
                    if not any(maxabs(np.asarray(c.K) - rk) <= 1e-12 for rk in rawK):
                        raise Violation("divide:child-not-a-subcell", f"{c.K}")
                nmerge += len(raw) - len(children)
            added += children
            K_list += children
        nnew = len(K_list) - l1
        mid = snapshot(K_list)
        if us:
            exclude_equiv_points(K_list, new_points=nnew)
        after = snapshot(K_list)
        nsteps += 1
        where = f"step {istep}"
        check_totals(K_list, where)
        # old points stay, in place, untouched except for their weight
        if after["objs"][:l1] != before["objs"]:
            raise Violation("refine:old-point-removed", f"{where}: the first {l1} entries of the list changed identity")
        if (maxabs(after["K"][:l1] - before["K"]) > 0 or maxabs(after["dK"][:l1] - before["dK"]) > 0 or
                np.any(after["lev"][:l1] != before["lev"])):
            raise Violation("refine:old-point-modified", where)
        if after["res"][:l1] != before["res"]:
            raise Violation("refine:old-result-replaced", where)
        for i in range(l1):
            if i not in sel and after["fac"][i] < before["fac"][i] - 1e-15:
                raise Violation("refine:old-weight-decreased", f"{where}: point {i} {before['fac'][i]} -> {after['fac'][i]}")
        # survivors among the new points are a subsequence of the produced children
        it = iter(mid["objs"][l1:])
        if not all(any(o is x for x in it) for o in after["objs"][l1:]):
            raise Violation("refine:new-points-reordered", where)
        if not us and len(K_list) != l1 + nnew:
            raise Violation("refine:points-removed-without-symmetry", where)
        if any(k.result is not None for k in K_list[l1:]):
            raise Violation("refine:new-point-has-result", where)
        # class conservation: per (level, orbit) the weight is what the old points had + what the sub-cells brought
        kint_after = to_int(after["K"], Qc, "K-point")
        keys_after = canon_keys(kint_after, Ms, Qc)
        got = {}
        for kk, lv, f in zip(keys_after, after["lev"], after["fac"]):
            got[(int(lv), kk)] = got.get((int(lv), kk), 0.0) + f
        exp = {}
        keys_before = keys_after[:l1]          # old points did not move (checked above)
        for i in range(l1):
            if i not in sel:
                key = (int(before["lev"][i]), keys_before[i])
                exp[key] = exp.get(key, 0.0) + before["fac"][i]
            else:
                exp.setdefault((int(before["lev"][i]), keys_before[i]), 0.0)
        for rawK, rawf, lv in raw_all:
            for kk, f in zip(canon_keys(to_int(rawK, Qc, "sub-cell"), Ms, Qc), rawf):
                exp[(lv, kk)] = exp.get((lv, kk), 0.0) + f
        for key in set(exp) | set(got):
            if abs(exp.get(key, 0.0) - got.get(key, 0.0)) > 1e-13:
                raise Violation("refine:class-weight-not-conserved",
                                f"{where}: level {key[0]} orbit of {np.array(key[1]) / Qc}: expected "
                                f"{exp.get(key, 0.0)!r} found {got.get(key, 0.0)!r}")
        surv_ids = {id(o) for o in after["objs"]}
        removed = [j for j in range(l1, len(mid["objs"])) if id(mid["objs"][j]) not in surv_ids]
        if us:
            count = {}
            for kk, lv in zip(keys_after, after["lev"]):
                count[(int(lv), kk)] = count.get((int(lv), kk), 0) + 1
            for j in range(l1, len(K_list)):
                if count[(int(after["lev"][j]), keys_after[j])] > 1:
                    raise Violation("refine:equivalent-new-point-left",
                                    f"{where}: new point {after['K'][j].tolist()} (level {after['lev'][j]}) is equivalent "
                                    f"to another point of the same level in the list")
            if removed:
                kr = canon_keys(to_int(mid["K"][removed], Qc, "removed point"), Ms, Qc)
                for j, kk in zip(removed, kr):
                    if (int(mid["lev"][j]), kk) not in count:
                        raise Violation("refine:removed-without-equivalent",
                                        f"{where}: removed point {mid['K'][j].tolist()} level {mid['lev'][j]} has no "
                                        f"equivalent point of its level left")
            nmerge += len(removed)
            for i in range(l1):
                if before["fac"][i] == 0 and i not in sel and after["fac"][i] > 0:
                    absorbed_by_dead = True
        for k in K_list:
            if not k.was_evaluated_flag:
                k.set_result(FakeResult(istep))

    # ---- invariant 5: geometric cover at the end of the history (and of the initial list when there are no steps)
    final = snapshot(K_list)
    geom = None
    Qfine = Qax
    if not sym_ever:
        probe_cover(final, Ident, Qfine, rng, 120, "end")
        geom = "geom=plain-partition"
    else:
        okperm = all(is_signed_perm(M) for M in Ms)
        same = all(div[a] == div[b] and all(me[a] == me[b] for me in meshes_seen)
                   for M in Ms for a in range(3) for b in range(3) if a != b and M[a, b] != 0)
        if okperm and same and len(meshes_seen) <= 1:
            probe_cover(final, Ms, Qfine, rng, 60 if len(final["K"]) > 400 else 120, "end")
            geom = "geom=group-averaged"
        else:
            geom = "geom=not-applicable"
    order = len(Ms)
    nt = (order > 1 and nmerge > 0 and nsteps > 0) or nsteps >= 2
    return ok(nt, lat["kind"], f"k-group-order={order}", how, geom, f"steps={nsteps}", f"merges={min(nmerge, 3)}+" if nmerge >= 3
              else f"merges={nmerge}", "init-symmetry" if use0 else "init-full", "nonperiodic-z" if nonper else None,
              "dead-point-refined" if dead_picked else None, "dead-point-absorbed-new" if absorbed_by_dead else None,
              "mesh-changes" if len(meshes_seen) > 1 else None,
              "mesh-anisotropic" if any(len(set(me)) > 1 for me in meshes_seen) else None,
              "rotated-frame" if lat.get("rot") is not None else None, "grid-without-symmetry" if not grid_sym else None,
              f"npoints<={10 ** len(str(len(K_list)))}", "depth-capped" if len(steps) < len(case["steps"]) else None,
              f"maxlevel={int(final['lev'].max())}")


# ------------------------------------------------------------------------------------------------
# tetrahedral grids

KUHN6 = [[[0, 0, 0], [1, 0, 0], [1, 1, 0], [1, 1, 1]], [[0, 0, 0], [1, 0, 0], [1, 0, 1], [1, 1, 1]],
         [[0, 0, 0], [0, 1, 0], [1, 1, 0], [1, 1, 1]], [[0, 0, 0], [0, 1, 0], [0, 1, 1], [1, 1, 1]],
         [[0, 0, 0], [0, 0, 1], [1, 0, 1], [1, 1, 1]], [[0, 0, 0], [0, 0, 1], [0, 1, 1], [1, 1, 1]]]
FIVE = [[[0, 0, 0], [1, 0, 0], [0, 1, 0], [0, 0, 1]], [[1, 0, 1], [0, 0, 1], [1, 0, 0], [1, 1, 1]],
        [[1, 1, 0], [1, 0, 0], [0, 1, 0], [1, 1, 1]], [[0, 1, 1], [0, 0, 1], [0, 1, 0], [1, 1, 1]],
        [[0, 0, 1], [0, 1, 0], [1, 0, 0], [1, 1, 1]]]

_tdiv = st.fixed_dictionaries(dict(pick=_pick, ndiv=st.sampled_from([2, 2, 3, 4]), as_array=st.booleans(),
                                   include_dead=st.sampled_from([False, False, False, True])))


MAX_BISECTIONS = 40000


@st.composite
def tetra_case_st(draw):
    start = draw(st.sampled_from(["default", "default", "trigonal", "kuhn", "five"]))
    if start == "trigonal":
        lat = draw(wbsys.lattice_st(kinds=["hexagonal", "hexagonal60"]))
    else:
        lat = draw(wbsys.lattice_st(kinds=["sc", "fcc", "bcc", "tetragonal", "orthorhombic", "hexagonal", "monoclinic",
                                           "triclinic", "rhombohedral"]))
    d = dict(lat=lat, start=start, NKFFT=draw(st.lists(st.integers(1, 3), min_size=3, max_size=3)),
             target=draw(st.one_of(fl(0.2, 60.0), fl(5.0, 300.0))), by_volume=draw(st.booleans()), by_size=draw(st.sampled_from([False, False, True])),
             size_factor=draw(st.sampled_from([None, 0.25, 0.4])),
             divides=draw(st.lists(_tdiv, min_size=0, max_size=6)), rs=draw(st.integers(0, 2 ** 32)),
             # left-handed cell (third lattice vector reversed): nothing in the documentation restricts the handedness
             mirror=(start != "trigonal") and draw(st.sampled_from([False, False, True])))
    if start in ("kuhn", "five"):
        n = 6 if start == "kuhn" else 5
        d["subset"] = draw(st.lists(st.integers(0, n - 1), min_size=1, max_size=n, unique=True))
        d["perm"] = draw(st.permutations([0, 1, 2, 3]))
        d["shift"] = draw(st.sampled_from([0.0, -0.5, 0.25]))
        d["weights"] = draw(st.one_of(st.none(), st.lists(st.sampled_from([1.0, 2.0, 12.0, 0.5]), min_size=len(d["subset"]),
                                                          max_size=len(d["subset"]))))
    return d


def fr3(v):
    return [Fraction(float(x)) for x in v]


def det3(a, b, c):
    return (a[0] * (b[1] * c[2] - b[2] * c[1]) - a[1] * (b[0] * c[2] - b[2] * c[0]) + a[2] * (b[0] * c[1] - b[1] * c[0]))


def sub3(a, b):
    return [a[0] - b[0], a[1] - b[1], a[2] - b[2]]


def vol6(V):
    """signed 6*volume of tetrahedron with Fraction vertices"""
    return det3(sub3(V[1], V[0]), sub3(V[2], V[0]), sub3(V[3], V[0]))


def bary(p, V, v6):
    out = []
    for i in range(4):
        W = list(V)
        W[i] = p
        out.append(vol6(W) / v6)
    return out


def abs_vertices(K):
    return np.asarray(K.K, dtype=float)[None, :] + np.asarray(K.vertices, dtype=float)


def np_vol(V):
    return abs(np.linalg.det(V[1:] - V[0][None, :])) / 6.0


def np_bary(P, V):
    """barycentric coordinates of points P (n,3) in tetrahedron V (4,3) -> (n,4)"""
    T = (V[1:] - V[0][None, :]).T
    lam = np.linalg.solve(T, (P - V[0][None, :]).T).T
    return np.concatenate((1 - lam.sum(axis=1, keepdims=True), lam), axis=1)


def tetra_cover(K_list, probes, dens_expected, where):
    """sum_K factor_K/vol_K [q in tetra_K] == expected density of the starting tetrahedron the probe was drawn in"""
    W = np.zeros(len(probes))
    strict = np.zeros(len(probes), dtype=int)
    loose = np.zeros(len(probes), dtype=int)
    for k in K_list:
        V = abs_vertices(k)
        v = np_vol(V)
        if v <= 0:
            raise Violation("tetra:degenerate", f"{where}: tetrahedron of zero volume in the list")
        lam = np_bary(probes, V).min(axis=1)
        ins = lam > 1e-9
        W += ins * (k.factor / v)
        if k.factor > 0:
            strict += ins
            loose += lam > -1e-9
    amb = strict != loose          # probe on a face (measure zero, can happen after bisection): skip it
    bad = (~amb) & (np.abs(W - dens_expected) > 1e-9 * (1 + np.abs(dens_expected)))
    if np.any(bad):
        i = int(np.argmax(bad))
        raise Violation("tetra:cover", f"{where}: probe {probes[i].tolist()} lies in {strict[i]} live tetrahedra, weighted "
                                       f"density {W[i]!r}, expected {dens_expected[i]!r}")
    return int(amb.sum())


def check_tetra_divide(parent_V, parent_f, children, ndiv, rng):
    PV = [fr3(v) for v in parent_V]
    p6 = vol6(PV)
    if p6 == 0:
        raise RuntimeError("harness: degenerate parent")
    if len(children) != ndiv:
        raise Violation("tetra-divide:number", f"{len(children)} children for ndiv={ndiv}")
    tot = Fraction(0)
    CV = []
    fsum = 0.0
    for c in children:
        V = [fr3(v) for v in abs_vertices(c)]
        c6 = vol6(V)
        if abs(c6) <= abs(p6) * Fraction(1, 10 ** 9):
            raise Violation("tetra-divide:degenerate-child", f"volume {float(c6) / 6}")
        for v in V:
            if min(bary(v, PV, p6)) < -FTOL:
                raise Violation("tetra-divide:child-outside-parent", f"vertex {[float(x) for x in v]}")
        tot += abs(c6)
        CV.append((V, c6))
        fsum += c.factor
        if c.factor < 0:
            raise Violation("tetra-divide:negative-weight", f"{c.factor}")
    if abs(tot - abs(p6)) > abs(p6) * Fraction(1, 10 ** 11):
        raise Violation("tetra-divide:volume", f"children {float(tot) / 6} parent {float(abs(p6)) / 6}")
    if abs(fsum - parent_f) > WTOL:
        raise Violation("tetra-divide:weight", f"children carry {fsum!r}, parent had {parent_f!r}")
    # interiors are disjoint and the union is the parent: rational probes
    for _ in range(8):
        w = [Fraction(int(x), 1) for x in rng.integers(1, 50, size=4)]
        s = sum(w)
        p = [sum(w[i] * PV[i][a] for i in range(4)) / s for a in range(3)]
        inside = [min(bary(p, V, c6)) for V, c6 in CV]
        if any(abs(x) <= FTOL for x in inside):
            continue
        n = sum(1 for x in inside if x > 0)
        if n != 1:
            raise Violation("tetra-divide:not-a-tiling", f"interior point of the parent lies in {n} children")


def check_tetra(case):
    from wannierberri.grid import GridTetra, GridTrigonal
    L = wbsys.lattice_matrix(case["lat"])
    if case.get("mirror"):
        L[2] = -L[2]
    B = 2 * np.pi * np.linalg.inv(L).T
    model = wbsys.Model(L, [[0.0, 0.0, 0.0]], [[0, 0, 0]], {"Ham": np.zeros((1, 1, 1), dtype=complex)})
    system = wbsys.to_system(model)
    FFT = [int(x) for x in case["NKFFT"]]
    Bred = B / np.array(FFT)[:, None]
    # `length` from a target number of tetrahedra: vmax = (2 pi/length)^3 / det(Bred)
    # (factor 1.0137: keeps vmax away from the exact values vol0/2^k -- see the tie guard below)
    length = 2 * np.pi * (case["target"] * 1.0137 / abs(np.linalg.det(Bred))) ** (1.0 / 3)
    kw = dict(NKFFT=np.array(FFT), refine_by_volume=bool(case["by_volume"]), refine_by_size=bool(case["by_size"]))
    if case["size_factor"] is not None:
        kw["length_size"] = case["size_factor"] * length
    start = case["start"]
    weights = None
    # threshold ties: split_tetra_volume stops when max(volume) < vmax but splits only volumes > vmax, so a volume that
    # is *exactly* vmax makes it loop forever (observed; a measure-zero tie, recorded in the report, not asserted).
    # Bisection halves volumes, so the tie is predictable: skip cases where vmax*2^k is within 1e-9 of a starting volume.
    vmax = (2 * np.pi / length) ** 3 / abs(np.linalg.det(Bred))
    if case["by_volume"]:
        if start == "trigonal":
            v0s = [1.0 / 36, 1.0 / 36, 1.0 / 36]
        elif start == "default":
            v0s = [1.0 / 6, 1.0 / 3]
        else:
            v0s = [1.0 / 6, 1.0 / 3]
        for v0 in v0s:
            r = np.log2(v0 / vmax)
            if r > -1 and abs(r - np.rint(r)) < 1e-8:
                raise Inconclusive("volume threshold tie")
    # construction must terminate: every bisection halves a volume, so the number of divide() calls is bounded by the
    # number of tetrahedra that can exist above the thresholds; a construction that exceeds a bound three orders of
    # magnitude above anything the generator asks for is reported as non-terminating (deterministic, no wall clock)
    from wannierberri.grid.Kpoint_tetra import KpointBZtetra
    orig_divide = KpointBZtetra.divide
    ncalls = [0]

    class _Runaway(BaseException):
        pass

    def counted_divide(self, *a, **k):
        ncalls[0] += 1
        if ncalls[0] > MAX_BISECTIONS:
            raise _Runaway()
        return orig_divide(self, *a, **k)

    KpointBZtetra.divide = counted_divide
    try:
        if start == "default":
            grid = GridTetra(system, length, **kw)
            T0 = np.array(FIVE, dtype=float) - 0.5
        elif start == "trigonal":
            grid = GridTrigonal(system, length, **kw)
            T0 = None
        else:
            base = np.array(KUHN6 if start == "kuhn" else FIVE, dtype=float)
            T0 = base[case["subset"]][:, case["perm"], :] + case["shift"]
            weights = case.get("weights")
            grid = GridTetra(system, length, IBZ_tetra=T0.copy(), weights=None if weights is None else list(weights), **kw)
    except _Runaway:
        raise Violation("tetra:construction-does-not-terminate",
                        f"more than {MAX_BISECTIONS} bisections while building the grid (target {case['target']:.1f} tetrahedra, "
                        f"det(lattice)={np.linalg.det(L):.3f}, start={start})")
    finally:
        KpointBZtetra.divide = orig_divide
    K_list = grid.get_K_list()
    snapshot0 = [(np.array(K.K, copy=True), np.array(K.vertices, copy=True), float(K.factor), int(K.refinement_level))
                 for K in K_list]
    if not np.array_equal(np.asarray(grid.FFT), np.array(FFT)):
        raise Violation("tetra:NKFFT", f"{grid.FFT} requested {FFT}")
    rng = rng_of(case["rs"])
    # starting tetrahedra as the harness knows them (trigonal wedge: re-derived from the list itself is not possible,
    # so its three tetrahedra are written here from the documented wedge Gamma-K-K'-A.. in the 120/60 degree settings)
    if T0 is None:
        T0 = np.array([[[0, 0, 0], [1 / 3, 2 / 3, 0.0], [2 / 3, 1 / 3, 0.0], [1 / 3, 2 / 3, 0.5]],
                       [[0, 0, 0], [2 / 3, 1 / 3, 0.5], [2 / 3, 1 / 3, 0.0], [1 / 3, 2 / 3, 0.5]],
                       [[0, 0, 0], [2 / 3, 1 / 3, 0.5], [0, 0, 0.5], [1 / 3, 2 / 3, 0.5]]])
        b1, b2 = B[0], B[1]
        ang = np.degrees(np.arccos(b1 @ b2 / np.linalg.norm(b1) / np.linalg.norm(b2)))
        if abs(ang - 60) < 1e-6:
            T0[:, :, 0] = T0[:, :, 0] - T0[:, :, 1]
    vol0 = np.array([np_vol(t) for t in T0])
    if weights is None:
        dens0 = np.full(len(T0), 1.0 / vol0.sum())
        total = 1.0
    else:
        dens0 = np.array(weights, dtype=float)
        total = float((dens0 * vol0).sum())
    # probes: random interior points of each starting tetrahedron
    P = []
    D = []
    for t, d in zip(T0, dens0):
        w = rng.uniform(0.05, 1.0, size=(12, 4))
        w /= w.sum(axis=1, keepdims=True)
        P.append(w @ t)
        D += [d] * 12
    P = np.concatenate(P)
    D = np.array(D)

    def totals(where):
        f = np.array([k.factor for k in K_list], dtype=float)
        if np.any(f < 0):
            raise Violation("tetra:negative-weight", where)
        if abs(f.sum() - total) > WTOL * max(1, total):
            raise Violation("tetra:total-weight", f"{where}: {f.sum()!r} expected {total!r}")
        v = sum(np_vol(abs_vertices(k)) for k in K_list if k.factor > 0)
        if abs(v - vol0.sum()) > 1e-12 * max(1, vol0.sum()):
            raise Violation("tetra:total-volume", f"{where}: live tetrahedra fill {v!r}, starting set {vol0.sum()!r}")
    n_start = len(K_list)
    totals("after construction")
    if start == "default" and abs(vol0.sum() - 1) > 1e-15:
        raise RuntimeError("harness: 5-tetra cell")
    amb = tetra_cover(K_list, P, D, "after construction")
    for k in K_list:
        if maxabs(np.asarray(k.basis) - Bred) > 1e-12 * maxabs(Bred):
            raise Violation("tetra:basis", "basis of a tetrahedron is not recip_lattice/NKFFT")
    ndiv_done = 0
    for idv, dv in enumerate(case["divides"]):
        cand = list(range(len(K_list))) if dv["include_dead"] else [i for i, k in enumerate(K_list) if k.factor > 0]
        i = cand[min(len(cand) - 1, int(dv["pick"] * len(cand)))]
        parent = K_list[i]
        pV = abs_vertices(parent).copy()
        pf = float(parent.factor)
        lev = parent.refinement_level
        nd = int(dv["ndiv"])
        children = parent.divide(ndiv=np.array([nd] * 3) if dv["as_array"] else nd, periodic=system.periodic,
                                 use_symmetry=True)
        if parent.factor != 0:
            raise Violation("tetra-divide:parent-keeps-weight", f"{parent.factor}")
        check_tetra_divide(pV, pf, children, nd, rng)
        for c in children:
            if c.refinement_level != lev + 1:
                raise Violation("tetra-divide:level", f"{c.refinement_level} parent {lev}")
        K_list += children
        ndiv_done += 1
        totals(f"divide {idv}")
    if ndiv_done:
        amb += tetra_cover(K_list, P, D, "after divides")
    if len(K_list) > 4000:
        raise RuntimeError("harness: tetra case too large")
    # the grid object must hand out the same starting list again (a second run() on the same grid, after the first
    # one has refined its own list): same tetrahedra, same weights, unrefined
    K_again = grid.get_K_list()
    if len(K_again) != len(snapshot0):
        raise Violation("tetra:second-K-list", f"second get_K_list() returns {len(K_again)} tetrahedra, first {len(snapshot0)}")
    for K, (k0, v0, f0, l0) in zip(K_again, snapshot0):
        if (np.max(np.abs(np.asarray(K.K) - k0)) > 0 or np.max(np.abs(np.asarray(K.vertices) - v0)) > 0
                or float(K.factor) != f0 or int(K.refinement_level) != l0 or K.was_evaluated_flag):
            raise Violation("tetra:second-K-list", f"second get_K_list() on the same grid differs from the first after "
                                                   f"{ndiv_done} divisions: factor {K.factor} vs {f0}")
    return ok(n_start > len(T0) or ndiv_done > 0, start, case["lat"]["kind"], f"start-count<={10 ** len(str(n_start))}",
              f"divides={ndiv_done}", "split-at-construction" if n_start > len(T0) else None,
              "left-handed" if case.get("mirror") else None, f"bisections<=10^{len(str(ncalls[0]))}",
              "weights-given" if weights is not None else None, "by_volume" if case["by_volume"] else None,
              "by_size" if case["by_size"] else None, "probe-on-face" if amb else None,
              "subset" if start in ("kuhn", "five") and len(case["subset"]) < (6 if start == "kuhn" else 5) else None)


# ---- exhaustive sweep over long grids -------------------------------------------------------------------------
# The number of K-points along one axis is a finite domain: every NKdiv in 1..400 along a drawn axis (block of 25
# every case enumerates all of them for its drawn axis) must give exactly NKdiv K-points
# i/NKdiv with weight 1/prod(NKdiv) each (no symmetry), summing to one.
sweep_st = st.fixed_dictionaries(dict(axis=st.integers(0, 2), other=st.sampled_from([1, 2, 3]),
                                      fft=st.sampled_from([1, 2, 3])))
SWEEP_MAX = 400


def check_sweep(case):
    import wannierberri as wb
    ax = case["axis"]
    for n in range(1, SWEEP_MAX + 1):      # complete enumeration of the axis length (finite domain)
        div = [case["other"] if n <= 40 else 1] * 3
        div[ax] = n
        grid = wb.Grid(_sweep_system(), NKdiv=np.array(div), NKFFT=case["fft"], use_symmetry=False)
        K = grid.get_K_list(use_symmetry=False)
        N = int(np.prod(div))
        if len(K) != N:
            raise Violation("sweep:number-of-K-points", f"NKdiv={div}: {len(K)} K-points instead of {N}")
        tot = sum(k.factor for k in K)
        if abs(tot - 1) > 1e-9:
            raise Violation("sweep:total-weight", f"NKdiv={div}: weights sum to {tot!r}")
        seen = set()
        for k in K:
            idx = tuple(int(round(float(x) * d)) for x, d in zip(k.K, div))
            kk = np.array(idx) / np.array(div)
            if (np.max(np.abs(np.asarray(k.K) - kk)) > 1e-12 or np.max(np.abs(k.Kp_fullBZ - kk / case["fft"])) > 1e-12
                    or idx in seen or not all(0 <= i < d for i, d in zip(idx, div))):
                raise Violation("sweep:K-point-position", f"NKdiv={div}: K-point {k.K} is not a distinct grid point")
            seen.add(idx)
    return ok(True, f"axis={ax}", f"other={case['other']}", f"fft={case['fft']}", f"NKdiv=1..{SWEEP_MAX}-exhaustive")


_SWEEP_SYS = []


def _sweep_system():
    if not _SWEEP_SYS:
        m = wbsys.Model(np.diag([1.0, 1.3, 0.8]), np.zeros((1, 3)), np.zeros((1, 3), dtype=int),
                        {"Ham": np.zeros((1, 1, 1), dtype=complex)})
        _SWEEP_SYS.append(wbsys.to_system(m))
    return _SWEEP_SYS[0]


SUBS = [
    Sub("sweep", sweep_st, check_sweep, quick=8, thorough=27, budget_quick=60, budget_thorough=120, per_shard_min=1),
    Sub("history", history_st(), check_history, quick=480, thorough=19200, budget_quick=60, budget_thorough=360),
    Sub("tetra", tetra_case_st(), check_tetra, quick=240, thorough=8000, budget_quick=60, budget_thorough=200),
    # the same invariants on the weights that run() itself keeps, through refinements and restarts (vlib/c06run.py)
    Sub("run", c06run.run_st, c06run.check_run, quick=32, thorough=400, budget_quick=60, budget_thorough=300),
]
