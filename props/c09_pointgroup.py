"""C09  Point-group operations form a group acting on tensors  (DESIGN 4/C09)

Reference model (vlib/pgroup.py, no wannierberri code): every generator is an orthogonal matrix O (x optional time
reversal); in the basis of a compatible lattice it is an *integer* matrix M = L O^T L^-1, so the generated group is
obtained by an exact closure over (integer matrix, TR flag) pairs.  Its order is checked against the textbook
order for 38 named generator sets (self-check of the oracle) and is what PointGroup must reproduce.
Orbits of rational k-points are computed exactly in fractions.Fraction; tensors are transformed with an explicit
einsum over all tensor indices.

Subs
  group   : PointGroup(generators, lattice) vs exact closure: order, element set, code-level closure / identity /
            inverses through PointSymmetry.__mul__/__eq__, lattice invariance (check_basis_symmetry, integer
            transform_reduced_vector), star(k) vs exact orbit, symmetric_grid(nk) vs exact integer criterion,
            as_dict round trip.
  tensor  : transform_tensor vs explicit einsum for every element; action law T_g1 T_g2 = T_(g1*g2);
            symmetrize_tensor vs explicit group average, idempotence, invariance of the output, fixed points;
            PointGroup.symmetrize(EnergyResult).
  lattice : generator sets combined with lattices of *any* family; an incompatible lattice (own integer test
            fails by > 1e-4) must be rejected by the constructor's assertion (counted as rejected_by_code).
"""
import numpy as np
from hypothesis import strategies as st

from vlib.runner import Sub, Violation, Reject, Inconclusive, ok
from vlib.util import rng_of, crandom, reldiff
from vlib import pgroup

PROPERTY_ID = "C09"
RULE = ("generator sets = 38 textbook sets (all crystal families, grey and black-white magnetic groups, orders 2..96) "
        "or 0-4 random operations (C2/C3/C4/C6 rotations, rotoinversions, mirrors, inversion, each optionally x "
        "TimeReversal) of one crystal family; each generator given as PointSymmetry(matrix,TR), Rotation/Mirror "
        "objects or strings ('C4z', 'TimeReversal*C2x', 'Mz'); lattice of a compatible Bravais type (real or reciprocal "
        "input, or none), optional global rotation of lattice+generators (never with strings); tensors rank 0-4 with "
        "0-2 leading axes, real/complex, Transforms with factor/conj/transpose_axes/swap_axes; k-points rational "
        "(special and generic). non-trivial = group non-abelian or containing TR-combined elements (sub group); "
        "additionally rank>=2 (sub tensor); distinct = distinct generated case")
ASSUMPTIONS = [
    "equal to rounding = 1e-11 relative (reldiff of DESIGN 2.3) for tensor identities, 1e-9 for integer-valuedness",
    "action law / projection clauses asserted only when transformTR and transformInv are involutive and commute "
    "(always true for the transforms used inside wannierberri); single transform_tensor calls are compared with the "
    "explicit einsum for every Transform",
    "k-points are rational (denominators <= 1000, or special point + m*1e-5), so distinct images differ by >= 1e-5 = 10 x SYMMETRY_PRECISION (no ties)",
    "a lattice counts as incompatible only if a generator's lattice-basis matrix is > 1e-4 from integers (code tolerance "
    "1e-6); between 1e-9 and 1e-4 the case is inconclusive (tie)",
    "rank-0 data without a leading axis (0-d arrays) are not generated: Transform.__call__ indexes res[:] (the code's own "
    "gen_symmetric_tensor does not support them either)",
    "incompatible lattices are only passed as real_lattice (the constructor checks nothing for recip_lattice input)",
]
MIN_NONTRIVIAL = {"quick": 50, "thorough": 500}
TOL = 1e-11
ITOL = 1e-9

# ------------------------------------------------------------------------------------------------


def _elements_of(g):
    """(full orthogonal matrix, TR) of every element of the code's group"""
    out = []
    for s in g.symmetries:
        R = np.array(s.R, dtype=float)
        if abs(np.linalg.det(R) - 1) > 1e-9 or np.abs(R @ R.T - np.eye(3)).max() > 1e-9:
            raise Violation("proper-part", f"PointSymmetry.R is not a proper rotation: det={np.linalg.det(R)}")
        if s.iInv != (-1 if s.Inv else 1) or s.iTR != (-1 if s.TR else 1):
            raise Violation("flags", "iInv/iTR inconsistent with Inv/TR")
        out.append((R * s.iInv, bool(s.TR)))
    return out


def _key(ref, Ofull, tr, L, what):
    M, dev = pgroup.int_rep(Ofull, L)
    if dev > ITOL:
        raise Violation("lattice-not-invariant", f"{what}: lattice-basis matrix is {dev:.2e} away from integers")
    return ref.key_of(M, tr)


def _make_group(spec, L, Rg, latmode, dup=None):
    from wannierberri.symmetry.point_symmetry import PointGroup
    gens, used = pgroup.build_wb_generators(spec, Rg)
    # every generator, in whatever form it is written, must denote the intended operation
    from wannierberri.symmetry import point_symmetry as ps
    fulls, trs = pgroup.reference_generators(spec, Rg)
    for gi, (gen, Of, tr) in enumerate(zip(gens, fulls, trs)):
        sym = gen if isinstance(gen, ps.PointSymmetry) else ps.from_string_prod(gen)
        if np.abs(np.array(sym.R) * sym.iInv - Of).max() > 1e-12 or bool(sym.TR) != bool(tr):
            raise Violation("generator-meaning", f"generator {gi} ({gen if isinstance(gen, str) else used[gi]}) is not the "
                                                 f"operation it denotes")
    if dup is not None and spec["gens"]:
        # the same operation given a second time (possibly written differently, e.g. 'Mx' and 'C2x*Inversion')
        op = spec["gens"][dup["idx"] % len(spec["gens"])]
        g2, f2 = pgroup.wb_symmetry(op, dup["form"], Rg, dup["flip"])
        gens.insert(dup["pos"] % (len(gens) + 1), g2)
        used.append(f2)
    kw = {}
    if latmode == "real":
        kw["real_lattice"] = L.copy()
    elif latmode == "recip":
        kw["recip_lattice"] = 2 * np.pi * np.linalg.inv(L).T
    return PointGroup(gens, **kw), used


def _labels(spec, ref, used):
    o = ref.order
    return [spec["family"], "order=" + ("1" if o == 1 else "2-4" if o <= 4 else "6-12" if o <= 12 else "16-24" if
                                       o <= 24 else "32-96"),
            "magnetic" if ref.magnetic else "nonmagnetic", "abelian" if ref.abelian else "nonabelian",
            "preset" if spec["preset"] else "random-gens", "rotated-frame" if spec["grot"] else None] + \
           ["form=" + f for f in sorted(set(used))]


group_case = st.fixed_dictionaries(dict(
    spec=pgroup.groupspec_st(),
    latmode=st.sampled_from(["real", "real", "recip", "none"]),
    k=pgroup.kfrac_st(),
    nk=st.lists(st.sampled_from([1, 2, 3, 4, 5, 6, 8, 9, 12]), min_size=3, max_size=3),
    nk_equal=st.booleans(),
    dup=st.fixed_dictionaries(dict(on=st.integers(0, 2 ** 16).map(lambda v: v % 10 == 3), idx=st.integers(0, 3),
                                   pos=st.integers(0, 4), form=st.sampled_from(["str", "obj", "sym"]), flip=st.booleans())),
    rs=st.integers(0, 2 ** 32),
))


def check_group(case):
    from wannierberri.symmetry import point_symmetry as ps
    spec = case["spec"]
    L, Rg, ref, dev = pgroup.build_reference(spec)
    if ref is None:
        raise RuntimeError("harness: compatible generator produced an incompatible lattice")
    if spec["order"] is not None and spec["order"] != ref.order:
        raise RuntimeError("harness: preset order differs from closure order")
    latmode = case["latmode"]
    dup = case["dup"] if (spec["gens"] and case["dup"]["on"]) else None
    g, used = _make_group(spec, L, Rg, latmode, dup)
    n = g.size
    if n != len(g.symmetries):
        raise Violation("size", "size != len(symmetries)")
    if dup is not None and n != ref.order:
        raise Violation("repeated-generator", f"a generator list that names the same operation twice gives {n} elements, "
                                              f"the generated group has {ref.order}")
    if n != ref.order:
        raise Violation("order", f"group order {n} != order {ref.order} of the generated crystallographic group "
                                 f"({spec['preset'] or 'random generators'})")
    elems = _elements_of(g)
    keys = [_key(ref, Of, tr, L, f"element {i}") for i, (Of, tr) in enumerate(elems)]
    if len(set(keys)) != n:
        raise Violation("duplicates", "the same operation is listed twice")
    if set(keys) != ref.keys:
        raise Violation("elements-differ", "element set differs from the exact closure")
    # ---- group axioms through the code's own * and ==
    syms = g.symmetries
    if ps.Identity not in syms:
        raise Violation("identity-missing", "")
    kident = ref.key_of(np.eye(3, dtype=int), False)
    Ms = [np.array(k[:9]).reshape(3, 3) for k in keys]
    for i, s1 in enumerate(syms):
        has_inv = False
        for j, s2 in enumerate(syms):
            p = s1 * s2
            kp = _key(ref, np.array(p.R) * p.iInv, p.TR, L, f"product {i}*{j}")
            kexp = ref.key_of(Ms[j] @ Ms[i], keys[i][9] != keys[j][9])  # s1*s2 acts as s2 first, then s1
            if kp != kexp:
                raise Violation("composition", f"element {i} * element {j} is not the composed operation")
            if kp == kident:
                has_inv = True
                if not (p == ps.Identity):
                    raise Violation("eq", "product with the inverse does not compare equal to Identity")
        if not has_inv:
            raise Violation("inverse-missing", f"element {i}")
    rng = rng_of(case["rs"])
    if n <= 24:
        pairs = [(i, j) for i in range(n) for j in range(n)]
    else:
        pairs = [tuple(rng.integers(0, n, size=2)) for _ in range(300)]
    for i, j in pairs:
        if (syms[i] * syms[j]) not in syms:
            raise Violation("closure", f"element {i} * element {j} not found in the group by ==")
    for i, j in pairs[:200]:
        if (i != j) and syms[i] == syms[j]:
            raise Violation("eq", f"distinct elements {i},{j} compare equal")
    # ---- lattice
    labels = _labels(spec, ref, used) + ["lattice-input=" + latmode, "repeated-generator" if dup else None]
    if latmode != "none":
        B = 2 * np.pi * np.linalg.inv(L).T
        if reldiff(g.real_lattice, L) > 1e-12 or reldiff(g.recip_lattice, B) > 1e-12:
            raise Violation("lattice-stored", "real/reciprocal lattice stored in the group differ from the input")
        if not g.check_basis_symmetry(g.real_lattice):
            raise Violation("check_basis_symmetry", "real lattice reported as not symmetric")
        if not g.check_basis_symmetry(g.recip_lattice):
            raise Violation("check_basis_symmetry", "reciprocal lattice reported as not symmetric")
        byk = {ref.key_of(e["M"], e["tr"]): e for e in ref.elements}
        for s, k in zip(syms, keys):
            e = byk[k]
            sgn = -1 if e["tr"] else 1
            tr_real = s.transform_reduced_vector(np.eye(3), g.real_lattice)
            tr_rec = s.transform_reduced_vector(np.eye(3), g.recip_lattice)
            if np.abs(tr_real - sgn * e["M"]).max() > ITOL:
                raise Violation("reduced-real", "transform_reduced_vector on the real basis is not the integer matrix")
            if np.abs(tr_rec - sgn * ref.recip_int(e)).max() > ITOL:
                raise Violation("reduced-recip", "transform_reduced_vector on the reciprocal basis is not the integer matrix")
        # ---- star
        kfr, kfl = pgroup.kfrac_values(case["k"])
        orbit, nstab = ref.star_exact(kfr)
        if len(orbit) * nstab != ref.order:
            raise RuntimeError("harness: orbit-stabiliser")
        star = np.array(g.star(kfl.copy()))
        if star.ndim != 2 or star.shape[1] != 3:
            raise Violation("star-shape", f"{star.shape}")
        expect = np.array([[float(x) for x in img] for img in orbit])
        hits = np.zeros(len(expect), dtype=int)
        for v in star:
            d = (v[None, :] - expect)
            d = np.abs(d - np.round(d)).max(axis=1)
            m = np.where(d < 1e-9)[0]
            if len(m) != 1:
                raise Violation("star-invented", f"star point {v.tolist()} is not an image of k")
            hits[m[0]] += 1
        if np.any(hits > 1):
            raise Violation("star-duplicate", f"an image is listed {hits.max()} times (|star|={len(star)}, orbit {len(orbit)})")
        if np.any(hits == 0):
            raise Violation("star-lost", f"{int((hits == 0).sum())} of {len(orbit)} distinct images missing")
        if ref.order % len(star) or len(star) * nstab != ref.order:
            raise Violation("star-size", "size x stabiliser != order")
        labels.append("star=full-orbit" if len(orbit) == ref.order and ref.order > 1 else
                      "star=special-k" if ref.order > 1 else None)
        # ---- symmetric grid
        nk = [case["nk"][0]] * 3 if case["nk_equal"] else list(case["nk"])
        expect_sym = True
        for e in ref.elements:
            Mk = ref.recip_int(e)
            for i in range(3):
                for j in range(3):
                    if (int(Mk[i, j]) * nk[j]) % nk[i]:
                        expect_sym = False
        got = bool(g.symmetric_grid(np.array(nk)))
        if got != expect_sym:
            raise Violation("symmetric_grid", f"nk={nk}: code says {got}, exact integer criterion says {expect_sym}")
        labels.append("grid-symmetric" if expect_sym else "grid-asymmetric")
    # ---- dictionary round trip
    g2 = ps.PointGroup(dictionary=g.as_dict())
    k2 = [_key(ref, Of, tr, L, "as_dict") for Of, tr in _elements_of(g2)]
    if sorted(k2) != sorted(keys):
        raise Violation("as_dict", "group rebuilt from as_dict() differs")
    return ok((not ref.abelian) or ref.magnetic, *labels)


# ------------------------------------------------------------------------------------------------

@st.composite
def tensor_case_st(draw):
    rank = draw(st.integers(0, 4))
    nlead = draw(st.integers(1 if rank == 0 else 0, 2))
    return dict(
        spec=draw(pgroup.groupspec_st(max_order=48)),
        rank=rank, lead=[draw(st.integers(1, 3)) for _ in range(nlead)],
        cplx=draw(st.booleans()),
        tTR=draw(pgroup.transform_st(rank, allow_noninvolutive=True)),
        tInv=draw(pgroup.transform_st(rank, allow_noninvolutive=True)),
        use_default_rank=draw(st.booleans()),
        rs=draw(st.integers(0, 2 ** 32)),
        scale=draw(st.sampled_from([1.0, 1.0, 1.0, 1e-13, 1e-16, 1e-25, 1e9, 1e-40])),
    )


def check_tensor(case):
    from wannierberri.result import EnergyResult
    spec = case["spec"]
    L, Rg, ref, dev = pgroup.build_reference(spec)
    if ref is None:
        raise RuntimeError("harness: compatible generator produced an incompatible lattice")
    g, used = _make_group(spec, L, Rg, "real")
    if g.size != ref.order:
        raise Violation("order", f"group order {g.size} != {ref.order}")
    rank = case["rank"]
    dTR, dInv = case["tTR"], case["tInv"]
    tTR, tInv = pgroup.wb_transform(dTR), pgroup.wb_transform(dInv)
    rng = rng_of(case["rs"])
    shape = tuple(case["lead"]) + (3,) * rank
    # magnitude of the data: results are handled in natural, SI or atomic units, so "all data" includes tensors whose
    # components are far from O(1); every comparison below is made relative to this scale
    scale = float(case.get("scale", 1.0))
    x = crandom(rng, shape, case["cplx"]) * scale
    if not case["cplx"]:
        x = np.array(x.real)
    x0 = x.copy()

    def rds(u, v):
        return reldiff(np.asarray(u) / scale, np.asarray(v) / scale)
    syms = g.symmetries
    elems = _elements_of(g)
    n = len(syms)
    # 1. every element against the explicit einsum
    Tx = []
    for s, (Of, tr) in zip(syms, elems):
        got = s.transform_tensor(x, rank, transformTR=tTR, transformInv=tInv)
        if not np.array_equal(x, x0):
            raise Violation("mutates-input", "transform_tensor changed its argument")
        exp = pgroup.ref_transform_tensor(x0, rank, Of, tr, dTR, dInv)
        d = rds(got, exp)
        if d > TOL:
            raise Violation("transform-vs-explicit", f"rank={rank} TR={tr} Inv={bool(s.Inv)} diff={d:.2e}")
        Tx.append(got)
    lawful = (pgroup.transform_is_involutive(dTR) and pgroup.transform_is_involutive(dInv) and
              pgroup.transforms_commute(dTR, dInv, rank))
    # own group average (definition of the projection)
    Pref = sum(pgroup.ref_transform_tensor(x0, rank, e["O"], e["tr"], dTR, dInv) for e in ref.elements) / ref.order
    if case["use_default_rank"] and not case["lead"]:
        P = g.symmetrize_tensor(x, transformTR=tTR, transformInv=tInv)
    else:
        P = g.symmetrize_tensor(x, transformTR=tTR, transformInv=tInv, rank=rank)
    if not np.array_equal(x, x0):
        raise Violation("mutates-input", "symmetrize_tensor changed its argument")
    d = rds(P, Pref)
    if d > TOL:
        raise Violation("symmetrize-vs-explicit", f"group average differs by {d:.2e} (order {n}, rank {rank})")
    if lawful:
        # 2. action law
        if n <= 6:
            pairs = [(i, j) for i in range(n) for j in range(n)]
        else:
            pairs = [tuple(int(v) for v in rng.integers(0, n, size=2)) for _ in range(40)]
        for i, j in pairs:
            lhs = syms[i].transform_tensor(Tx[j], rank, transformTR=tTR, transformInv=tInv)
            rhs = (syms[i] * syms[j]).transform_tensor(x, rank, transformTR=tTR, transformInv=tInv)
            d = rds(lhs, rhs)
            if d > TOL:
                raise Violation("action-law", f"T_g1(T_g2 x) != T_(g1*g2) x  diff={d:.2e} rank={rank}")
        # 3. projection
        PP = g.symmetrize_tensor(P, transformTR=tTR, transformInv=tInv, rank=rank)
        d = rds(PP, P)
        if d > TOL:
            raise Violation("idempotence", f"symmetrize(symmetrize(x)) differs by {d:.2e}")
        for s in syms:
            d = rds(s.transform_tensor(P, rank, transformTR=tTR, transformInv=tInv), P)
            if d > TOL:
                raise Violation("output-not-invariant", f"symmetrised tensor changes by {d:.2e} under an element")
        y = crandom(rng, shape, case["cplx"]) * scale
        if not case["cplx"]:
            y = np.array(y.real)
        yinv = sum(pgroup.ref_transform_tensor(y, rank, e["O"], e["tr"], dTR, dInv) for e in ref.elements) / ref.order
        d = rds(g.symmetrize_tensor(yinv, transformTR=tTR, transformInv=tInv, rank=rank), yinv)
        if d > TOL:
            raise Violation("fixed-point", f"an invariant tensor is changed by symmetrisation by {d:.2e}")
    # 4. Result-level symmetrisation
    if case["lead"]:
        Es = [0.1 * np.arange(m) + 0.3 * i for i, m in enumerate(case["lead"])]
        res = EnergyResult(Es, x.copy(), transformTR=tTR, transformInv=tInv, rank=rank)
        sres = g.symmetrize(res)
        d = rds(sres.data, Pref)
        if d > TOL:
            raise Violation("symmetrize-result", f"PointGroup.symmetrize(EnergyResult) differs by {d:.2e}")
        if not np.array_equal(res.data, x0):
            raise Violation("mutates-input", "symmetrize(result) changed the result")
    # 5. TransformProduct: the transform of an element-wise product of quantities (factor/conj transforms only)
    from wannierberri.symmetry.point_symmetry import TransformProduct
    nfac = 2 + int(rng.integers(0, 2))
    conj = bool(dTR["conj"])
    ds = [dict(factor=int(rng.choice([1, -1])), conj=conj, perm=None, swap=None) for _ in range(nfac)]
    tp = TransformProduct([pgroup.wb_transform(d) for d in ds])
    xs = [crandom(rng, shape, True) for _ in range(nfac)]
    prod_in = np.prod(xs, axis=0)
    exp = np.prod([pgroup.ref_apply_transform(d, xi) for d, xi in zip(ds, xs)], axis=0)
    got = tp(prod_in.copy())
    if rds(got, exp) > TOL:
        raise Violation("transform-product", "TransformProduct(x1*x2..) != prod T_i(x_i)")
    nt = ((not ref.abelian) or ref.magnetic) and rank >= 2
    nontriv_t = not (pgroup.transform_is_trivial(dTR) and pgroup.transform_is_trivial(dInv))
    return ok(nt, *(_labels(spec, ref, used) + [
        f"rank={rank}", f"nlead={len(case['lead'])}", "complex" if case["cplx"] else "real", f"scale={scale:g}",
        "law-asserted" if lawful else "law-not-promised(non-involutive/non-commuting transforms)",
        "transform-nontrivial" if nontriv_t else "transform-trivial",
        "perm" if (dTR["perm"] or dInv["perm"]) else None, "swap" if (dTR["swap"] or dInv["swap"]) else None,
        "conj" if (dTR["conj"] or dInv["conj"]) else None,
        "has-inversion-elements" if any(np.linalg.det(e["O"]) < 0 for e in ref.elements) else None]))


# ------------------------------------------------------------------------------------------------

lattice_case = st.fixed_dictionaries(dict(spec=pgroup.groupspec_st(max_order=48, allow_mismatch=True)))


def check_lattice(case):
    spec = case["spec"]
    L, Rg, ref, dev = pgroup.build_reference(spec)
    if 1e-9 <= dev <= 1e-4:
        raise Inconclusive("lattice compatibility within tolerance tie")
    if ref is not None:
        g, used = _make_group(spec, L, Rg, "real")
        if g.size != ref.order:
            raise Violation("order", f"group order {g.size} != {ref.order}")
        if not (g.check_basis_symmetry(g.real_lattice) and g.check_basis_symmetry(g.recip_lattice)):
            raise Violation("check_basis_symmetry", "compatible lattice reported as not symmetric")
        return ok((not ref.abelian) or ref.magnetic, "compatible", spec["family"] + "-on-" + spec["lat"]["kind"])
    try:
        g, used = _make_group(spec, L, Rg, "real")
    except AssertionError as err:
        if "not symmetric" not in str(err):
            raise
        raise Reject(f"incompatible lattice rejected ({spec['family']} generators)")
    raise Violation("incompatible-lattice-accepted",
                    f"{spec['family']} generators on a {spec['lat']['kind']} lattice (integer defect {dev:.2e}) accepted; "
                    f"size={g.size}")


SUBS = [
    Sub("group", group_case, check_group, quick=320, thorough=4000, budget_quick=200, budget_thorough=900),
    Sub("tensor", tensor_case_st(), check_tensor, quick=320, thorough=5000, budget_quick=200, budget_thorough=900),
    Sub("lattice", lattice_case, check_lattice, quick=160, thorough=1600, budget_quick=150, budget_thorough=600),
]
