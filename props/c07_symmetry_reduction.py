"""C07  Symmetry reduction and symmetrisation are exact for symmetric systems (DESIGN 4/C07)

A random start model on a structure of vlib/symlib.py is symmetrised by the real System_R.symmetrize() (which also
declares the magnetic point group of the system).  Precondition of the property ('the system genuinely has its
declared group') is verified by the harness' own oracle (symlib.covariance_errors: E, Berry curvature, spin at g k
for every group element; a failure there belongs to C20 and makes the case inconclusive here).  Then

    A = run(use_irred_kpt=True)                      irreducible K-points + symmetrisation with the DECLARED
                                                     transformTR / transformInv of every result
    B = run(use_irred_kpt=False, symmetrize=False)   plain sum over the full grid, no declared transform is used

must agree: integrated results of static (tetra=False), dynamic and SDCT calculators, and the tabulated values
slot by slot on the full grid (same k-points in the same order).
Yardstick of an integrated quantity: Y = sum_K w_K max|result_K| of the full run (per-K results kept by run() itself
with allow_restart=True), so that quantities that vanish by symmetry are compared on the scale of their per-K
contributions.
"""
import inspect
import numpy as np
from hypothesis import strategies as st

from vlib.runner import Sub, Violation, Inconclusive, ok, read_known
from vlib.util import fl, scratch_dir, numpy_seed
from vlib import wbsys, symlib, runhelp

PROPERTY_ID = "C07"
RULE = ("structure library of vlib/symlib.py (23 structures in the families cubic / hexagonal / low symmetry, consistent "
        "projection sets, scalar / spin-orbit / ferro-, antiferro-, non-collinear magnetic variants, free lattice and internal "
        "parameters) x random start model (Ham, AA, BB, CC, FF; SS, SA, SHA, SH, SR, SHR with spin) symmetrised by the code x grid "
        "NKdiv x NKFFT compatible with the lattice family (<= 64 k-points, NKdiv >= 2 along the first axis) x core {AHC, BerryDipole_FermiSea, Ohmic_FermiSea; tabulated BerryCurvature, DerBerryCurvature} + <= 4 static (all classes of calculators.static "
        "found by reflection x {all, internal, external terms}, tetra=False) + <= 1 dynamic / SDCT + <= 2 tabulators + Energy, "
        "Fermi grid of 1-5 levels; non-trivial = group order >= 4, fewer irreducible than full K-points, at least one "
        "compared quantity not zero by symmetry (|full| > 1e-6 of its yardstick), no gap below 2e-3 on the grid; labels count every compared calculator")
ASSUMPTIONS = ["precondition 'genuinely symmetric' is decided by the harness (E, Berry curvature, spin covariant under every "
               "group element at one generic k, tolerances of C20); start centres are displaced per site or not at all, "
               "because per-orbital displacements are not symmetrised correctly (finding of C20)",
               "tolerance 1e-7 * Y + max(1e-10, 1e-14 (L/gap)^4) natural units for integrated results (Y = sum_K w_K max|result_K|; "
               "natural unit = 1 for static calculators with use_factor=False, |constant_factor| for dynamic ones); "
               "1e-9 (1+|E|) for tabulated energies, 1e-7 * scale + max(1e-9, 1e-14 (L/gap)^p) for other tabulated values with "
               "p = 2 (3, 4 for first, second k-derivatives; coefficient 1e-13 instead of 1e-14 when the smallest gap is below 2e-3): rounding noise of quantities that vanish by symmetry is "
               "~1e-16 (L/gap)^p, L = longest lattice vector (>= 1); gap = smallest gap above the degeneracy threshold on the grid; cases with gap < 2e-3 are "
               "labelled near-degenerate and not counted as non-trivial",
               "a mismatch is inconclusive when a tie witness exists: a gap within [0.5e-4, 2e-4] (degeneracy threshold 1e-4) or "
               "a band energy within 1e-9 of a node of the (extended) Fermi grid",
               "root-cause split of a mismatch: if the per-K values of the calculator change under a random unitary rotation inside "
               "degenerate multiplets (Data_K(random_gauge=True), the code's own covariance test option) by more than 5% of the "
               "mismatch, the bucket gets the suffix |gauge-dependent-at-degenerate-k (the value at a degenerate k-point is then "
               "not a function of k, so k and g k cannot agree; SDCT terms share one such bucket)",
               "tetra=True is excluded (the 12-tetrahedra split of a cell is not invariant under the group, DESIGN 7)",
               "calculators that cannot be constructed or evaluated for the model at a probe k-point (missing matrix, "
               "unsupported option) are skipped and counted"]
MIN_NONTRIVIAL = {"quick": 4, "thorough": 100}

BASE_KEYS = ["Ham", "AA", "BB", "CC", "FF"]
SPIN_KEYS = ["SS", "SA", "SHA", "SH", "SR", "SHR"]
EQUAL_AXES = {"sc": [(0, 1), (1, 2)], "fcc": [(0, 1), (1, 2)], "bcc": [(0, 1), (1, 2)], "rhombohedral": [(0, 1), (1, 2)],
              "tetragonal": [(0, 1)], "hexagonal": [(0, 1)], "hexagonal60": [(0, 1)]}
CALIB = None   # set to a list by calibration scripts: (name, error in natural units, scale, min gap, longest lattice vector)
CORE = {"static": ["static.AHC", "static.BerryDipole_FermiSea", "static.Ohmic_FermiSea", "static.user:VdotOmega"], "dynamic": [],
        "tab": ["tab.BerryCurvature", "tab.DerBerryCurvature", "tab.user:VdotOmega"]}
_small = st.tuples(st.integers(-1, 1), st.integers(-1, 1), st.integers(-1, 1)).filter(lambda r: any(r))
_idx = st.integers(0, 10 ** 6)


def case_st(family):
    @st.composite
    def _st(draw):
        s = draw(symlib.struct_st(names=symlib.FAMILIES[family], max_wann=10))
        kind = symlib.LIB[s["name"]]["lat"]
        div = [draw(st.integers(2, 3))] + [draw(st.integers(1, 3)) for _ in range(2)]
        fft = [draw(st.integers(1, 3)) for _ in range(3)]
        for a, b in EQUAL_AXES.get(kind, []):
            div[b], fft[b] = div[a], fft[a]
        while np.prod(div) * np.prod(fft) > 64:
            i = int(np.argmax(np.array(div) * np.array(fft)))
            if fft[i] > 1:
                fft[i] -= 1
            elif div[i] > 2 or i > 0:
                div[i] -= 1
            else:
                break
            for a, b in EQUAL_AXES.get(kind, []):
                div[b], fft[b] = div[a], fft[a]
        nE = draw(st.integers(1, 5))
        E0 = draw(fl(-1.2, 0.8))
        dE = draw(st.sampled_from([0.0731, 0.211, 0.5017]))
        return dict(struct=s, rs=draw(st.integers(0, 2 ** 32)),
                    R=[list(r) for r in draw(st.lists(_small, min_size=2, max_size=3, unique=True))],
                    cmode=draw(st.sampled_from(["site", "exact", "site"])), disp=draw(st.sampled_from([0.01, 0.04])),
                    decay=draw(st.sampled_from([1.0, 2.0])), NKdiv=div, NKFFT=fft,
                    static=draw(st.lists(_idx, min_size=1, max_size=4, unique=True)),
                    dynamic=draw(st.lists(_idx, min_size=0, max_size=1, unique=True)),
                    tab=draw(st.lists(_idx, min_size=0, max_size=2, unique=True)),
                    Efermi=[round(E0 + 0.0137 + i * dE, 6) for i in range(nE)],
                    kprobe=[draw(fl(0.05, 0.45)) for _ in range(3)])
    return _st()


def classes(mod, base):
    return sorted([(n, c) for n, c in inspect.getmembers(mod, inspect.isclass)
                   if issubclass(c, base) and c is not base and c.__module__ == mod.__name__ and not n.startswith("_")],
                  key=lambda x: x[0])


_USER = {}


def user_formulas():
    if not _USER:
        from wannierberri.formula.formula import DeltaProduct
        from wannierberri.formula import covariant

        class VdotOmega(DeltaProduct):
            def __init__(self, data_K, **kwargs_formula):
                super().__init__(np.eye(3), covariant.VelOmega(data_K, **kwargs_formula), 'ab,MLab->ML')

        class TrVelVel(DeltaProduct):
            def __init__(self, data_K, **kwargs_formula):
                super().__init__(np.eye(3), covariant.VelVel(data_K, **kwargs_formula), 'ab,MLab->ML')

        _USER.update(VdotOmega=VdotOmega, TrVelVel=TrVelVel)
    return _USER


def registries(Ef):
    """-> dict kind -> list of (name, factory); factories build fresh calculator objects"""
    from wannierberri.calculators import static, tabulate, dynamic, sdct
    Ef = np.array(Ef, dtype=float)
    om = np.array([0.35, 1.1])
    variants = [("", None), ("|int", {"external_terms": False}), ("|ext", {"internal_terms": False})]
    stat, tab, dyn = [], [], []
    for n, c in classes(static, static.StaticCalculator):
        for tag, kf in variants:
            kw = dict(Efermi=Ef, use_factor=False)
            if kf:
                kw["kwargs_formula"] = kf
            stat.append((f"static.{n}{tag}", (lambda c=c, kw=kw: c(**kw))))
    for n, c in classes(tabulate, tabulate.Tabulator):
        if n == "Energy":
            continue
        for tag, kf in variants:
            kw = dict(kwargs_formula=kf) if kf else {}
            tab.append((f"tab.{n}{tag}", (lambda c=c, kw=kw: c(**kw))))
    # user-defined rank-0 contractions (the documented way to define one's own quantity: StaticCalculator(Formula=...),
    # Tabulator(Formula)); the declared transforms are inherited from the contracted formula:
    # v.Omega is a pseudoscalar (TR-even, inversion-odd), tr(v v) a true scalar
    for uname, Form in user_formulas().items():
        stat.append((f"static.user:{uname}", (lambda F=Form: static.StaticCalculator(Efermi=Ef, Formula=F, fder=0, use_factor=False))))
        tab.append((f"tab.user:{uname}", (lambda F=Form: tabulate.Tabulator(F))))
    dkw = dict(Efermi=Ef[:2], omega=om, kBT=0.05, smr_fixed_width=0.1)
    for n, c in classes(dynamic, dynamic.DynamicCalculator):
        kw = dict(dkw)
        if n == "ShiftCurrent":
            kw["sc_eta"] = 0.1
        dyn.append((f"dyn.{n}", (lambda c=c, kw=kw: c(**kw))))
        if n == "SHC":
            dyn.append(("dyn.SHC|qiao", (lambda c=c, kw=kw: c(SHC_type="qiao", **kw))))
    for n in sorted(x for x in dir(sdct) if x.startswith("SDCT_") and ("_sea_" in x or "_surf_" in x)):
        dyn.append((f"sdct.{n}", (lambda n=n: getattr(sdct, n)(**dkw))))
        dyn.append((f"sdct.{n}|S", (lambda n=n: getattr(sdct, n)(M1_terms=False, E2_terms=False, V_terms=False, S_terms=True, **dkw))))
    return dict(static=stat, tab=tab, dynamic=dyn)


def select(case, system, grid1):
    """resolve the drawn indices into calculators that can be evaluated for this model (probe at one k)"""
    from wannierberri.data_K import get_data_k_class_from_system
    reg = registries(case["Efermi"])
    cls = get_data_k_class_from_system(system)
    chosen, skipped = {}, []
    for kind in ("static", "dynamic", "tab"):
        seen = set()
        byname = dict(reg[kind])
        # a fixed core (one calculator per basic formula: Omega, DerOmega, InvMass) + the drawn ones
        picks = [(n, byname[n]) for n in CORE[kind] if n in byname] + [reg[kind][i % len(reg[kind])] for i in case[kind]]
        for name, make in picks:
            if name in seen:
                continue
            seen.add(name)
            try:
                calc = make()
                r = calc(cls(system, grid=grid1, dK=np.array(case["kprobe"], dtype=float)))
                if not hasattr(r, "data") or not np.all(np.isfinite(np.asarray(r.data))):
                    raise ValueError("void or non-finite")
            except Exception as e:  # noqa  not the subject of C07 (missing matrix / unsupported variant): counted as skipped
                skipped.append(f"skip:{name}:{type(e).__name__}")
                continue
            chosen[name] = (kind, make)
    return chosen, skipped


def build_calculators(chosen):
    from wannierberri.calculators import tabulate
    calcs = {n: make() for n, (kind, make) in chosen.items() if kind != "tab"}
    tabs = {n: make() for n, (kind, make) in chosen.items() if kind == "tab"}
    calcs["tabulate"] = tabulate.TabulatorAll(tabs, mode="grid", save_mode="")
    return calcs


def gauge_spread(system, grid, K_list, make, seed):
    """sum_K w_K max|X_K(plain gauge) - X_K(random unitary rotation inside every degenerate multiplet)|: the documented
    testing option random_gauge of Data_K; non-zero only when a calculator is not gauge covariant at degenerate k-points"""
    from wannierberri.data_K import get_data_k_class_from_system
    cls = get_data_k_class_from_system(system)
    tot = 0.0
    with numpy_seed(seed):
        for K in K_list:
            r0 = make()(cls(system, dK=K.Kp_fullBZ, grid=grid, Kpoint=K)).data
            r1 = make()(cls(system, dK=K.Kp_fullBZ, grid=grid, Kpoint=K, random_gauge=True)).data
            tot += abs(float(K.factor)) * float(np.max(np.abs(np.asarray(r0) - np.asarray(r1))))
    return tot


def check(case):
    import wannierberri as wb
    s = case["struct"]
    known = read_known(PROPERTY_ID)
    rsv = symlib.resolve(s)
    keys = BASE_KEYS + (SPIN_KEYS if rsv["soc"] else [])
    model, rs = symlib.build_start(s, case["rs"], case["R"], keys, decay=case["decay"], disp=case["disp"], cmode=case["cmode"])
    system = wbsys.to_system(model, spinor=rs["soc"])
    symlib.symmetrize(system, rs)
    ngroup = len(system.pointgroup.symmetries)
    # precondition of the statement: the system genuinely has the declared group (harness oracle, all group elements)
    worst, _, info = symlib.covariance_errors(system, [case["kprobe"]])
    bad = [f"{q} x{r:.1e}" for q, (r, _) in worst.items() if r > 1.0]
    if bad:
        raise Inconclusive(f"precondition: symmetrised model is not symmetric ({', '.join(sorted(bad))}) -> C20")
    grid1 = wb.Grid(system, NKdiv=1, NKFFT=1, use_symmetry=False)
    chosen, skipped = select(case, system, grid1)
    grid = wb.Grid(system, NKdiv=np.array(case["NKdiv"]), NKFFT=np.array(case["NKFFT"]))
    n_irr = len(grid.get_K_list(use_symmetry=True))
    n_full = int(np.prod(case["NKdiv"]))
    with scratch_dir() as scratch:
        calcs_irr = build_calculators(chosen)
        res_irr = wb.run(system, grid, calcs_irr,
                         **runhelp.run_kwargs(scratch, "irr", use_irred_kpt=True, symmetrize=True, adpt_num_iter=0))
        cap = runhelp.Capture()
        with runhelp.capture_run(cap):
            res_full = wb.run(system, grid, build_calculators(chosen),
                              **runhelp.run_kwargs(scratch, "full", use_irred_kpt=False, symmetrize=False, adpt_num_iter=0,
                                                   allow_restart=True))
        yard = {}
        for K in cap.K_list:
            r = K.get_result()
            for name, v in r.results.items():
                if name != "tabulate":
                    d = np.asarray(v.data)
                    yard[name] = yard.get(name, 0.0) + abs(float(K.factor)) * (float(np.max(np.abs(d))) if d.size else 0.0)
    tf, ti = res_full.results["tabulate"], res_irr.results["tabulate"]
    E = np.asarray(tf.results["Energy"].data)
    gaps = np.diff(np.sort(E, axis=1), axis=1)
    amb = bool(np.any((gaps > 0.5e-4) & (gaps < 2e-4)))
    big = gaps[gaps >= 2e-4]
    gmin = float(big.min()) if big.size else np.inf
    near_degenerate = gmin < 2e-3

    Lmax = float(np.max(np.linalg.norm(np.array(system.real_lattice), axis=1)))

    def noise(power):
        """rounding noise of a quantity that contains (velocity/gap)^power ~ (L/gap)^power (L = longest lattice vector,
        hoppings are O(1)): ~1e-16 (L/gap)^power; two orders of margin"""
        # (near-degenerate grids, gap < 2e-3: the margin is three orders - a Dirac point of graphene with spin-orbit gap
        #  2.1e-4, i.e. 2.1 x the degeneracy threshold, showed 1.2e-14 (L/gap)^2 for a curvature that vanishes by symmetry;
        #  such cases are labelled near-degenerate and never counted as non-trivial)
        return (1e-13 if gmin < 2e-3 else 1e-14) * (max(1.0, Lmax) / min(1.0, gmin)) ** power
    found, labels = [], []
    nonzero = 0

    def fermi_tie():
        Ef = np.array(case["Efermi"])
        dE = Ef[1] - Ef[0] if len(Ef) > 1 else 0.001
        nodes = Ef[0] + dE * np.arange(-3, len(Ef) + 3)
        return bool(np.min(np.abs(E.reshape(-1, 1) - nodes.reshape(1, -1))) < 1e-9)

    # ---- integrated quantities
    for name, (kind, _) in sorted(chosen.items()):
        if kind == "tab":
            continue
        a, b = np.asarray(res_irr.results[name].data), np.asarray(res_full.results[name].data)
        if a.shape != b.shape:
            found.append((f"shape:{name}", f"{name}: shapes {a.shape} (irreducible) vs {b.shape} (full)"))
            continue
        Y = yard.get(name, 0.0)
        err = float(np.max(np.abs(a - b))) if a.size else 0.0
        if CALIB is not None:
            CALIB.append((name, err / (1.0 if kind == "static" else abs(complex(getattr(calcs_irr[name], "constant_factor", 1.0)))), Y, gmin, Lmax))
        # absolute floor in natural units (static: use_factor=False; dynamic: multiples of the calculator's constant factor)
        unit = 1.0 if kind == "static" else abs(complex(getattr(calcs_irr[name], "constant_factor", 1.0)))
        tol = 1e-7 * Y + unit * max(1e-10, noise(4))
        if not np.all(np.isfinite(a)) or err > tol:
            # root-cause split: a calculator whose value at a degenerate k-point depends on the arbitrary eigenvector gauge
            # inside the multiplet (checked with the code's own random_gauge testing option) cannot agree between k and g k
            gs = gauge_spread(system, grid, cap.K_list, chosen[name][1], case["rs"]) if np.all(np.isfinite(a)) else 0.0
            tag = "|gauge-dependent-at-degenerate-k" if gs > 0.05 * err else ""
            fam = "sdct.SDCT_term" if (tag and name.startswith("sdct.")) else name
            found.append((f"integrated:{fam}{tag}",
                          (f"[value changes by {gs:.3e} under a unitary rotation inside degenerate multiplets] " if tag else "") +
                          f"{symlib.label(s)} group order {ngroup}, grid {case['NKdiv']}x{case['NKFFT']}: {name} irreducible+symmetrised "
                          f"vs full grid differ by {err:.3e} (yardstick {Y:.3e}, tolerance {tol:.1e}; max|full| {np.max(np.abs(b)) if b.size else 0:.3e}, "
                          f"max|irr| {np.max(np.abs(a)) if a.size else 0:.3e})"))
            continue
        if b.size and float(np.max(np.abs(b))) > 1e-6 * Y > 0:
            nonzero += 1
            labels.append(f"nonzero:{name}")
        else:
            labels.append(f"zero-by-symmetry:{name}")

    # ---- tabulated quantities, slot by slot
    kf, ki = np.asarray(tf.kpoints), np.asarray(ti.kpoints)
    if kf.shape != ki.shape or np.max(np.abs(kf - ki)) > 1e-9:
        found.append(("tab-kpoints", f"{symlib.label(s)}: k-point lists of the tabulated results differ "
                                     f"({ki.shape} irreducible vs {kf.shape} full)"))
    else:
        for q in sorted(tf.results):
            a, b = np.asarray(ti.results[q].data), np.asarray(tf.results[q].data)
            if a.shape != b.shape:
                found.append((f"shape:tab.{q}", f"tabulated {q}: shapes {a.shape} vs {b.shape}"))
                continue
            sc = float(max(np.max(np.abs(a)), np.max(np.abs(b)))) if a.size else 0.0
            tol = 1e-9 * (1 + sc) if q == "Energy" else 1e-7 * sc + max(1e-9, noise(4 if "Der2" in q else 3 if "Der" in q else 2))
            err = float(np.max(np.abs(a - b))) if a.size else 0.0
            nm = q if q.startswith("tab.") else f"tab.{q}"
            if CALIB is not None:
                CALIB.append((nm, err, sc, gmin, Lmax))
            if not np.all(np.isfinite(a)) or err > tol:
                ik = int(np.unravel_index(np.argmax(np.abs(a - b)), a.shape)[0])
                found.append((f"tabulated:{nm}",
                              f"{symlib.label(s)} group order {ngroup}, grid {case['NKdiv']}x{case['NKFFT']}: tabulated {q} differs by "
                              f"{err:.3e} at k={kf[ik].round(6).tolist()} (scale {sc:.3e}, tolerance {tol:.1e})"))
            else:
                if q != "Energy" and sc > 1e-6:
                    nonzero += 1
                labels.append(f"{'nonzero' if sc > 1e-6 else 'zero-by-symmetry'}:{nm}")

    named = found
    new = [f for f in named if f"reduction:{f[0]}" not in known]
    if new:
        if amb:
            raise Inconclusive(f"tie: gap ambiguously close to the degeneracy threshold [{new[0][0]}] {new[0][1]}")
        if any(f[0].startswith("integrated:static") for f in new) and fermi_tie():
            raise Inconclusive(f"tie: a band energy coincides with a Fermi-grid node [{new[0][0]}] {new[0][1]}")
        raise Violation(new[0][0], new[0][1] + (f" [also: {[f[0] for f in named if f is not new[0]]}]" if len(named) > 1 else ""))
    nontrivial = ngroup >= 4 and n_irr < n_full and nonzero >= 1 and not near_degenerate
    return ok(nontrivial, f"struct={s['name']}", f"variant={'mag:' + s['mag'] if s['mag'] else ('soc' if s['soc'] else 'scalar')}",
              f"group={ngroup}", f"Kirr/Kfull={n_irr}/{n_full}" if n_full <= 8 else f"Kfull={n_full}",
              "reduced" if n_irr < n_full else "not-reduced", "near-degenerate" if near_degenerate else "",
              *labels, *skipped, known=[f[0] for f in named])


SUBS = [Sub(f, case_st(f), check, quick=4, thorough=64, budget_quick=85, budget_thorough=850, per_shard_min=1,
            group="reduction") for f in ("cubic", "hexagonal", "lowsym")]
