"""C28  Fermi-sea and Fermi-surface formulations agree  (DESIGN 4/C28)

Models: random Hermitian tight-binding models from vlib.wbsys (2 Wannier functions, in 2D also 3, complex hoppings on the first
shell plus 1-3 second-shell vectors, no symmetry at all: inversion and time reversal broken, arbitrary centres, 11
lattice families, rotated), bulk 3D (24^3 k-points) or planar 2D (periodic=(T,T,F), 72^2 k-points, all centres in
one plane so that nothing depends on the confined direction).  H(k) = diag(0,s,2s) + T(k) with the on-site mixing and
the hoppings rescaled to ||T(k)||_2 <= tau (drawn in [0.5,1] eV) and s = gap + 2 tau, so that every direct gap is
>= gap (drawn in [0.6,1.5] eV) at *every* k by Weyl's inequality -- no band touching (a 3D two-band model has Weyl
points generically; an 8^3 mesh does not see them, and with them the sea form converges like 1/N).
Spin: either a random Hermitian SS(R) matrix or the real `set_spin_pairs` construction (two co-centred orbitals).
Option ext (3D, one case in two): the model also gets random AA (Hermitian), BB and CC (Hermitian) matrices and the Berry-dipole
pair is evaluated with external_terms=True (the curvature then is the curl of the full connection A^H + U^+ AA U, still a
periodic function of k, so the identity is unchanged).  Calibration on the unchanged tree (9 ext models, 24^3): Berry dipole
rel 0.6-1.5 % - the thresholds are unchanged.  The orbital gyrotropic pair stays on internal terms: with external terms its
two forms differed by 2.4-40 % on the same 9 models although the per-k derivative formula (Dermorb) equals the central finite
difference of morb to 1e-9 with and without external terms (probe); the sea form is assembled from two large cancelling parts
(DerMorb and 2 E_F x Berry dipole), so this is a convergence question the 24^3 grid does not settle - not asserted, not claimed.

One `wannierberri.run()` per case (serial, no refinement, no symmetry) with tetra=True, a FermiDiracSmoother
(T in [1000,2000] K) and the Fermi grid [E_min-3kT, E_max+3kT] with 4*(nE-1)+1 points, nE in 64..96 (dE ~ 0.05-0.15 kT);
judged are the smoothed tensors at the Fermi levels inside the band range (every judged level is >= 3kT away from the
ends of the grid).  The Fermi grid has to be that dense: the smoother is a plain sum over the grid; with 64-96 points
the sea/surface pairs of the nonlinear Drude tensor were off by up to 48 % (3D) and the f'' form by up to 30 % from
the exact finite-temperature value (computed here once by FFT differentiation of the bands), with the dense grid
all forms agree with each other and with that value to a few %.

Oracle = the documented identities (integration by parts over the periodic BZ, f = Fermi function):
    Ohmic        int d_b v_a f                 = - int v_a v_b f'
    BerryDipole  int d_b Omega_d f  [b,d]      = - int v_b Omega_d f'
    GME spin     - int d_a s_m f    [a,m]      =   int v_a s_m f'
    GME orb      - int d_a m_m f    [a,m]      =   int v_a m_m f' ,   m = H + G - 2 E_F Omega
    NLDrude      - int d_b d_c v_a f           =   int d_b v_a v_c f'  = -(1/2) int v_a v_b v_c f''
i.e. the two calculators of a pair must return the same numbers in the same index order.
The f'' form (NLDrude_Fermider2) is judged in 2D only, from a separate run without the tetrahedron method on a twice
finer k-grid (144^2): its tetrahedron weights (second derivative, piecewise linear and discontinuous; in 2D the corner
energies are pairwise degenerate and the delta-function parts are lost) converge only linearly (16-26 % off at 96^2),
and the plain sum needs k-spacing x velocity << kT, which 24^3 points do not give (3D: up to 95 % off while changing
by 1 % between 16^3 and 24^3).  With use_factor=False (constant factors reduced to their sign) the documented 1/2
of that calculator is applied by the harness.

Measure: rel = max|A-B| / max(max|A|, max|B|) over the judged levels and all components.
Verdict per pair (DESIGN 6): rel <= PASS -> agrees; PASS < rel <= CLEAR -> inside the margin: inconclusive, never a
violation; rel > CLEAR -> the case is re-run on a coarser grid (16^3 / 48^2, f'' form 72^2) and a violation is reported
only if the two calculators changed by <= CONV (sum of both, relative) between the grids, otherwise "not converged"
(inconclusive).  Calibration on the unchanged tree, final generator, ~60 models: Ohmic/BerryDipole/GME pairs rel <=
2.7 % (typically 1 %), NLDrude sea/surface <= 9 % (one case in 60 between 15 and 35 %), f'' form (2D) <= 6.4 %;
PASS = 5 % / 15 % / 15 %, CLEAR = 15 % / 35 % / 35 %, CONV = 6 %.  (The f'' status is reported as a label and never makes the case inconclusive.)
Discrimination guard (non-triviality): the sign-flipped partner is off by ~2 for every pair; for the pairs whose
tensor is not symmetric (Berry dipole, both gyrotropic tensors) the transposed partner must be off by > 0.3,
otherwise the case cannot see an index swap and is counted trivial.

Option hole_like (sub `pairs`): the Fermi-sea calculators have the documented option hole_like=True (only with tetra=True):
the occupation f is replaced by f-1 (tetrahedron weights w -> 1-w, bands above the Fermi grid count fully, overall sign
flipped), i.e. the sea integral is taken over the empty states.  int d_b X_n (f-1) = int d_b X_n f - int d_b X_n and the
integral of a derivative of the periodic, non-degenerate band quantity X_n over the whole BZ vanishes for every band
(all gaps are open by construction), so every identity above is unchanged; the surface forms have no such option.
The case draws `hole` (first choice True, so that the minimal example with which every run starts exercises it, then 1 in 3)
and hands hole_like=True to all five sea calculators (for GME_orb also to the nested Berry-dipole part).  Calibration on the
unchanged tree, 12 models with hole_like=True (6 planar 2D, 6 3D): Ohmic/BerryDipole/GME pairs rel <= 1.2 %, NLDrude
<= 7.3 %, f'' form <= 6.5 % -- inside the PASS thresholds above, which are unchanged.

Sub `kp`: k.p models (wannierberri.system.SystemKP, vlib/kp28.py)
    H(k) = s*[ (x.G.x/2) 1 + Delta sigma_z + sum_j c_j cos(q_j.k + phi_j) N_j ],   x_i = k.a_i/2pi (i < dim) reduced coordinates
1 band (N_j = 1; kind `parabolic` has no trigonometric term at all) or 2 bands (N_j Pauli matrices, at least one term on
sigma_x and on sigma_y, the sigma_z terms sum to <= Delta/2: gap >= Delta*s everywhere, Berry curvature present), G positive
definite with eigenvalue ratios 1.15-2.5 and rotated by 0.2-2.9 rad against the reduced axes, so the Cartesian mass tensor
M = s sum_ij G_ij a_i a_j^T/(2pi)^2 is anisotropic and aligned with nothing; 2-4 (1 band: 2-4) cosines with |p_j| ~ 0.5-1.4
periods across the box and a total amplitude of 5-15 % of the face value (strongly non-parabolic).  dim=2 models depend on
two reduced coordinates only and run on one k-plane (NK_3 = 1, periodic=(T,T,F) or the default), dim=3 on 24^3.
Boxes: kmax (cubic), real_lattice or recip_lattice from 11 lattice families (hexagonal, monoclinic, triclinic, rotated ...:
non-symmetric reciprocal-lattice matrices in ~60 % of the cases).  k_vector_cartesian True or False.  Each of derHam,
der2Ham, der3Ham is either the analytic function or left to the finite-difference scheme of SystemKP (finite_diff_dk 1e-4 or
1e-3; 1e-3 when three stencils are nested); nested stencils cost nb^depth calls per k-point (nb = 6-12), so when a run would
need more than 1.1e6 calls the highest-order numerical derivative is supplied analytically instead (label der=...).
Closed pocket (precondition, asserted): the lowest band obeys E_0(k) >= s*(x.G.x/2 - beta) (Weyl), hence on the whole boundary
of the box E_0 >= E_face = s*(min_i 1/(8 (G^-1)_ii) - beta); the harness also evaluates the bands on a mesh of the boundary
(4 x 241 points / 6 x 49^2) and on an interior mesh (121^2 / 33^3, band bottom).  s is chosen such that E_face - bottom =
ratio*kT, ratio in [40,70], T in [300,2000] K.  Judged Fermi levels: bottom + 8 kT <= E_F <= E_face - 15.5 kT (f <= 2e-7 and
f' <= 7.5e-7 of its pocket value 1/4kT on the boundary); Fermi grid: step 0.25 kT, 8.2 kT beyond the judged levels on both
sides (the smoother is cut at 8 kT), so every zero-temperature curve entering a judged value belongs to a level >= 7 kT below
E_face: the pocket is closed at every level and integration by parts has no boundary term although H is not periodic.
(hole_like is not drawn here: a filled band of a non-periodic k.p box does contribute a boundary term.)
Judged pairs: Ohmic (all models), nonlinear Drude sea/surface (not for `parabolic`: both vanish identically), Berry dipole
and orbital gyrotropic tensor (2 bands; all four calculators work for SystemKP with internal terms; the spin tensor needs SS
matrices that a k.p system does not have; the f'' form is not run).  Same measure and verdict logic as above.
Independent oracle for `parabolic`: both Ohmic forms must equal  factor * M_ab * n(T)/V_cell, n(T) = area/volume fraction of
the ellipse/ellipsoid x.G.x/2 <= E/s folded with -f' by the harness (factor = e^3 tau/(hbar^2 Ang), tau = 1 fs, or 1 with
use_factor=False); PASS 2 %, CLEAR 6 %, violation only if that calculator changed by <= 3 % between the grids.
Calibration on the unchanged tree (final generator; 2D: > 40 distinct models on 60^2-64^2, 3D: 17 models on 24^3; conv = sum of
the relative changes of both calculators between the coarse and the judged grid):
    2D  Ohmic rel <= 0.14 % (conv <= 0.4 %), exact value <= 0.05 % (conv <= 0.2 %), Berry dipole <= 0.43 % (conv <= 1.4 %),
        GME orbital <= 0.5 % (one model 1.4 %; conv <= 3.8 %), NLDrude <= 3.6 % (one model 8.4 %: the surface form is noisy
        where the second band starts to fill; 25 % on 48^2, which is why 48^2 is not used; conv <= 7.4 %)
    3D  Ohmic <= 0.9 % (conv <= 2.3 %), exact value <= 0.81 % (conv <= 1.3 %), Berry dipole <= 2.6 % (conv <= 7.8 %),
        GME orbital <= 3.2 % (one model 10.7 %; conv <= 12.2 %), NLDrude <= 7.2 % (conv <= 23 %: on 24^3 a disagreement of this
        pair is mostly reported as "not converged")
    (PASS, CLEAR, CONV): 2D Ohmic 2/8/4 %, Berry dipole and GME orbital 5/15/6 %, NLDrude 15/35/10 %;  3D Ohmic 5/15/6 %, Berry
    dipole, GME orbital, NLDrude 15/35/12 %.  With a tetrahedron error ~ h^2 the error left on the judged grid is ~0.8 x conv,
    i.e. at most a third of CLEAR when a violation is declared.  Transposed partner of Berry dipole / GME orbital: 0.88-1.7.
Side observation (not judged): on highly symmetric models whose corner energies coincide exactly with Fermi levels (e.g. G = 1
on a hexagonal box with a commensurate Fermi grid) the tetrahedron weights of the surface forms (der >= 1) return values
~1e6 too large at single levels (several degenerate corners are split by 1e-12 in weights_tetra); the generator therefore
keeps G anisotropic and rotated, and such a spike would end as "not converged", never as a violation.
"""
import os

import numpy as np
from hypothesis import strategies as st

from vlib.runner import Sub, Violation, Inconclusive, ok
from vlib.util import fl, scratch_dir, maxabs
from vlib import wbsys

PROPERTY_ID = "C28"
RULE = ("sub pairs: random symmetry-free 2-band (2D: 2-3 band) tight-binding models (first + second shell, arbitrary centres, "
        "11 lattice families, every direct gap >= 0.6 eV by construction) x {3D 24^3, planar 2D 72^2} x spin matrix {random "
        "Hermitian SS(R), set_spin_pairs} x T in [1000,2000] K x use_factor x hole_like of the sea forms (minimal example + 1 "
        "in 3), one run() with the documented sea/surface pairs (Ohmic, Berry dipole, GME spin, GME orbital, nonlinear "
        "Drude; in 2D also the f'' form), tetra=True + Fermi-Dirac smoother on a dense Fermi grid; "
        "sub kp: SystemKP models H = s[(x.G.x/2) + Delta sigma_z + sum c_j cos(q_j.k+phi_j) N_j] with 1 band (parabolic or "
        "with cosines) or 2 bands (Pauli mixing, gapped), G anisotropic and rotated, closed pocket (lowest band on the box "
        "boundary >= 15.5 kT above every judged level, asserted) x box {kmax, real_lattice, recip_lattice; 11 lattice "
        "families} x {2D one k-plane 60^2-64^2, 3D 24^3} x k_vector_cartesian x each of derHam/der2Ham/der3Ham analytic or "
        "finite-difference x finite_diff_dk x use_factor x T in [300,2000] K; pairs Ohmic, nonlinear Drude, Berry dipole, GME "
        "orbital, and both Ohmic forms against the exact value factor*M_ab*n(T) for the parabolic models; "
        "non-trivial = every judged pair (and the exact value) agreed within PASS and, for the non-symmetric tensors, the "
        "transposed partner is off by > 0.3 (a sign flip is always off by ~2); distinct = distinct generated case")
ASSUMPTIONS = ["internal terms only (kwargs_formula external_terms=False) except for the Berry-dipole pair of cases with ext=True (3D models with random AA/BB/CC matrices)",
               "every direct gap >= case['gap'] >= 0.6 eV at every k (Weyl's inequality on the rescaled model)",
               "2D models are planar (all centres share the out-of-plane coordinate): the identities need a k-integral "
               "along every differentiated direction",
               "Fermi grid 253-381 points (dE <= 0.15 kT): a coarser grid adds a quadrature error of the smoother itself",
               "calibrated on the unchanged tree (~60 models): sea/surface pairs rel <= 2.7 %, NLDrude <= 9 %, f'' form "
               "(2D, plain sum, 144^2) <= 6.4 %; PASS 5/15/15 %, violation only above 15/35/35 % and only if both "
               "calculators changed by <= 6 % between the coarse and the judged grid (DESIGN 6)",
               "the f'' form is not judged in 3D (not resolvable at affordable grids); with use_factor=False its dropped "
               "factor 1/2 is applied here",
               "hole_like=True (sea forms only, tetra=True): identities unchanged because the BZ integral of a derivative of "
               "a periodic non-degenerate band quantity vanishes; calibrated on 12 models, same thresholds",
               "kp: the k.p Hamiltonian is not periodic; the identities hold because the pocket is closed: lowest band on the "
               "whole box boundary >= E_face (Weyl bound, cross-checked on a boundary mesh), judged levels <= E_face - 15.5 kT, "
               "whole Fermi grid <= E_face - 7 kT; hole_like is therefore not used for k.p models",
               "kp: nested finite-difference derivatives are replaced by analytic ones (highest order first) when a run "
               "would need more than 1.1e6 model-function calls; finite_diff_dk = 1e-3 when three stencils are nested",
               "kp thresholds (PASS/CLEAR/CONV, calibration in the module docstring): 2D Ohmic 2/8/4 %, Berry dipole and GME "
               "orbital 5/15/6 %, NLDrude 15/35/10 %; 3D Ohmic 5/15/6 %, the others 15/35/12 %; exact value 2/6/3 %"]
MIN_NONTRIVIAL = {"quick": 6, "thorough": 40}

# (PASS, CLEAR, CONV) per pair and dimension, see module docstring
THRESH = {"default": (0.05, 0.15, 0.06), ("nldrude", 2): (0.15, 0.35, 0.06), ("nldrude", 3): (0.15, 0.35, 0.06),
          ("nldrude_d2", 2): (0.15, 0.35, 0.06)}
SECONDARY = {("nldrude_d2", 2)}     # its "inside margin"/"not converged" is a label, not a verdict on the case
GUARD = 0.3

SHELL2_3D = [[1, 1, 0], [1, 0, 1], [0, 1, 1], [1, -1, 0], [1, 0, -1], [0, 1, -1], [1, 1, 1], [1, 1, -1]]
SHELL2_2D = [[1, 1, 0], [1, -1, 0], [2, 0, 0], [0, 2, 0]]
# (NKdiv, NKFFT) of the judged grid and of the coarser grid used only for the self-convergence estimate
GRIDS = {3: [([4, 4, 4], [6, 6, 6], [4, 4, 4], [4, 4, 4]), ([3, 3, 3], [8, 8, 8], [2, 2, 2], [8, 8, 8]),
             ([6, 6, 6], [4, 4, 4], [4, 4, 4], [4, 4, 4])],
         2: [([12, 12, 1], [6, 6, 1], [8, 8, 1], [6, 6, 1]), ([9, 9, 1], [8, 8, 1], [6, 6, 1], [8, 8, 1]),
             ([6, 6, 1], [12, 12, 1], [4, 4, 1], [12, 12, 1])]}


@st.composite
def case_st(draw):
    dim = draw(st.sampled_from([3, 2, 3]))
    ss = draw(st.sampled_from(["random", "pairs"]))
    nw = 2 if (ss == "pairs" or dim == 3) else draw(st.sampled_from([2, 3]))     # 3 bands only in 2D (cost)
    extra = draw(st.lists(st.sampled_from([tuple(r) for r in (SHELL2_3D if dim == 3 else SHELL2_2D)]), min_size=1,
                          max_size=3, unique=True))
    cz = draw(fl(0, 0.999)) if dim == 2 else None
    centres = []
    for i in range(nw):
        if ss == "pairs" and i == 1:
            centres.append(list(centres[0]))
            continue
        c = [draw(fl(0, 0.999)) for _ in range(3)]
        if dim == 2:
            c[2] = cz
        centres.append(c)
    # external terms (position / B / C matrices of the model, Berry dipole and orbital gyrotropic pairs): 3D only, first choice True
    ext = draw(st.sampled_from([True, False])) if dim == 3 else False
    return dict(dim=dim, ss=ss, nw=nw, extra=[list(r) for r in extra], centres=centres, ext=ext,
                lat=draw(wbsys.lattice_st()), rs=draw(st.integers(0, 2 ** 32)), decay=draw(st.sampled_from([1.0, 0.5, 2.0])),
                tau=draw(fl(0.5, 1.0, 3)), gap=draw(fl(0.6, 1.5, 3)), T=draw(fl(1000.0, 2000.0, 1)), nE=draw(st.integers(64, 96)),
                grid=draw(st.integers(0, 2)), use_factor=draw(st.booleans()),
                # hole-like evaluation of the Fermi-sea forms; True comes first so that the fixed minimal example with which
                # Hypothesis starts (shard 0 of every run) exercises the option: 1 + (N-1)/3 of N cases
                hole=draw(st.sampled_from([True, False, False])))


def own_mesh(dim):
    n = 8 if dim == 3 else 16
    shape = (n, n, n) if dim == 3 else (n, n, 1)
    pts = wbsys.mp_points(shape) + np.array([0.0137, 0.0291, 0.0173 if dim == 3 else 0.0])[None, :]
    return pts


def build_model(case):
    """H(k) = diag(0,s,2s,..) + T(k) with ||T(k)||_2 <= tau for every k  =>  every direct gap >= s - 2 tau = case['gap']
    (Weyl's inequality), so no band touching anywhere in the BZ, not only on a mesh"""
    dim = case["dim"]
    first = [[1, 0, 0], [0, 1, 0]] + ([[0, 0, 1]] if dim == 3 else [])
    p = dict(lat=case["lat"], nw=case["nw"], R=first + [list(r) for r in case["extra"]], centres=case["centres"],
             ckind="generic", keys=["Ham"] + (["SS"] if case["ss"] == "random" else []) +
             (["AA", "BB", "CC"] if case.get("ext") else []), rs=case["rs"],
             decay=case["decay"])
    model = wbsys.make_model(p)
    H = model.mats["Ham"]
    i0 = [tuple(int(x) for x in r) for r in model.iRvec].index((0, 0, 0))
    H[i0] = H[i0] - np.diag(np.diag(H[i0]))
    hop = [i for i in range(len(H)) if i != i0]
    tau = float(case["tau"])
    H[i0] *= 0.25 * tau / float(np.linalg.norm(H[i0], 2))                       # on-site mixing: a quarter of the budget
    H[hop] *= 0.75 * tau / sum(float(np.linalg.norm(H[i], 2)) for i in hop)     # dispersion: three quarters
    s = float(case["gap"]) + 2 * float(case["tau"])
    H[i0] += np.diag(np.arange(model.nw) * s)
    E = np.array([model.bands(k) for k in own_mesh(dim)])
    gap = float(np.min(np.diff(E, axis=1)))
    if gap < float(case["gap"]) - 1e-9:
        raise RuntimeError("harness: gap bound violated by own model")
    return model, float(E.min()), float(E.max()), gap, s


EF_REFINE = 4      # Fermi grid = 4*(nE-1)+1 points: the smoother is a plain sum over the grid, and the T=0 curves have van Hove
#                    kinks/jumps, so a coarse Fermi grid adds a quadrature error of its own (measured: 30 % at dE = 0.3 kT for a
#                    0.5 eV wide band, 1 % at dE = 0.075 kT) that would be mistaken for a sea/f'' disagreement


def calculators(case, Ef, smoother, which="main"):
    from wannierberri.calculators import static
    kw = dict(Efermi=Ef, smoother=smoother, use_factor=bool(case["use_factor"]), tetra=True)
    if which == "d2":
        kw.update(tetra=False)
        return dict(nldrude_d2=static.NLDrude_Fermider2(**kw))
    it = dict(kwargs_formula={"external_terms": False})
    # external terms (case['ext']: the model then has AA, BB, CC matrices) are switched on for the Berry-dipole pair only, see docstring
    bd = dict(kwargs_formula={"external_terms": bool(case.get("ext"))})
    # hole_like is an option of the Fermi-sea forms only (fder=0: f -> f-1 and the tetrahedron weights 1-w, see docstring)
    sea = dict(kw, hole_like=True) if case.get("hole") else kw
    return dict(
        ohmic_sea=static.Ohmic_FermiSea(**sea), ohmic_surf=static.Ohmic_FermiSurf(**kw),
        berrydipole_sea=static.BerryDipole_FermiSea(**sea, **bd), berrydipole_surf=static.BerryDipole_FermiSurf(**kw, **bd),
        gme_spin_sea=static.GME_spin_FermiSea(**sea), gme_spin_surf=static.GME_spin_FermiSurf(**kw),
        gme_orb_sea=static.GME_orb_FermiSea(**sea, **it), gme_orb_surf=static.GME_orb_FermiSurf(**kw, **it),
        nldrude_sea=static.NLDrude_FermiSea(**sea), nldrude_surf=static.NLDrude_FermiSurf(**kw))


# (name, sea key, partner key, transposition that must be distinguishable or None for symmetric tensors)
PAIRS = [("ohmic", "ohmic_sea", "ohmic_surf", None),
         ("berrydipole", "berrydipole_sea", "berrydipole_surf", (0, 2, 1)),
         ("gme_spin", "gme_spin_sea", "gme_spin_surf", (0, 2, 1)),
         ("gme_orb", "gme_orb_sea", "gme_orb_surf", (0, 2, 1)),
         ("nldrude", "nldrude_sea", "nldrude_surf", None),
         ("nldrude_d2", "nldrude_sea", "nldrude_d2", None)]


def rel(a, b):
    s = max(maxabs(a), maxabs(b))
    return maxabs(a - b) / s if s > 0 else 0.0


def run_once(system, case, Ef, smoother, NKdiv, NKFFT, scratch, tag, which="main"):
    import wannierberri as wb
    grid = wb.Grid(system, NKdiv=np.array(NKdiv), NKFFT=np.array(NKFFT), use_symmetry=False)
    res = wb.run(system, grid=grid, calculators=calculators(case, Ef, smoother, which), parallel=False, adpt_num_iter=0,
                 use_irred_kpt=False, symmetrize=False, fout_name=os.path.join(scratch, "res_" + tag), suffix="",
                 restart=False, file_Klist_path=os.path.join(scratch, "klist_" + tag), print_progress_step_time=1e9)
    data = {}
    for k, v in res.results.items():
        E = np.array(v.Energies[0])
        if E.shape != Ef.shape or np.max(np.abs(E - Ef)) > 1e-9:
            raise Violation("fermi-grid", f"{k}: result is not given on the requested Fermi grid")
        data[k] = np.array(v.dataSmooth, dtype=float)
    return data


class Evaluation:
    """one case: the judged run, the pair measurements, and (lazily, only needed before a violation is declared) the
    coarser run that tells whether the judged grid is converged"""

    def __init__(self, case):
        from wannierberri.smoother import FermiDiracSmoother
        from scipy.constants import Boltzmann, elementary_charge
        self.case = case
        model, lo, hi, gap, spacing = build_model(case)
        dim = case["dim"]
        self.system = wbsys.to_system(model, periodic=(True, True, dim == 3))
        if case["ss"] == "pairs":
            self.system.set_spin_pairs([(0, 1)])
        kT = float(case["T"]) * Boltzmann / elementary_charge
        self.Ef = np.linspace(lo - 3 * kT, hi + 3 * kT, EF_REFINE * (int(case["nE"]) - 1) + 1)
        self.smoother = FermiDiracSmoother(self.Ef, T_Kelvin=float(case["T"]))
        self.grids = GRIDS[dim][case["grid"]]
        with scratch_dir() as d:
            self.data = run_once(self.system, case, self.Ef, self.smoother, self.grids[0], self.grids[1], d, "fine")
            if dim == 2:
                # the f'' form (plain sum, see module docstring) on a twice finer k-grid; not judged in 3D
                div2 = [2 * x if x > 1 else 1 for x in self.grids[0]]
                self.data.update(run_once(self.system, case, self.Ef, self.smoother, div2, self.grids[1], d, "d2", "d2"))
        judged = np.where((self.Ef >= lo) & (self.Ef <= hi))[0]
        if len(judged) < 80:
            raise Inconclusive("fewer than 80 Fermi levels inside the band range")
        self.sl = slice(int(judged[0]), int(judged[-1]) + 1)
        self.info = dict(gap=gap, spacing=spacing, lo=lo, hi=hi, kT=kT, njudged=len(judged), NE1=int(self.smoother.NE1))
        self.out = {}
        for name, ka, kb, tr in PAIRS:
            if kb not in self.data:
                continue
            A = self.data[ka][self.sl]
            B = self.data[kb][self.sl]
            if name == "nldrude_d2" and not case["use_factor"]:
                B = 0.5 * B
            if A.shape != B.shape:
                raise Violation(f"{name}:shape", f"{ka} {A.shape} vs {kb} {B.shape}")
            self.out[name] = dict(rel=rel(A, B), flip=rel(A, -B), transp=(rel(A, np.transpose(B, tr)) if tr else None),
                                  scale=max(maxabs(A), maxabs(B)))
        self._conv = None

    def conv(self, name):
        """sum of the relative changes of the two calculators of a pair between the coarser and the judged grid"""
        if self._conv is None:
            with scratch_dir() as d:
                coarse = run_once(self.system, self.case, self.Ef, self.smoother, self.grids[2], self.grids[3], d, "coarse")
                if "nldrude_d2" in self.data:
                    coarse.update(run_once(self.system, self.case, self.Ef, self.smoother, self.grids[0], self.grids[1], d,
                                           "d2c", "d2"))
            self._conv = {k: rel(self.data[k][self.sl], coarse[k][self.sl]) for k in self.data}
        ka, kb = [(a, b) for n, a, b, _ in PAIRS if n == name][0]
        return self._conv[ka] + self._conv[kb]


def judge_pairs(ev, pairs, dim, thresh, secondary, describe):
    """verdict logic shared by both subs (module docstring, `Verdict per pair`): returns (status, margin, unconverged, blind);
    raises Violation only for a converged disagreement beyond CLEAR"""
    out = ev.out
    margin, unconverged, blind, status = [], [], [], {}
    for name, _, _, tr in pairs:
        if name not in out:
            status[name] = "not-judged"
            continue
        r = out[name]
        p_ok, p_clear, p_conv = thresh(name)
        sec = secondary(name)
        if not np.isfinite(r["rel"]):
            raise Violation(f"{name}:not-finite", "result contains NaN/inf")
        if r["scale"] == 0:
            blind.append(name)
            status[name] = "zero"
            continue
        status[name] = "agrees"
        if r["rel"] > p_clear:
            cv = ev.conv(name)
            if not cv <= p_conv:
                status[name] = "not-converged"
                if not sec:
                    unconverged.append(name)
                continue
            how = "sign" if r["flip"] < p_ok else ("index order" if (r["transp"] is not None and r["transp"] < p_ok) else "value")
            raise Violation(f"{name}:sea-vs-surface",
                            f"{name}: the two forms differ by {r['rel']:.3f} of the tensor scale ({how}; sign-flipped partner "
                            f"{r['flip']:.3f}, transposed partner {r['transp']}) although both changed by only "
                            f"{cv:.3f} (sum) between the two grids; {describe}")
        if r["rel"] > p_ok:
            status[name] = "inside-margin"
            if not sec:
                margin.append(name)
        if tr is not None and r["transp"] <= GUARD:
            blind.append(name)
    return status, margin, unconverged, blind


def check(case):
    ev = Evaluation(case)
    out, info = ev.out, ev.info
    dim = case["dim"]
    status, margin, unconverged, blind = judge_pairs(
        ev, PAIRS, dim, lambda name: THRESH.get((name, dim), THRESH["default"]), lambda name: (name, dim) in SECONDARY,
        f"dim={dim} T={case['T']} use_factor={case['use_factor']} hole_like={bool(case.get('hole'))} gap>={case['gap']} "
        f"judged levels={info['njudged']}")
    if "nldrude_d2" not in out:
        status["nldrude_d2"] = "not-judged-in-3D"
    if unconverged:
        raise Inconclusive("not converged: " + ",".join(unconverged))
    if margin:
        raise Inconclusive("inside the margin: " + ",".join(margin))
    nt = not blind
    worst = max(out[n]["rel"] for n in ("ohmic", "berrydipole", "gme_spin", "gme_orb"))
    return ok(nt, f"dim={dim}", f"nw={case['nw']}", f"ss={case['ss']}", f"use_factor={case['use_factor']}",
              "hole_like" if case.get("hole") else "electron_like", "external-terms" if case.get("ext") else "internal-only",
              case["lat"]["kind"], "rel<1%" if worst < 0.01 else ("rel<2.5%" if worst < 0.025 else "rel<5%"),
              f"nldrude:{status['nldrude']}", f"f''form:{status['nldrude_d2']}",
              ("blind:" + ",".join(blind)) if blind else "all-pairs-discriminating")


# ------------------------------------------------------------------------------------------------
# sub "kp": k.p models (SystemKP) with a closed pocket well inside the k-box

KP_LATTICES = ["hexagonal", "monoclinic", "triclinic", "generic", "hexagonal60", "rhombohedral", "sc", "orthorhombic",
               "tetragonal", "fcc", "bcc"]
# (NKdiv, NKFFT) judged / coarse; 3D as for the tight-binding sub (24^3 / 16^3), 2D 60^2 / 40^2 or 64^2 / 40^2
KP_GRIDS = {3: GRIDS[3],
            2: [([6, 6, 1], [10, 10, 1], [4, 4, 1], [10, 10, 1]), ([8, 8, 1], [8, 8, 1], [5, 5, 1], [8, 8, 1]),
                ([5, 5, 1], [12, 12, 1], [5, 5, 1], [8, 8, 1])]}
# (PASS, CLEAR, CONV) per pair and dimension, calibration in the module docstring
KP_THRESH = {("ohmic", 2): (0.02, 0.08, 0.04), ("berrydipole", 2): (0.05, 0.15, 0.06), ("gme_orb", 2): (0.05, 0.15, 0.06),
             ("nldrude", 2): (0.15, 0.35, 0.10),
             ("ohmic", 3): (0.05, 0.15, 0.06), ("berrydipole", 3): (0.15, 0.35, 0.12), ("gme_orb", 3): (0.15, 0.35, 0.12),
             ("nldrude", 3): (0.15, 0.35, 0.12)}
KP_EXACT = (0.02, 0.06, 0.03)        # (PASS, CLEAR, CONV) of one Ohmic form against the exact value of the parabolic pocket
KP_PAIRS = [("ohmic", "ohmic_sea", "ohmic_surf", None),
            ("nldrude", "nldrude_sea", "nldrude_surf", None),
            ("berrydipole", "berrydipole_sea", "berrydipole_surf", (0, 2, 1)),
            ("gme_orb", "gme_orb_sea", "gme_orb_surf", (0, 2, 1))]
KP_BELOW = 8.0       # judged Fermi levels are >= this many kT above the band bottom ...
KP_ABOVE = 15.5      # ... and <= E_face - this many kT:  f < 2e-7 and f' < 7.5e-7 of its pocket value (1/4kT) on the boundary
KP_WINDOW = 8.2      # the Fermi grid extends this many kT beyond the judged levels (the smoother reaches 8 kT)
KP_STEP = 0.25       # Fermi grid step / kT


@st.composite
def kp_case_st(draw):
    dim = draw(st.sampled_from([2, 2, 2, 3]))
    box = draw(st.sampled_from(["real", "real", "recip", "kmax"]))
    nb = draw(st.sampled_from([2, 1]))
    kind = "trig" if nb == 2 else draw(st.sampled_from(["parabolic", "trig"]))
    return dict(dim=dim, box=box, lat=(draw(wbsys.lattice_st(kinds=KP_LATTICES)) if box != "kmax" else None),
                kmax=(draw(fl(0.3, 3.0, 3)) if box == "kmax" else None), nb=nb, kind=kind,
                ratios=[draw(fl(1.15, 2.5, 3)), draw(fl(1.3, 2.5, 3))], angles=[draw(fl(0.2, 2.9, 3)) for _ in range(3)],
                amp=draw(fl(0.05, 0.15, 3)), delta=draw(fl(0.12, 0.3, 3)), nterms=draw(st.integers(2, 4)),
                rs=draw(st.integers(0, 2 ** 32)), T=draw(fl(300.0, 2000.0, 1)), ratio=draw(fl(40.0, 70.0, 1)),
                grid=draw(st.integers(0, 2)), use_factor=draw(st.booleans()), cartesian=draw(st.sampled_from([True, False])),
                # which derivatives of the Hamiltonian are left to the finite-difference scheme of SystemKP (the minimal
                # example mixes an analytic first with a numerical second derivative)
                fd1=draw(st.sampled_from([False, True])), fd2=draw(st.sampled_from([True, False])),
                fd3=draw(st.sampled_from([False, True])), dk=draw(st.sampled_from([1e-4, 1e-3])),
                periodic3=draw(st.booleans()))


def kp_recip(case):
    if case["box"] == "kmax":
        return np.eye(3) * 2 * float(case["kmax"])
    L = wbsys.lattice_matrix(case["lat"])
    return 2 * np.pi * np.linalg.inv(L).T if case["box"] == "real" else L


def kp_model(case):
    """the model, scaled to the temperature, and the Fermi windows; asserts the closed-pocket precondition from the harness'
    own evaluation of the bands on the boundary of the box"""
    from scipy.constants import Boltzmann, elementary_charge
    from vlib import kp28
    dim = case["dim"]
    m = kp28.PocketModel(kp_recip(case), dim, case["nb"], case["kind"], case["ratios"], case["angles"], case["amp"],
                         case["delta"], case["nterms"], case["rs"])
    kT = float(case["T"]) * Boltzmann / elementary_charge
    interior = m.interior_points(121 if dim == 2 else 33)
    m.set_scale(1.0)
    bottom1 = float(m.bands_red(interior)[:, 0].min())
    m.set_scale(float(case["ratio"]) * kT / (m.face_bound - bottom1))        # E_face - bottom = ratio * kT
    E = m.bands_red(interior)
    bottom = float(E[:, 0].min())            # >= the true minimum: every judged level is inside the band range
    face = m.face_bound
    lo, hi = bottom + KP_BELOW * kT, face - KP_ABOVE * kT
    dE = KP_STEP * kT
    n = int(np.ceil((hi - lo + 2 * KP_WINDOW * kT) / dE))
    Ef = lo - KP_WINDOW * kT + dE * np.arange(n + 1)
    boundary = float(m.bands_red(m.boundary_points(241 if dim == 2 else 49))[:, 0].min())
    if boundary < face - 1e-9 * abs(face):
        raise RuntimeError("harness: own lower bound of the band energy on the box boundary is wrong")
    if not (Ef[-1] <= boundary - (KP_ABOVE - KP_WINDOW - 2 * KP_STEP) * kT and hi <= boundary - KP_ABOVE * kT and hi - lo > 12 * kT):
        raise RuntimeError("harness: closed-pocket precondition not met by the generated model")
    info = dict(kT=kT, bottom=bottom, face=face, boundary=boundary, lo=lo, hi=hi,
                gap=(float(np.min(E[:, 1] - E[:, 0])) if m.nb == 2 else None),
                second_band=(float(E[:, 1].min()) if m.nb == 2 else None))
    return m, Ef, info


KP_CALLS = 1.1e6     # affordable number of calls of the model functions per run (~20 us each)


def kp_system(case, m):
    """SystemKP with the drawn derivatives left to its finite-difference scheme.  Nested stencils multiply the number of calls
    of the model functions per k-point (nb^depth, nb = 6..12 stencil vectors): when the run would need more than KP_CALLS
    calls, the highest-order numerical derivative is supplied analytically instead (repeatedly).  Returns the system and the
    flags actually used."""
    from wannierberri.system import SystemKP
    cart = bool(case["cartesian"])
    fd = [bool(case["fd1"]), bool(case["fd2"]), bool(case["fd3"])]
    if case["kind"] == "parabolic":
        fd[2] = False                      # the third derivative is never evaluated for these models
    nk = int(np.prod(KP_GRIDS[case["dim"]][case["grid"]][0]) * np.prod(KP_GRIDS[case["dim"]][case["grid"]][1]))
    while True:
        depth, d = [], 0
        for f in fd:                      # nesting depth of each numerical derivative
            d = d + 1 if f else 0
            depth.append(d)
        dk = 1e-3 if depth[2] == 3 else float(case["dk"])     # three nested stencils: round-off ~ eps/h^3 needs the larger step
        kw = dict(k_vector_cartesian=cart, finite_diff_dk=dk, silent=True)
        if case["box"] == "kmax":
            kw["kmax"] = float(case["kmax"])
        elif case["box"] == "real":
            kw.update(kmax=None, real_lattice=wbsys.lattice_matrix(case["lat"]))
        else:
            kw.update(kmax=None, recip_lattice=wbsys.lattice_matrix(case["lat"]))
        for i, name in enumerate(["derHam", "der2Ham", "der3Ham"]):
            if not fd[i]:
                kw[name] = m.fun(i + 1, cart)
        if case["dim"] == 2 and not case["periodic3"]:
            kw["periodic"] = (True, True, False)
        system = SystemKP(Ham=m.fun(0, cart), **kw)
        if not np.allclose(system.recip_lattice, m.recip, rtol=1e-9, atol=1e-12):
            raise RuntimeError("harness: reciprocal lattice of the system is not the one of the model")
        nb = len(system.wk)
        if nk * sum(nb ** x for x in depth) <= KP_CALLS or not any(fd):
            return system, fd
        fd[max(i for i in range(3) if fd[i])] = False


def kp_calculators(case, Ef, smoother):
    from wannierberri.calculators import static
    kw = dict(Efermi=Ef, smoother=smoother, use_factor=bool(case["use_factor"]), tetra=True)
    c = dict(ohmic_sea=static.Ohmic_FermiSea(**kw), ohmic_surf=static.Ohmic_FermiSurf(**kw))
    if case["kind"] != "parabolic":       # third derivative of a parabolic band vanishes identically: nothing to compare
        c.update(nldrude_sea=static.NLDrude_FermiSea(**kw), nldrude_surf=static.NLDrude_FermiSurf(**kw))
    if case["nb"] == 2:
        c.update(berrydipole_sea=static.BerryDipole_FermiSea(**kw), berrydipole_surf=static.BerryDipole_FermiSurf(**kw),
                 gme_orb_sea=static.GME_orb_FermiSea(**kw), gme_orb_surf=static.GME_orb_FermiSurf(**kw))
    return c


def kp_run(system, case, Ef, smoother, NKdiv, NKFFT, scratch, tag):
    import wannierberri as wb
    grid = wb.Grid(system, NKdiv=np.array(NKdiv), NKFFT=np.array(NKFFT), use_symmetry=False)
    res = wb.run(system, grid=grid, calculators=kp_calculators(case, Ef, smoother), parallel=False, adpt_num_iter=0,
                 use_irred_kpt=False, symmetrize=False, fout_name=os.path.join(scratch, "res_" + tag), suffix="",
                 restart=False, file_Klist_path=os.path.join(scratch, "klist_" + tag), print_progress_step_time=1e9)
    data = {}
    for k, v in res.results.items():
        E = np.array(v.Energies[0])
        if E.shape != Ef.shape or np.max(np.abs(E - Ef)) > 1e-9:
            raise Violation("fermi-grid", f"{k}: result is not given on the requested Fermi grid")
        data[k] = np.array(v.dataSmooth, dtype=float)
    return data


def kp_exact_ohmic(case, m, Ef_judged, kT):
    """exact Ohmic tensor of the parabolic pocket E = k.M.k/2 at temperature T (documented units: e^2/hbar * tau * int[dk]
    d_b v_a f with tau = 1 fs, S/m): d_b v_a = M_ab is constant, so sigma_ab = factor * M_ab * n, n = int[dk] f = occupied
    fraction of the box / cell volume (in 2D of the one k-plane that the grid samples), and the occupied fraction is the
    zero-temperature one (area/volume of the ellipse/ellipsoid) folded with -f' by the harness' own quadrature"""
    from scipy.constants import elementary_charge, hbar, angstrom
    x = np.linspace(-40.0, 40.0, 16001)                      # (E' - Ef)/kT
    w = 0.25 / np.cosh(0.5 * x) ** 2
    w /= np.sum(w)
    frac = np.array([np.sum(w * m.parabolic_fraction(e + kT * x)) for e in Ef_judged])
    vol = (2 * np.pi) ** 3 / abs(np.linalg.det(m.recip))
    fac = elementary_charge ** 3 / hbar ** 2 / angstrom * 1e-15 if case["use_factor"] else 1.0
    return fac * frac[:, None, None] * m.M[None, :, :] / vol


class KPEvaluation:
    def __init__(self, case):
        from wannierberri.smoother import FermiDiracSmoother
        self.case = case
        self.model, self.Ef, self.info = kp_model(case)
        self.system, self.fd = kp_system(case, self.model)
        self.smoother = FermiDiracSmoother(self.Ef, T_Kelvin=float(case["T"]))
        if int(self.smoother.NE1) * (self.Ef[1] - self.Ef[0]) > KP_WINDOW * self.info["kT"]:
            raise RuntimeError("harness: the smoother reaches beyond the Fermi grid")
        self.grids = KP_GRIDS[case["dim"]][case["grid"]]
        with scratch_dir() as d:
            self.data = kp_run(self.system, case, self.Ef, self.smoother, self.grids[0], self.grids[1], d, "fine")
        judged = np.where((self.Ef >= self.info["lo"]) & (self.Ef <= self.info["hi"]))[0]
        self.sl = slice(int(judged[0]), int(judged[-1]) + 1)
        self.info["njudged"] = len(judged)
        self.out = {}
        for name, ka, kb, tr in KP_PAIRS:
            if ka not in self.data:
                continue
            A, B = self.data[ka][self.sl], self.data[kb][self.sl]
            if A.shape != B.shape:
                raise Violation(f"{name}:shape", f"{ka} {A.shape} vs {kb} {B.shape}")
            self.out[name] = dict(rel=rel(A, B), flip=rel(A, -B), transp=(rel(A, np.transpose(B, tr)) if tr else None),
                                  scale=max(maxabs(A), maxabs(B)))
        self.exact = None
        if case["kind"] == "parabolic":
            self.exact = kp_exact_ohmic(case, self.model, self.Ef[self.sl], self.info["kT"])
        self._conv = None

    def conv1(self, key):
        if self._conv is None:
            with scratch_dir() as d:
                coarse = kp_run(self.system, self.case, self.Ef, self.smoother, self.grids[2], self.grids[3], d, "coarse")
            self._conv = {k: rel(self.data[k][self.sl], coarse[k][self.sl]) for k in self.data}
        return self._conv[key]

    def conv(self, name):
        ka, kb = [(a, b) for n, a, b, _ in KP_PAIRS if n == name][0]
        return self.conv1(ka) + self.conv1(kb)


def check_kp(case):
    ev = KPEvaluation(case)
    info, m = ev.info, ev.model
    dim = case["dim"]
    asym = float(np.linalg.norm(m.recip - m.recip.T) / np.linalg.norm(m.recip))
    fd = "".join("n" if f else "a" for f in ev.fd)
    describe = (f"k.p model dim={dim} bands={case['nb']} {case['kind']} box={case['box']} derivatives(1,2,3)={fd} "
                f"(a analytic, n numerical) cartesian={case['cartesian']} T={case['T']} use_factor={case['use_factor']} "
                f"|B-B^T|/|B|={asym:.2f} judged levels={info['njudged']}")
    status, margin, unconverged, blind = judge_pairs(
        ev, KP_PAIRS, dim, lambda name: KP_THRESH[(name, dim)],
        lambda name: False, describe)
    exact = "no-exact-value"
    if ev.exact is not None:
        p_ok, p_clear, p_conv = KP_EXACT
        exact = "exact-value:agrees"
        for key in ("ohmic_sea", "ohmic_surf"):
            A = ev.data[key][ev.sl]
            if A.shape != ev.exact.shape:
                raise Violation(f"{key}:shape", f"{A.shape} vs {ev.exact.shape}")
            r = rel(A, ev.exact)
            if r > p_clear:
                cv = ev.conv1(key)
                if not cv <= p_conv:
                    unconverged.append(key + "/exact")
                    continue
                raise Violation(f"{key}:exact-value",
                                f"{key} differs by {r:.3f} of the tensor scale from the exact value factor*M_ab*n(T) of the "
                                f"parabolic pocket (sign-flipped {rel(A, -ev.exact):.3f}) although it changed by only {cv:.3f} "
                                f"between the two grids; {describe}")
            if r > p_ok:
                margin.append(key + "/exact")
    if unconverged:
        raise Inconclusive("not converged: " + ",".join(unconverged))
    if margin:
        raise Inconclusive("inside the margin: " + ",".join(margin))
    worst = max(ev.out[n]["rel"] for n in ("ohmic", "berrydipole") if n in ev.out)
    mixed = len(set(fd[:2] if case["kind"] == "parabolic" else fd)) > 1
    two = info["second_band"] is not None and info["second_band"] < info["hi"]
    return ok(not blind, f"dim={dim}", f"bands={case['nb']}", case["kind"], f"box={case['box']}",
              (case["lat"]["kind"] if case["lat"] else "cubic-kmax"),
              "recip-nonsymmetric" if asym > 0.05 else "recip-symmetric", f"der={fd}",
              "frame-sensitive" if (mixed and asym > 0.05) else None,
              "cartesian-k" if case["cartesian"] else "reduced-k", f"use_factor={case['use_factor']}",
              ("periodic=TTT" if case["periodic3"] else "periodic=TTF") if dim == 2 else None,
              "both-bands-occupied" if two else None, exact,
              "rel<0.5%" if worst < 0.005 else ("rel<2%" if worst < 0.02 else "rel>=2%"),
              *[f"{n}:{status[n]}" for n in ("nldrude", "gme_orb") if n in ev.out],
              ("blind:" + ",".join(blind)) if blind else "all-pairs-discriminating")


SUBS = [Sub("pairs", case_st(), check, quick=4, thorough=32, budget_quick=600, budget_thorough=1800, per_shard_min=1),
        Sub("kp", kp_case_st(), check_kp, quick=8, thorough=32, budget_quick=600, budget_thorough=1800, per_shard_min=1)]
