"""C10  Adaptive refinement keeps the reported integral consistent (DESIGN 4/C10)

Oracle (from scratch): after every iteration the harness takes the *current* K-point list of run()
(the list object handed out by grid.get_K_list, which run() refines in place) with the current weights,
re-evaluates every alive K-point itself (data_K + calculators + point-group symmetrisation, exactly what
run() does for one point, but done by the harness on a fresh data object), and forms sum_i w_i R_i.
That sum must equal (a) the result object at the moment it is saved for that iteration, (b) the .npz file
saved for that iteration, (c) the result returned at the end.  The same case is run in a second storage
mode (memory / allow_restart / dump_results) and must return the same numbers.

Sub 'deep' is the boundary generator for weights below 1e-8 (defect D10): 1x1x1 grid, refinement mesh
(6,1,1), two-band model with a Berry-curvature hot spot, so that the refined cell's weight falls to 6^-L.
"""
import os
import numpy as np
from hypothesis import strategies as st

from vlib.runner import Sub, Violation, ok
from vlib.util import fl, scratch_dir
from vlib import wbsys, runhelp

PROPERTY_ID = "C10"
RULE = ("random 1-3 band models on triclinic/orthorhombic/tetragonal/cubic/hexagonal lattices with a declared point "
        "group (5 families x 3-10 generator sets), NKdiv<=3^3, NKFFT<=2^3, adpt_num_iter 0..4, adpt_mesh in "
        "{2,3,(2,1,2),(1,3,1)}, adpt_fac 1..3, 1-3 static calculators (9 kinds, tetra and non-tetra), irreducible or "
        "full K list, two storage modes per case; non-trivial = at least one iteration in which an already evaluated "
        "K-point changed weight (refined to 0 or absorbed weight); sub 'deep': hot-spot model refined 18-30 times with meshes (6..12,1,1), "
        "non-trivial = some refined point had weight < 1e-8")
ASSUMPTIONS = ["per-K evaluation (data_K + calculator) is deterministic, so re-evaluating a K-point reproduces its result",
               "tolerance 1e-9 * sum_i |w_i| max|R_i| (rounding of a reordered weighted sum)",
               "the declared point group need not be a symmetry of the random model: the property is about weight/result "
               "bookkeeping, which must hold for any model"]
MIN_NONTRIVIAL = {"quick": 8, "thorough": 100}
TOL = 1e-9
ABS_FLOOR = 1e-13   # results are in natural units (use_factor=False): quantities that vanish carry rounding noise only

MESHES = [2, 3, [2, 1, 2], [1, 3, 1]]
MODES = ["memory", "allow_restart", "dump_results"]

case_st = st.fixed_dictionaries(dict(
    g=runhelp.grid_case_st(),
    calcs=runhelp.calcs_case_st(),
    niter=st.integers(0, 4),
    mesh=st.sampled_from(MESHES),
    fac=st.integers(1, 3),
    irred=st.booleans(),
    modes=st.lists(st.sampled_from(MODES), min_size=2, max_size=2, unique=True),
))


def mode_kwargs(mode):
    return dict(memory={}, allow_restart=dict(allow_restart=True), dump_results=dict(dump_results=True))[mode]


def run_one(system, grid, calcs, scratch, tag, case, mode, niter, mesh, fac, irred):
    import wannierberri as wb
    cap = runhelp.Capture()
    kw = runhelp.run_kwargs(scratch, tag, adpt_num_iter=niter, adpt_mesh=mesh, adpt_fac=fac,
                            use_irred_kpt=irred, symmetrize=irred, **mode_kwargs(mode))
    with runhelp.capture_run(cap):
        res = wb.run(system, grid, calcs, **kw)
    return res, cap, kw


def compare(tag, got, ref, scale, what):
    for k, d in ref.items():
        if k not in got:
            raise Violation(f"{tag}:missing-key", f"{what}: result '{k}' missing")
        g = np.asarray(got[k])
        if g.shape != np.asarray(d).shape:
            raise Violation(f"{tag}:shape", f"{what}: '{k}' {g.shape} vs {np.asarray(d).shape}")
        err = float(np.max(np.abs(g - d))) if g.size else 0.0
        if err > TOL * scale[k] + ABS_FLOOR:
            raise Violation(tag, f"{what}: '{k}' differs from the from-scratch weighted sum by {err:.3e} "
                                 f"(scale {scale[k]:.3e}, rel {err / max(scale[k], 1e-300):.2e})")


def check_history(system, grid, calcs, res, cap, kw, irred, tagp=""):
    """from-scratch oracle for one finished run; returns (#weight-changing iterations, min refined weight)"""
    from wannierberri.result import EnergyResult
    ev = runhelp.ScratchEvaluator(system, grid, calcs, symmetrize=irred)
    K = cap.K_list
    if K is None:
        raise RuntimeError("K list was not captured")
    changed_iters = 0
    min_refined = np.inf
    prev = None
    for snap in cap.snapshots:
        Ks = K[:snap["n"]]
        tot, scale = ev.weighted_sum(Ks, snap["factors"])
        compare(tagp + "iteration-result", snap["data"], tot, scale, f"iteration {snap['i_iter']}")
        for k in tot:
            fn = f"{kw['fout_name']}-{k}_iter-{snap['i_iter']:04d}.npz"
            if not os.path.isfile(fn):
                raise Violation(tagp + "saved-file-missing", fn)
            saved = EnergyResult.from_npz(fn)
            compare(tagp + "saved-result", {k: saved.data}, {k: tot[k]}, scale, f"file of iteration {snap['i_iter']}")
        if prev is not None:
            old = np.array(prev["factors"])
            new = np.array(snap["factors"][:len(old)])
            ch = np.where(old != new)[0]
            if len(ch):
                changed_iters += 1
                refined = [old[i] for i in ch if new[i] == 0]
                if refined:
                    min_refined = min(min_refined, min(refined))
        prev = snap
    # returned result == from scratch on the final list
    fin = [float(k.factor) for k in K]
    tot, scale = ev.weighted_sum(K, fin)
    compare(tagp + "returned-result", {k: v.data for k, v in res.results.items()}, tot, scale, "returned result")
    if abs(sum(fin) - 1) > 1e-9:
        raise Violation(tagp + "weights-sum", f"sum of weights {sum(fin)!r}")
    return changed_iters, min_refined


def check(case):
    model, system, grid = runhelp.build(case["g"])
    has_AA = "AA" in model.mats
    names = case["calcs"]["names"]
    irred = case["irred"]
    mesh = case["mesh"]
    datas = []
    nchanged = 0
    merges = 0
    with scratch_dir() as scratch:
        for im, mode in enumerate(case["modes"]):
            calcs = runhelp.make_calculators(names, case["calcs"]["Efermi"], has_AA)
            res, cap, kw = run_one(system, grid, calcs, scratch, f"m{im}", case, mode, case["niter"],
                                   mesh if isinstance(mesh, int) else list(mesh), case["fac"], irred)
            if len(cap.snapshots) != case["niter"] + 1:
                raise Violation("iterations-saved", f"{len(cap.snapshots)} saved iterations for adpt_num_iter={case['niter']}")
            ch, _ = check_history(system, grid, calcs, res, cap, kw, irred)
            nchanged = max(nchanged, ch)
            merges = max(merges, cap.global_merges)
            datas.append({k: np.array(v.data) for k, v in res.results.items()})
        for k in datas[0]:
            s = 1.0 + float(np.max(np.abs(datas[0][k])))
            if np.max(np.abs(datas[0][k] - datas[1][k])) > 1e-10 * s:
                raise Violation("storage-modes-differ", f"{case['modes']} give different '{k}'")
    grp = len(system.pointgroup.symmetries)
    nt = nchanged >= 1 and (merges >= 1 or not case.get("need_merge"))
    return ok(nt, f"niter={case['niter']}", "irred" if irred else "full", f"group={grp}",
              "+".join(sorted(case["modes"])), f"mesh={mesh}", case["g"]["model"]["lat"]["kind"],
              "new-points-merged-across-parents" if merges else None)


# symmetric refinement in which new points of DIFFERENT parents are symmetry equivalent and are merged by the global
# exclude_equiv_points() (hexagonal / fcc / bcc / cubic groups), several iterations, results dumped to disk
merge_st = st.fixed_dictionaries(dict(
    g=runhelp.grid_case_st(max_div=2, max_fft=2, kinds=["hexagonal", "fcc", "bcc", "sc", "tetragonal"], max_wann=2),
    calcs=runhelp.calcs_case_st(names=["ahc_int", "cumdos", "ohmic_sea", "dos"], max_calcs=2),
    niter=st.integers(3, 6),
    mesh=st.sampled_from([2, 2, 3]),
    fac=st.integers(2, 3),
    irred=st.just(True),
    need_merge=st.just(True),
    modes=st.sampled_from([["dump_results", "memory"], ["dump_results", "allow_restart"], ["allow_restart", "memory"]]),
))


# restart from an EARLIER iteration than the last one (documented use of restart_iteration): the K list read from disk
# contains points created later, with zero weight; re-created children are absorbed by them
earlier_st = st.fixed_dictionaries(dict(
    g=runhelp.grid_case_st(max_div=2, max_fft=2),
    # quantities that do not vanish by symmetry and >= 3 Fermi levels inside the bands: every refinement criterion
    # (max, norm, norm of the derivative) then has a unique maximum, so the restarted run re-selects the points the
    # first run refined and their re-created children are absorbed by the stored ones (nothing new to evaluate)
    calcs=st.fixed_dictionaries(dict(
        names=st.sampled_from([["cumdos", "ohmic_sea"], ["cumdos"], ["ohmic_sea", "cumdos_tetra"]]),
        Efermi=st.sampled_from([[-0.41, -0.13, 0.15, 0.43], [-0.3, 0.1, 0.5], [-0.7, -0.35, 0.0, 0.35, 0.7]]))),
    first=st.integers(1, 3),
    back=st.sampled_from([1, 1, 2, 3, 0]),
    more=st.integers(1, 3),
    mesh=st.sampled_from(MESHES),
    fac=st.integers(1, 3),
    irred=st.booleans(),
    mode=st.sampled_from(["allow_restart", "dump_results"]),
))


def check_restart_earlier(case):
    import wannierberri as wb
    model, system, grid = runhelp.build(case["g"])
    has_AA = "AA" in model.mats
    irred = case["irred"]
    mesh = case["mesh"] if isinstance(case["mesh"], int) else list(case["mesh"])
    first = case["first"]
    r_it = max(0, first - case["back"])       # iteration to restart from: first, first-1, ... ,0
    with scratch_dir() as scratch:
        calcs = runhelp.make_calculators(case["calcs"]["names"], case["calcs"]["Efermi"], has_AA)
        res, cap, kw = run_one(system, grid, calcs, scratch, "E", case, case["mode"], first, mesh, case["fac"], irred)
        check_history(system, grid, calcs, res, cap, kw, irred, tagp="first-")
        cap2 = runhelp.Capture()
        kw2 = runhelp.run_kwargs(scratch, "E", adpt_num_iter=case["more"], adpt_mesh=mesh, adpt_fac=case["fac"],
                                 use_irred_kpt=irred, symmetrize=irred, restart=True, restart_iteration=r_it,
                                 **mode_kwargs(case["mode"]))
        calcs2 = runhelp.make_calculators(case["calcs"]["names"], case["calcs"]["Efermi"], has_AA)
        with runhelp.capture_run(cap2):
            res2 = wb.run(system, grid, calcs2, **kw2)
        ch, _ = check_history(system, grid, calcs2, res2, cap2, kw2, irred, tagp="restart-")
        absorbed = any(s2["n"] == s1_n for s2, s1_n in zip(cap2.snapshots, [len(cap.K_list)] * len(cap2.snapshots)))
    return ok(r_it < first and ch >= 1, f"restart_from={r_it}/{first}", "irred" if irred else "full", case["mode"],
              "earlier" if r_it < first else "last", "no-new-point-in-some-iteration" if absorbed else None)


deep_st = st.fixed_dictionaries(dict(
    eps=st.sampled_from([1e-6, 3e-7, 1e-7]),
    x0=fl(0.05, 0.45),
    niter=st.integers(18, 30),
    mesh=st.sampled_from([[6, 1, 1], [8, 1, 1], [10, 1, 1], [12, 1, 1]]),
    mode=st.sampled_from(MODES),
))


def check_deep(case):
    import wannierberri as wb
    from wannierberri.calculators import static
    x0 = case["x0"] + 0.0012345  # keep the hot spot off the refinement lattice
    model = runhelp.hot_model(case["eps"], x0)
    system = wbsys.to_system(model)
    grid = wb.Grid(system, NKdiv=1, NKFFT=1)
    calcs = {"ahc": static.AHC(Efermi=np.array([0.0]), kwargs_formula={"external_terms": False})}
    with scratch_dir() as scratch:
        res, cap, kw = run_one(system, grid, calcs, scratch, "deep", case, case["mode"], case["niter"],
                               list(case["mesh"]), 1, False)
        ch, min_refined = check_history(system, grid, calcs, res, cap, kw, False, tagp="deep-")
    minw = min(f for f in (k.factor for k in cap.K_list) if f > 0)
    return ok(min_refined < 1e-8, f"mesh={case['mesh']}", f"min-refined-weight<1e-8={min_refined < 1e-8}",
              f"log10(minw)={int(np.floor(np.log10(minw)))}", case["mode"])


SUBS = [
    Sub("history", case_st, check, quick=48, thorough=640, budget_quick=70, budget_thorough=500),
    Sub("merge", merge_st, check, quick=24, thorough=320, budget_quick=70, budget_thorough=500),
    Sub("restart_earlier", earlier_st, check_restart_earlier, quick=24, thorough=320, budget_quick=70, budget_thorough=500),
    Sub("deep", deep_st, check_deep, quick=8, thorough=96, budget_quick=60, budget_thorough=400),
]
