"""C04  Interpolated k-resolved quantities are periodic and gauge independent (DESIGN 4/C04)

(a) metamorphic: evaluate_k(k) == evaluate_k(k+G) for every reciprocal lattice vector G, for energies, band
    gradients, Berry curvature (internal, external, total), spin and orbital moment, on random Hermitian
    models that carry the external-term matrices AA, BB, CC, SS.
(b) metamorphic: the documented `random_gauge` option of the k-point data (a random unitary rotation inside
    every degenerate subspace) leaves every tabulated (group-averaged) and integrated result unchanged.
    Models with exact degeneracies: spin-doubled systems (every band twice) and block-diagonal copies.
    A guard verifies that the rotation really happened (eigenvectors of some degenerate block changed).
"""
import numpy as np
from hypothesis import strategies as st

from vlib.runner import Sub, Violation, Inconclusive, ok
from vlib.util import numpy_seed, rng_of, fl
from vlib import wbsys

PROPERTY_ID = "C04"
RULE = ("(a) random Hermitian models (1-4 WFs, 11 lattice families, centres inside/outside/coinciding) with Ham, AA, BB, "
        "CC, SS, k generic or high-symmetry, G in [-3..3]^3; non-trivial = G != 0 and external terms present. "
        "(b) spin-doubled (and block-copied) models with exact 2- or 4-fold degeneracies, random_gauge with numpy seeded "
        "from the case, two gauge seeds; non-trivial = at least one degenerate block whose eigenvectors were rotated by "
        "more than 1e-3")
ASSUMPTIONS = ["tolerance 1e-8*(1+scale)*max(1,(1e-3/gap)^2) with gap = smallest inter-group gap of the harness' own bands; "
               "cases with a gap in (1e-9, 1e-5) between distinct groups are inconclusive",
               "numpy's global RNG (used by random_gauge through scipy unitary_group) is seeded from the case"]
MIN_NONTRIVIAL = {"quick": 30, "thorough": 300}

KEYS = ("Ham", "AA", "BB", "CC", "SS")

per_case = st.fixed_dictionaries(dict(
    model=wbsys.model_params_st(max_wann=4, max_npairs=5, rmax=2, keys=KEYS),
    k=wbsys.kpoint_st(),
    G=st.lists(st.integers(-3, 3), min_size=3, max_size=3),
))


def min_gap(E, thresh=1e-4):
    d = np.diff(np.sort(E))
    d = d[d > thresh] if np.any(d > thresh) else np.array([np.inf])
    return float(d.min())


def tol_for(E):
    d = np.diff(np.sort(E))
    amb = d[(d > 1e-9) & (d < 1e-5)]
    if len(amb):
        raise Inconclusive("near-degenerate bands (gap between 1e-9 and 1e-5)")
    # gaps between 1e-5 and 1e-4 are inside the tabulators' degeneracy threshold: treated as groups
    g = min_gap(E)
    return 1e-8 * max(1.0, (1e-3 / g) ** 2)


def check_periodic(case):
    import wannierberri as wb
    from wannierberri.calculators import tabulate
    model = wbsys.make_model(case["model"])
    system = wbsys.to_system(model)
    k = np.array(case["k"], dtype=float)
    G = np.array(case["G"], dtype=float)
    E = model.bands(k)
    tol = tol_for(E)
    quantities = ["energy", "band_gradients", "berry_curvature", "berry_curvature_internal_terms",
                  "berry_curvature_external_terms", "spin"]

    def ev(kk):
        r = wb.evaluate_k(system, k=kk, quantities=quantities,
                          calculators={"morb": tabulate.OrbitalMoment(), "morb_int": tabulate.OrbitalMoment(
                              kwargs_formula={"external_terms": False})},
                          return_single_as_dict=True)
        out = {q: np.asarray(r[q]) for q in quantities}
        for c in ("morb", "morb_int"):
            out[c] = np.asarray(r[c].data)
        return out

    a = ev(k)
    b = ev(k + G)
    if np.max(np.abs(a["energy"] - E)) > 1e-9 * (1 + np.max(np.abs(E))):
        raise Violation("energy-vs-explicit-sum", "evaluate_k energies differ from the harness band structure")
    for q in a:
        s = 1 + max(np.max(np.abs(a[q])), np.max(np.abs(b[q])))
        d = float(np.max(np.abs(a[q] - b[q])))
        if d > tol * s:
            raise Violation(f"periodicity:{q}", f"k={k.tolist()} G={case['G']}: |f(k)-f(k+G)|={d:.3e} scale {s:.3e} tol {tol:.1e}")
    ext = np.max(np.abs(a["berry_curvature_external_terms"])) > 1e-8
    nzG = bool(np.any(G != 0))
    return ok(nzG and ext, "G!=0" if nzG else "G=0", case["model"]["ckind"], case["model"]["lat"]["kind"],
              f"nw={model.nw}", "ext-terms-nonzero" if ext else None)


gauge_case = st.fixed_dictionaries(dict(
    model=wbsys.model_params_st(max_wann=3, max_npairs=4, rmax=1, keys=("Ham", "AA", "BB", "CC")),
    # 'kramers': time-reversal symmetric spinful model (construction of props/c08_parities.py) evaluated at a
    # time-reversal invariant momentum: genuine Kramers doublets whose two partners are NOT copies of each other
    # 'block2_spin': two copies, then double_spin(): every band exactly four times;  'near': two copies whose energies
    # differ by delta in (2e-4, 8e-4) eV - above the documented degeneracy threshold 1e-4 of the calculators AND of the
    # random gauge, so nothing may be rotated and nothing may change
    kind=st.sampled_from(["double_spin", "kramers", "kramers", "block2", "block2_spin", "near"]),
    delta=st.sampled_from([2e-4, 3e-4, 5e-4, 8e-4]),
    kram=st.booleans(),       # calculators built with the documented option degen_Kramers=True (bands grouped in pairs)
    k=wbsys.kpoint_st(),
    trim=st.lists(st.sampled_from([0.0, 0.5]), min_size=3, max_size=3),
    lat=wbsys.lattice_st(kinds=["triclinic", "generic"]),
    cgen=st.lists(st.lists(fl(0.0, 0.9), min_size=3, max_size=3), min_size=3, max_size=3),
    gs=st.lists(st.integers(0, 2 ** 31), min_size=2, max_size=2, unique=True),
    imult=st.integers(0, 5), doff=st.sampled_from([0.03, 0.1, -0.05, 0.3, 0.011]),
    Ef=st.lists(st.sampled_from([-1.5, -0.7, -0.2, 0.1, 0.45, 0.9, 1.6]), min_size=1, max_size=3, unique=True),
))


def degenerate_system(case):
    """system with exact degeneracies everywhere; returns (system, multiplicity)"""
    if case["kind"] == "kramers":
        from props.c08_parities import build_tr
        m = build_tr(dict(lat=case["lat"], norb=min(3, max(2, case["model"]["nw"])), rs=case["model"]["rs"],
                          cgen=case["cgen"]), True)
        return wbsys.to_system(m, spinor=True), m
    model = wbsys.make_model(case["model"])
    if case["kind"] in ("block2", "block2_spin", "near"):
        # two identical decoupled copies of the model (co-centred): every band exactly twice, no spin structure
        n = model.nw
        m2 = wbsys.Model(model.lattice, np.vstack([model.wcc_red, model.wcc_red]), model.iRvec, {})
        for key, X in model.mats.items():
            Y = np.zeros((X.shape[0], 2 * n, 2 * n) + X.shape[3:], dtype=complex)
            Y[:, :n, :n] = X
            Y[:, n:, n:] = X
            m2.mats[key] = Y
        if case["kind"] == "near":
            i0 = [tuple(int(x) for x in R) for R in model.iRvec].index((0, 0, 0))
            m2.mats["Ham"][i0, n:, n:] += case["delta"] * np.eye(n)
        s2 = wbsys.to_system(m2)
        if case["kind"] == "block2_spin":
            s2.double_spin()
        return s2, model
    s = wbsys.to_system(model)
    s.double_spin()
    return s, model


def check_gauge(case):
    import wannierberri as wb
    from wannierberri.calculators import tabulate, static, dynamic, sdct
    from wannierberri.data_K import get_data_k_class_from_system
    from wannierberri.grid.Kpoint import KpointBZparallel
    from vlib.runner import read_known
    known = read_known(PROPERTY_ID)
    system, model = degenerate_system(case)
    kramers = case["kind"] == "kramers"
    k = np.array(case["trim"] if kramers else case["k"], dtype=float)
    E = model.bands(k)
    if kramers:
        if np.max(np.abs(E[0::2] - E[1::2])) > 1e-10:
            raise RuntimeError("harness model has no Kramers degeneracy at a TRIM point")
        E = E[0::2]
    d = np.diff(np.sort(E))
    if len(d) and np.any((d > 1e-9) & (d < 1e-3)):
        raise Inconclusive("bands of the parent model closer than 1e-3 (accidental near-degeneracy)")
    tol = 1e-8 * max(1.0, (1e-3 / (d.min() if len(d) else np.inf)) ** 2)
    grid = wb.Grid(system, NKdiv=1, NKFFT=1, use_symmetry=False)
    cls = get_data_k_class_from_system(system)
    Ef = np.array(sorted(case["Ef"]))
    internal = {"external_terms": False}
    spinful = case["kind"] not in ("block2", "near")
    mult = {"block2_spin": 4}.get(case["kind"], 2)
    kk = dict(degen_Kramers=True) if (case.get("kram") and case["kind"] != "near") else {}

    def calcs():
        c = {"tE": tabulate.Energy(), "tOmega": tabulate.BerryCurvature(**kk), "tOmega_int": tabulate.BerryCurvature(kwargs_formula=internal, **kk),
             "tVel": tabulate.Velocity(**kk), "tMorb": tabulate.OrbitalMoment(**kk), "tDerOmega": tabulate.DerBerryCurvature(**kk),
             "ahc": static.AHC(Efermi=Ef, use_factor=False, **kk), "ahc_int": static.AHC(Efermi=Ef, kwargs_formula=internal, use_factor=False, **kk),
             "ohmic": static.Ohmic_FermiSea(Efermi=Ef, use_factor=False, **kk), "ohmic_surf": static.Ohmic_FermiSurf(Efermi=Ef, use_factor=False, **kk),
             "bd": static.BerryDipole_FermiSea(Efermi=Ef, use_factor=False, **kk), "morb": static.Morb(Efermi=Ef, use_factor=False, **kk),
             "cumdos": static.CumDOS(Efermi=Ef, use_factor=False, **kk), "gme_orb": static.GME_orb_FermiSea(Efermi=Ef, use_factor=False, **kk)}
        # integrated dynamic (frequency dependent) calculators
        om = np.array([0.45, 1.3])
        dkw = dict(Efermi=Ef, omega=om, kBT=0.05)
        c["dOptCond"] = dynamic.OpticalConductivity(**dkw)
        c["dJDOS"] = dynamic.JDOS(**dkw)
        c["dInjectionCurrent"] = dynamic.InjectionCurrent(**dkw)
        c["dShiftCurrent"] = dynamic.ShiftCurrent(sc_eta=0.1, **dkw)
        if kramers:     # the TR model carries the spin-current matrices and FF
            c["dSHC_ryoo"] = dynamic.SHC(SHC_type="ryoo", **dkw)
            c["dSHC_qiao"] = dynamic.SHC(SHC_type="qiao", **dkw)
            c["shc"] = static.SHC(Efermi=Ef, use_factor=False)
            c["dSDCT"] = sdct.SDCT(**dkw)
            # the eight terms of the composite separately, each restricted to one kind of multipole moment
            for n in sorted(x for x in dir(sdct) if x.startswith("SDCT_") and ("_sea_" in x or "_surf_" in x)):
                for tag, terms in (("M1", dict(M1_terms=True, E2_terms=False, V_terms=False)),
                                   ("E2", dict(M1_terms=False, E2_terms=True, V_terms=False)),
                                   ("V", dict(M1_terms=False, E2_terms=False, V_terms=True)),
                                   ("S", dict(M1_terms=False, E2_terms=False, V_terms=False, S_terms=True))):
                    c[f"d{n}|{tag}"] = getattr(sdct, n)(**terms, **dkw)
            c["tSpinBerry"] = tabulate.SpinBerry()
        # tetrahedron method: first Fermi level just above a multiplet of the centre (the multiplet is split at the
        # corners of the cell, so the level lies between the corner energies of its members)
        Emult = float(np.sort(E)[case.get("imult", 0) % len(E)])
        Ef_t = Emult + case.get("doff", 0.03) + 0.37 * np.arange(3)
        c["ahc_tetra"] = static.AHC(Efermi=Ef_t, tetra=True, use_factor=False)
        c["cumdos_tetra"] = static.CumDOS(Efermi=Ef_t, tetra=True, use_factor=False)
        c["morb_tetra"] = static.Morb(Efermi=Ef_t, tetra=True, use_factor=False)
        if spinful:
            c["spin_tetra"] = static.Spin(Efermi=Ef_t, tetra=True, use_factor=False)
        if spinful:
            c["tSpin"] = tabulate.Spin(**kk)
            c["spin"] = static.Spin(Efermi=Ef, use_factor=False, **kk)
            c["gme_spin"] = static.GME_spin_FermiSea(Efermi=Ef, use_factor=False, **kk)
            c["ahc_zeeman_spin"] = static.AHC_Zeeman_spin(Efermi=Ef, use_factor=False, **kk)
        return c

    def evaluate(random_gauge, seed):
        with numpy_seed(seed):
            # a K-point cell around k (half of the zone in every direction), so that tetrahedron-method calculators can
            # be evaluated: its corners are generic points where the multiplets of the centre are split
            Kp = KpointBZparallel(K=k.copy(), dK=np.array([0.5, 0.5, 0.5]), NKFFT=np.array([1, 1, 1]), factor=1.,
                                  pointgroup=system.pointgroup, refinement_level=0)
            dk = cls(system, grid=grid, dK=k.copy(), Kpoint=Kp, random_gauge=random_gauge)
            U = np.array(dk.UU_K, copy=True)
            out = {}
            for name, c in calcs().items():
                r = c(dk)
                if hasattr(r, "data"):          # a term that does not exist for a moment kind returns a void result
                    out[name] = np.asarray(r.data)
        return out, U

    base, U0 = evaluate(False, 0)
    rotated = False
    results = [base]
    for gs in case["gs"]:
        r, U = evaluate(True, gs)
        results.append(r)
        # guard: some degenerate block was really rotated (projector onto block equal, vectors not)
        if np.max(np.abs(U - U0)) > 1e-3:
            rotated = True
        # rotated eigenvectors must still diagonalise H with the same energies (unitary, same subspaces)
        H = model.Hk(k)
    Eexp = np.sort(np.concatenate([E, E + case["delta"]])) if case["kind"] == "near" else np.repeat(np.sort(E), mult)
    if np.max(np.abs(base["tE"][0] - Eexp)) > 1e-9 * (1 + np.max(np.abs(E))):
        raise Violation("energies", "multiplied system does not have every band of the parent model with its multiplicity")
    # natural unit of each result: 1 for tabulators / static calculators built with use_factor=False, the constant
    # prefactor for dynamic calculators (their results carry it), so that absolute rounding floors are meaningful
    unit = {name: (abs(getattr(c, "constant_factor", 1.0)) if name.startswith("d") else 1.0) for name, c in calcs().items()}
    found = []
    for i, r in enumerate(results[1:]):
        for name in base:
            a, b = base[name], r[name]
            s = unit[name] + max(np.max(np.abs(a)), np.max(np.abs(b)))
            dd = float(np.max(np.abs(a - b)))
            if dd > tol * s and name not in [f[0] for f in found]:
                found.append((name, f"random_gauge seed {case['gs'][i]} changes '{name}' by {dd:.3e} "
                                    f"(scale {s:.3e}, tol {tol:.1e}), kind={case['kind']}"))
    new = [f for f in found if f"gauge:gauge:{f[0]}" not in known]
    if new:
        raise Violation(f"gauge:{new[0][0]}", new[0][1] + (f" [also {[f[0] for f in found[1:]]}]" if len(found) > 1 else ""))
    # listed findings are excluded from the verdict (counted, reported by the runner); the search continues behind them
    if case["kind"] == "near" and rotated:
        raise Violation("gauge:rotates-non-degenerate", f"random_gauge (default parameters) rotated bands that are {case['delta']:.0e} eV "
                                                        f"apart, above the documented threshold 1e-4")
    return ok(rotated or case["kind"] == "near", case["kind"], f"nw={model.nw}", "rotated" if rotated else "not-rotated",
              "degen_Kramers" if kk else None, known=[f"gauge:{f[0]}" for f in found])


SUBS = [
    Sub("periodic", per_case, check_periodic, quick=120, thorough=2400, budget_quick=60),
    Sub("gauge", gauge_case, check_gauge, quick=64, thorough=1200, budget_quick=70),
]
