"""C16  Result objects behave as vectors and survive saving  (DESIGN 4/C16)

Oracle: plain numpy arithmetic on the arrays the results were built from (A+B, A-B, s*A, A/s, explicit
broadcasting for mul_array, np.vstack for k-resolved '+'), an explicit-einsum tensor transformation written in
vlib/pgroup.py for `transform`, and attribute-by-attribute comparison after save -> from_npz.

Interpretation asserted for k-resolved results (K__Result / KBandResult / TABresult), as documented in the code
("K-point factors do not play a role in tabulating quantities", "result/x and result*(1/x) is not the same thing for
tabulation", "actually a copy") and relied upon by run_grid.process():
   a + b      = concatenation over k: every row of a, then every row of b, unchanged and in order
   a * s      = element-wise,   a / s = copy of a,   a - b and a.add(b) = element-wise (equal k counts)
   TABresult * s, / s = unchanged;  TABresult + TABresult concatenates k-points and every quantity.
"""
import os

import numpy as np
from hypothesis import strategies as st

from vlib.runner import Sub, Violation, ok
from vlib.util import fl, rng_of, crandom, reldiff, scratch_dir
from vlib import pgroup

PROPERTY_ID = "C16"
RULE = ("EnergyResult with 0-3 energy axes (1-4 points each), tensor rank 0-3, real/complex operands, Transforms "
        "(factor, conj, transpose_axes, swap_axes), scalars python int/float, numpy float64 (+ numpy int64/float32, which "
        "EnergyResult may reject with its documented TypeError), symmetry operation = crystallographic rotation / "
        "rotoinversion / mirror x optional TR in a random frame; K__Result/KBandResult with 1-4 k-points per operand, 1-3 "
        "bands; ResultDict with 1-3 keys of EnergyResult/KBandResult/TABresult/VoidResult values. non-trivial = >=2 "
        "energy axes or rank>=2 or a non-trivial Transform; distinct = distinct generated case")
ASSUMPTIONS = [
    "element-wise identities are compared with reldiff <= 1e-13 (same IEEE operations; a/s is computed by the code as "
    "a*(1/s), one extra rounding); transform identities with 1e-11",
    "k-resolved '+' is concatenation over k, '/' is a copy, TABresult ignores weights (documented semantics); dictionary "
    "subtraction is asserted only for energy-resolved values (for k-resolved values ResultDict computes a+(-1)*b = "
    "concatenation, outside any element-wise reading)",
    "save/load only for results with both transforms set (as_dict precondition) and comments without NUL characters",
    "a+Void / a+None / a+0 asserted for EnergyResult and ResultDict(+None/0) where the code documents them; for "
    "K__Result only Void+a (the form used by sum(.., VoidResult())); K__Result+Void is probed and reported as a label",
    "0-d data (no energy axis and rank 0) not generated (Transform.__call__ indexes res[:])",
    "in-place add() only when the left operand's dtype can hold the right one",
]
MIN_NONTRIVIAL = {"quick": 50, "thorough": 500}
TOL = 1e-13
TTOL = 1e-11

# ------------------------------------------------------------------------------------------------
# shared strategy pieces

scalar_st = st.one_of(
    st.fixed_dictionaries(dict(kind=st.just("int"), v=st.integers(-5, 5))),
    st.fixed_dictionaries(dict(kind=st.just("float"), v=fl(-10, 10))),
    st.fixed_dictionaries(dict(kind=st.just("float64"), v=fl(-10, 10))),
    st.fixed_dictionaries(dict(kind=st.just("float"), v=st.sampled_from([0.0, 1.0, -1.0, 0.5, 1e-8, 1e8, 1 / 3]))),
    st.fixed_dictionaries(dict(kind=st.sampled_from(["int64", "float32"]), v=st.integers(-5, 5))),
)


def scalar_of(d):
    k, v = d["kind"], d["v"]
    if k == "int":
        return int(v)
    if k == "float":
        return float(v)
    if k == "float64":
        return np.float64(v)
    if k == "int64":
        return np.int64(v)
    return np.float32(v)


@st.composite
def sym_st(draw):
    fam = draw(st.sampled_from(["cubic", "hexagonal"]))
    op = draw(pgroup.op_st(fam))
    grot = draw(st.one_of(st.none(), st.lists(fl(0, 6.25), min_size=3, max_size=3)))
    return dict(op=op, grot=grot)


def build_sym(d):
    Rg = None if d["grot"] is None else pgroup.global_rotation(d["grot"])
    s, _ = pgroup.wb_symmetry(d["op"], "sym", Rg)
    return s, pgroup.full_matrix(d["op"], Rg), d["op"]["tr"]


def rand(rng, shape, cplx):
    x = crandom(rng, shape, cplx)
    return np.array(x if cplx else x.real)


def eq(a, b, what, tol=TOL):
    a = np.asarray(a)
    b = np.asarray(b)
    if a.shape != b.shape:
        raise Violation(what, f"shape {a.shape} != {b.shape}")
    d = reldiff(a, b)
    if not d <= tol:
        raise Violation(what, f"differs from the element-wise reference by {d:.2e}")


def D(r):
    """data of a result object; a wrong return type (e.g. the void result) is a violation, not a harness crash"""
    if not hasattr(r, "as_dict") or not hasattr(r, "data"):
        raise Violation("wrong-result-type", f"operation returned {type(r).__name__} instead of a result with data")
    return r.data


def same_transform(t, d, what):
    """attribute-wise comparison of a wannierberri Transform with a descriptor"""
    if t is None:
        raise Violation(what, "transform lost (None)")
    perm = None if t.transpose_axes is None else [int(x) for x in t.transpose_axes]
    swap = None if t.swap_axes is None else [int(x) for x in t.swap_axes]
    if int(t.factor) != d["factor"] or bool(t.conj) != d["conj"] or perm != d["perm"] or swap != d["swap"]:
        raise Violation(what, f"got factor={t.factor} conj={t.conj} transpose_axes={t.transpose_axes} "
                              f"swap_axes={t.swap_axes}, expected {d}")


def scaled(obj, s, mode):
    """obj*s, s*obj or obj/s; returns None if EnergyResult cleanly rejects the scalar type with its documented TypeError"""
    try:
        if mode == "mul":
            return obj * s
        if mode == "rmul":
            return s * obj
        return obj / s
    except TypeError as e:
        if "can only be multiplied by a number" in str(e) and type(s) in (np.int64, np.float32):
            return None
        raise


# ------------------------------------------------------------------------------------------------
# EnergyResult

_comment_st = st.text(alphabet=st.characters(blacklist_categories=("Cs",), blacklist_characters="\x00"), max_size=30)


@st.composite
def energy_case_st(draw):
    rank = draw(st.integers(0, 3))
    nE = draw(st.integers(1 if rank == 0 else 0, 3))
    return dict(
        NE=[draw(st.integers(1, 4)) for _ in range(nE)], rank=rank,
        E0=draw(fl(-3, 3)), dE=draw(st.sampled_from([0.01, 0.1, 1.0])),
        cplx=[draw(st.booleans()) for _ in range(3)],
        tnone=draw(st.integers(0, 2 ** 16)) % 8 == 5,
        tTR=draw(pgroup.transform_st(rank, allow_noninvolutive=True)),
        tInv=draw(pgroup.transform_st(rank, allow_noninvolutive=True)),
        explicit_rank=draw(st.booleans()), bare_E=draw(st.booleans()),
        # one extra non-tensor axis of length 3 after the energy axes: rank given explicitly and < ndim - #energies
        # ("rank ... usually no need to specify"; all non-energy dimensions are 3 as documented)
        extra3=draw(st.integers(0, 2 ** 16)) % 4 == 1,
        comments=[draw(_comment_st), draw(_comment_st)],
        save_modes=[draw(st.sampled_from(["bin", "txt", "bin+txt", "none"])) for _ in range(2)],
        s=draw(scalar_st), t=draw(scalar_st),
        sym=draw(sym_st()),
        arr_axes=draw(st.sampled_from(["default", "int", "tuple"])), arr_pick=draw(st.integers(0, 5)),
        rs=draw(st.integers(0, 2 ** 32)),
    )


def _make_energy(case, data, i, Es, tTR, tInv):
    from wannierberri.result import EnergyResult
    kw = {}
    if case["explicit_rank"] or case["extra3"]:
        kw["rank"] = case["rank"]
    E = Es[0] if (len(Es) == 1 and case["bare_E"]) else list(Es)
    return EnergyResult(E, data.copy(), transformTR=tTR, transformInv=tInv, comment=case["comments"][i % 2],
                        save_mode=case["save_modes"][i % 2], **kw)


def _check_meta(r, case, Es, what, dTR, dInv):
    if r.N_energies != len(Es) or len(r.Energies) != len(Es):
        raise Violation(what + ":energies", "number of energy axes changed")
    for E1, E2 in zip(r.Energies, Es):
        if not np.array_equal(np.asarray(E1), E2):
            raise Violation(what + ":energies", "energies changed")
    if int(r.rank) != case["rank"]:
        raise Violation(what + ":rank", f"rank {r.rank} != {case['rank']}")
    if not case["tnone"]:
        same_transform(r.transformTR, dTR, what + ":transformTR")
        same_transform(r.transformInv, dInv, what + ":transformInv")


def check_energy(case):
    from wannierberri.result import EnergyResult
    from wannierberri.result.result import VoidResult
    rank = case["rank"]
    rng = rng_of(case["rs"])
    Es = [case["E0"] + 0.37 * i + case["dE"] * np.arange(n) for i, n in enumerate(case["NE"])]
    shape = tuple(case["NE"]) + ((3,) if case["extra3"] else ()) + (3,) * rank
    A, B, C = (rand(rng, shape, c) for c in case["cplx"])
    dTR, dInv = case["tTR"], case["tInv"]
    if case["tnone"]:
        tTR = tInv = None
    else:
        tTR, tInv = pgroup.wb_transform(dTR), pgroup.wb_transform(dInv)
    a, b, c = (_make_energy(case, X, i, Es, tTR, tInv) for i, X in enumerate((A, B, C)))
    s, t = scalar_of(case["s"]), scalar_of(case["t"])
    labels = [f"nE={len(Es)}", f"rank={rank}", "scalar=" + case["s"]["kind"],
              "mixed-real-complex" if len(set(case["cplx"])) > 1 else ("complex" if case["cplx"][0] else "real"),
              "transforms-none" if case["tnone"] else None, "explicit-rank<ndim-nE" if case["extra3"] else None]

    def unchanged():
        for r, X in ((a, A), (b, B), (c, C)):
            if not np.array_equal(r.data, X):
                raise Violation("operand-mutated", "an arithmetic operation changed its operand")

    # --- addition / subtraction
    r = a + b
    eq(D(r), A + B, "add")
    _check_meta(r, case, Es, "add", dTR, dInv)
    if r.save_mode != (a.save_mode | b.save_mode):
        raise Violation("add:save_mode", f"{r.save_mode} is not the union of {a.save_mode} and {b.save_mode}")
    eq(D((b + a)), A + B, "add-commutes")
    r = a - b
    eq(D(r), A - B, "sub")
    _check_meta(r, case, Es, "sub", dTR, dInv)
    eq(D(((a + b) + c)), (A + B) + C, "add3")
    eq(D((a + (b + c))), A + (B + C), "add3")
    eq(D((a - a)), np.zeros_like(A), "sub-self")
    unchanged()
    # --- scaling
    for mode in ("mul", "rmul"):
        r = scaled(a, s, mode)
        if r is None:
            labels.append("scalar-type-rejected-by-code")
        else:
            eq(D(r), A * s, mode)
            _check_meta(r, case, Es, mode, dTR, dInv)
            if r.save_mode != a.save_mode or r.comment != a.comment:
                raise Violation(mode + ":meta", "scaling changed save_mode or comment")
    if s != 0:
        r = scaled(a, s, "div")
        if r is not None:
            eq(D(r), A / s, "div")
            _check_meta(r, case, Es, "div", dTR, dInv)
    sa, tb = scaled(a, s, "mul"), scaled(b, t, "rmul")
    if sa is not None and tb is not None:
        eq(D((sa + tb - c)), A * s + t * B - C, "linear-combination")
        eq(D(scaled(a + b, s, "mul")), (A + B) * s, "scale-sum")
    unchanged()
    # --- mul_array
    nE = len(Es)
    if nE >= 1:
        mode = case["arr_axes"]
        if mode == "default":
            m = 1 + case["arr_pick"] % nE
            axes = None
            used = tuple(range(m))
        elif mode == "int":
            axes = case["arr_pick"] % nE
            used = (axes,)
        else:
            allc = [(i,) for i in range(nE)] + [(i, j) for i in range(nE) for j in range(nE) if i < j]  # increasing (as used)
            used = allc[case["arr_pick"] % len(allc)]
            axes = tuple(used)
        arr = rng.uniform(-2, 2, size=tuple(shape[i] for i in used))
        r = a.mul_array(arr, axes=axes) if axes is not None else a.mul_array(arr)
        exp = np.zeros_like(A)
        for idx in np.ndindex(*shape):
            exp[idx] = A[idx] * arr[tuple(idx[i] for i in used)]
        eq(D(r), exp, "mul_array")
        _check_meta(r, case, Es, "mul_array", dTR, dInv)
        labels.append("mul_array-axes=" + mode)
        unchanged()
    # --- neutral elements
    V = VoidResult()
    for name, r in (("Void+a", V + a), ("a+Void", a + V), ("a+None", a + None), ("None+a", None + a), ("a+0", a + 0),
                    ("0+a", 0 + a), ("a-Void", a - V)):
        if not isinstance(r, EnergyResult):
            raise Violation("neutral:" + name, f"returned {type(r).__name__}")
        eq(D(r), A, "neutral:" + name)
        _check_meta(r, case, Es, "neutral:" + name, dTR, dInv)
    eq(D((V - a)), -A, "neutral:Void-a")
    for name, r in (("sum-from-Void", sum([a, b, c], VoidResult())), ("sum-from-0", sum([a, b, c]))):
        if not isinstance(r, EnergyResult):
            raise Violation("neutral:" + name, f"returned {type(r).__name__}")
        eq(D(r), (A + B) + C, "neutral:" + name)
    for name, r in (("Void*s", V * s), ("s*Void", s * V), ("Void/s", V / (s if s != 0 else 1)), ("Void+Void", V + V),
                    ("Void.transform", V.transform(build_sym(case["sym"])[0]))):
        if not isinstance(r, VoidResult):
            raise Violation("neutral:" + name, f"returned {type(r).__name__}, not the void result")
    unchanged()
    # --- in-place add
    if A.dtype == complex or B.dtype != complex:
        a2 = _make_energy(case, A, 0, Es, tTR, tInv)
        a2.add(b)
        eq(D(a2), A + B, "add-inplace")
        if not np.array_equal(b.data, B):
            raise Violation("operand-mutated", "add() changed its argument")
    # --- symmetry transformation
    g, Of, gtr = build_sym(case["sym"])
    ginv = bool(np.linalg.det(Of) < 0)
    if case["tnone"] and (gtr or ginv):
        labels.append("transform-skipped(no transforms set)")
    else:
        ta = a.transform(g)
        eq(D(ta), pgroup.ref_transform_tensor(A, rank, Of, gtr, dTR, dInv), "transform-vs-explicit", TTOL)
        _check_meta(ta, case, Es, "transform", dTR, dInv)
        tb_ = b.transform(g)
        eq(D((a + b).transform(g)), ta.data + tb_.data, "transform-distributes-add", TTOL)
        eq(D((a - b).transform(g)), ta.data - tb_.data, "transform-distributes-sub", TTOL)
        if sa is not None:
            eq(D(sa.transform(g)), ta.data * s, "transform-commutes-with-scaling", TTOL)
        labels += ["sym-TR" if gtr else None, "sym-Inv" if ginv else None, f"sym-n={case['sym']['op']['n']}"]
        unchanged()
    # --- persistence
    if not case["tnone"]:
        with scratch_dir() as d:
            for name, r, X in (("a", a, A), ("sum", a + b, A + B)):
                path = os.path.join(d, name)
                r.save(path)
                if not os.path.isfile(path + ".npz"):
                    raise Violation("save", "save(name) did not write name.npz")
                l = EnergyResult.from_npz(path + ".npz")
                if not isinstance(l, EnergyResult):
                    raise Violation("load:type", type(l).__name__)
                if l.data.dtype != X.dtype or not np.array_equal(l.data, X):
                    raise Violation("load:data", "data not reproduced")
                _check_meta(l, case, Es, "load", dTR, dInv)
                for E1, E2 in zip(l.Energies, Es):
                    if np.asarray(E1).dtype != E2.dtype:
                        raise Violation("load:energies", "dtype changed")
                if not (l.transformTR == r.transformTR and l.transformInv == r.transformInv):
                    raise Violation("load:transform-eq", "loaded transforms do not compare equal to the saved ones")
                if l.comment != r.comment:
                    raise Violation("load:comment", f"{l.comment!r} != {r.comment!r}")
                # the loaded object must be a working result (rank and transforms usable)
                eq(D(l.transform(g)), pgroup.ref_transform_tensor(X, rank, Of, gtr, dTR, dInv), "load:transform", TTOL)
                eq(D((l + r)), X + X, "load:add")
            if a.save_mode == {"bin"}:
                # the route used by run(): savedata(name, prefix, suffix, i_iter) -> <prefix>-<name>-<suffix>_iter-NNNN.npz
                a.savedata("q", os.path.join(d, "pre"), "sfx", 7)
                f = os.path.join(d, "pre-q-sfx_iter-0007.npz")
                if not os.path.isfile(f):
                    raise Violation("savedata", "binary file of a save_mode='bin' result not written")
                if not np.array_equal(EnergyResult.from_npz(f).data, A):
                    raise Violation("load:data", "data not reproduced through savedata()")
                labels.append("savedata")
            miss = EnergyResult.from_npz(os.path.join(d, "missing.npz"))
            if not isinstance(miss, VoidResult):
                raise Violation("load:missing", "missing file does not give the void result")
            V.save(os.path.join(d, "void"))
            if not isinstance(EnergyResult.from_npz(os.path.join(d, "void.npz")), VoidResult):
                raise Violation("load:void", "saved void result is not loaded as void")
        labels.append("saved+loaded")
    nontriv_t = not case["tnone"] and not (pgroup.transform_is_trivial(dTR) and pgroup.transform_is_trivial(dInv))
    labels += ["transform-nontrivial" if nontriv_t else None,
               "perm" if (dTR["perm"] or dInv["perm"]) else None, "swap" if (dTR["swap"] or dInv["swap"]) else None]
    return ok(len(Es) >= 2 or rank >= 2 or nontriv_t, *labels)


# ------------------------------------------------------------------------------------------------
# k-resolved results

@st.composite
def kband_case_st(draw):
    rank = draw(st.integers(0, 3))
    return dict(
        cls=draw(st.sampled_from(["KBandResult", "K__Result"])),
        nk=[draw(st.integers(1, 4)) for _ in range(3)], nb=draw(st.integers(1, 3)), rank=rank,
        cplx=draw(st.booleans()),
        tTR=draw(pgroup.transform_st(rank, allow_noninvolutive=True)),
        tInv=draw(pgroup.transform_st(rank, allow_noninvolutive=True)),
        s=draw(scalar_st), sym=draw(sym_st()), rs=draw(st.integers(0, 2 ** 32)),
    )


def _make_k(cls, X, rank, tTR, tInv):
    from wannierberri.result import KBandResult, K__Result
    if cls == "KBandResult":
        return KBandResult(X.copy(), transformTR=tTR, transformInv=tInv)
    return K__Result([X.copy()], transformTR=tTR, transformInv=tInv, rank=rank,
                     other_properties=dict(comment="x", efermi=np.arange(X.shape[1]) * 0.1))


def check_kband(case):
    from wannierberri.result.result import VoidResult
    from wannierberri.result import K__Result
    rank, nb = case["rank"], case["nb"]
    rng = rng_of(case["rs"])
    dTR, dInv = case["tTR"], case["tInv"]
    tTR, tInv = pgroup.wb_transform(dTR), pgroup.wb_transform(dInv)
    mats = [rand(rng, (nk, nb) + (3,) * rank, case["cplx"]) for nk in case["nk"]]
    A, B, C = mats
    B2 = rand(rng, A.shape, case["cplx"])
    mk = lambda X: _make_k(case["cls"], X, rank, tTR, tInv)  # noqa
    a, b, c, b2 = mk(A), mk(B), mk(C), mk(B2)
    s = scalar_of(case["s"])
    labels = [case["cls"], f"rank={rank}", "scalar=" + case["s"]["kind"]]

    def exact(r, X, what):
        if not isinstance(r, K__Result):
            raise Violation(what + ":type", f"returned {type(r).__name__}, not a k-resolved result")
        d = np.asarray(r.data)
        if d.shape != X.shape or not np.array_equal(d, X):
            raise Violation(what, f"rows are not the operands' rows unchanged and in order (shape {d.shape} vs {X.shape})")

    def meta(r, what, nk):
        if r.nk != nk:
            raise Violation(what + ":nk", f"{r.nk} != {nk}")
        if int(r.rank) != rank:
            raise Violation(what + ":rank", f"{r.rank} != {rank}")
        same_transform(r.transformTR, dTR, what + ":transformTR")
        same_transform(r.transformInv, dInv, what + ":transformInv")

    # '+' = concatenation over k
    r = a + b
    meta(r, "concat", A.shape[0] + B.shape[0])
    if type(r) is not type(a):
        raise Violation("concat:type", type(r).__name__)
    exact(r, np.vstack([A, B]), "concat")
    exact((a + b) + c, np.vstack([A, B, C]), "concat3")
    exact(a + (b + c), np.vstack([A, B, C]), "concat3")
    exact(b + a, np.vstack([B, A]), "concat-order")
    exact(sum([a, b, c], VoidResult()), np.vstack([A, B, C]), "sum-from-Void")
    exact(VoidResult() + a, A, "neutral:Void+a")
    for x, X in ((a, A), (b, B), (c, C)):
        exact(x, X, "operand-mutated")
    # scaling
    eq(D((a * s)), A * s, "mul")
    eq(D((s * a)), A * s, "rmul")
    eq(D(((a + b) * s)), np.vstack([A, B]) * s, "mul-of-concat")
    meta(a * s, "mul", A.shape[0])
    r = a / (s if s != 0 else 1)
    exact(r, A, "div-is-copy")
    meta(r, "div", A.shape[0])
    # element-wise '-' and add()
    r = a - b2
    eq(D(r), A - B2, "sub")
    same_transform(r.transformTR, dTR, "sub:transformTR")
    same_transform(r.transformInv, dInv, "sub:transformInv")
    # '-' is element-wise over the k-points whatever way the operands were assembled (blocks of a concatenation)
    AB = np.vstack([A, B])
    W = rand(rng, AB.shape, case["cplx"])
    eq(D((a + b) - mk(W)), AB - W, "sub-of-concat")
    eq(D(mk(W) - (a + b)), W - AB, "sub-of-concat")
    eq(D((a + b) - (mk(W[:1]) + mk(W[1:]))), AB - W, "sub-of-concat")
    eq(D((mk(W[:-1]) + mk(W[-1:])) - (a + b)), W - AB, "sub-of-concat")
    a2 = mk(A)
    a2.add(b2)
    eq(D(a2), A + B2, "add-inplace")
    ab = mk(A) + mk(B)
    ab.add(a + b)
    eq(D(ab), 2 * np.vstack([A, B]), "add-inplace-blocks")
    exact(b2, B2, "operand-mutated")
    exact(a, A, "operand-mutated")
    # mul_array over the band axis
    arr = rng.uniform(-2, 2, size=(nb,))
    exp = np.zeros_like(A)
    for idx in np.ndindex(*A.shape):
        exp[idx] = A[idx] * arr[idx[1]]
    eq(D(a.mul_array(arr)), exp, "mul_array")
    eq((a + b).mul_array(arr, axes=0).data[:A.shape[0]], exp, "mul_array")
    # transform
    g, Of, gtr = build_sym(case["sym"])
    ta, tb_ = a.transform(g), b.transform(g)
    eq(D(ta), pgroup.ref_transform_tensor(A, rank, Of, gtr, dTR, dInv), "transform-vs-explicit", TTOL)
    meta(ta, "transform", A.shape[0])
    r = (a + b).transform(g)
    meta(r, "transform-of-concat", A.shape[0] + B.shape[0])
    eq(D(r), np.vstack([ta.data, tb_.data]), "transform-distributes-add", TTOL)
    eq(D((a * s).transform(g)), ta.data * s, "transform-commutes-with-scaling", TTOL)
    eq(D((a - b2).transform(g)), ta.data - b2.transform(g).data, "transform-distributes-sub", TTOL)
    # right-neutrality of the void result is not provided by K__Result.__add__ (never used by the code): report only
    try:
        r = a + VoidResult()
        exact(r, A, "neutral:a+Void")
        labels.append("a+Void:supported")
    except AttributeError:
        labels.append("a+Void:unsupported(AttributeError in K__Result.fit)")
    nontriv_t = not (pgroup.transform_is_trivial(dTR) and pgroup.transform_is_trivial(dInv))
    labels += ["transform-nontrivial" if nontriv_t else None, "sym-TR" if gtr else None,
               "sym-Inv" if np.linalg.det(Of) < 0 else None, "complex" if case["cplx"] else "real"]
    return ok(rank >= 2 or nontriv_t, *labels)


# ------------------------------------------------------------------------------------------------
# dictionaries

@st.composite
def dict_case_st(draw):
    nkeys = draw(st.integers(1, 3))
    entries = []
    for i in range(nkeys):
        rank = draw(st.integers(0, 3))
        kind = draw(st.sampled_from(["E", "E", "K", "T", "EV", "VE", "VV"]))
        entries.append(dict(
            key=draw(st.sampled_from(["ahc", "dos", "tab", "x y", "Q-1"])) + str(i), kind=kind, rank=rank,
            NE=[draw(st.integers(1, 3)) for _ in range(draw(st.integers(1 if rank == 0 else 0, 2)))],
            nk=[draw(st.integers(1, 3)), draw(st.integers(1, 3))], nb=draw(st.integers(1, 3)),
            cplx=draw(st.booleans()),
            tTR=draw(pgroup.transform_st(rank)), tInv=draw(pgroup.transform_st(rank))))
    return dict(entries=entries, s=draw(scalar_st.filter(lambda d: d["kind"] not in ("int64", "float32"))),
                sym=draw(sym_st()), lat=[draw(fl(-1, 1)) for _ in range(9)], rs=draw(st.integers(0, 2 ** 32)))


def check_dict(case):
    from wannierberri.result import ResultDict, EnergyResult, KBandResult, TABresult
    from wannierberri.result.result import VoidResult
    rng = rng_of(case["rs"])
    recip = np.array(case["lat"]).reshape(3, 3) + 2.5 * np.eye(3)
    g, Of, gtr = build_sym(case["sym"])
    s = scalar_of(case["s"])
    sdiv = s if s != 0 else 1
    ops = [{}, {}]  # the two operand dictionaries
    raw = {}
    for e in case["entries"]:
        key, kind, rank = e["key"], e["kind"], e["rank"]
        tTR, tInv = pgroup.wb_transform(e["tTR"]), pgroup.wb_transform(e["tInv"])
        raw[key] = []
        for side in range(2):
            if kind[0] == "E" and (len(kind) == 1 or kind[side] == "E"):
                Es = [0.2 * i + 0.1 * np.arange(n) for i, n in enumerate(e["NE"])]
                X = rand(rng, tuple(e["NE"]) + (3,) * rank, e["cplx"])
                ops[side][key] = EnergyResult(list(Es), X.copy(), transformTR=tTR, transformInv=tInv)
                raw[key].append(X)
            elif kind in ("EV", "VE", "VV"):
                if kind[side] == "V":
                    ops[side][key] = VoidResult()
                    raw[key].append(None)
                else:
                    Es = [0.2 * i + 0.1 * np.arange(n) for i, n in enumerate(e["NE"])]
                    X = rand(rng, tuple(e["NE"]) + (3,) * rank, e["cplx"])
                    ops[side][key] = EnergyResult(list(Es), X.copy(), transformTR=tTR, transformInv=tInv)
                    raw[key].append(X)
            elif kind == "K":
                X = rand(rng, (e["nk"][side], e["nb"]) + (3,) * rank, e["cplx"])
                ops[side][key] = KBandResult(X.copy(), transformTR=tTR, transformInv=tInv)
                raw[key].append(X)
            else:  # TABresult
                nk = e["nk"][side]
                kp = rng.uniform(-1, 1, size=(nk, 3)).round(3)
                En = rng.uniform(-1, 1, size=(nk, e["nb"]))
                X = rand(rng, (nk, e["nb"]) + (3,) * rank, e["cplx"])
                from wannierberri.symmetry.point_symmetry import transform_ident
                ops[side][key] = TABresult(kp.copy(), recip_lattice=recip.copy(), results=dict(
                    Energy=KBandResult(En.copy(), transformTR=transform_ident, transformInv=transform_ident),
                    q=KBandResult(X.copy(), transformTR=tTR, transformInv=tInv)))
                raw[key].append((kp, En, X))
    a, b = ResultDict(ops[0]), ResultDict(ops[1])
    kinds = {e["key"]: e for e in case["entries"]}

    def value(r, key):
        """comparable content of one entry"""
        v = r.results[key]
        if isinstance(v, VoidResult):
            return None
        if isinstance(v, TABresult):
            return (np.array(v.kpoints), np.array(v.results["Energy"].data), np.array(v.results["q"].data))
        return np.array(v.data)

    def expect_keys(r, what):
        if not isinstance(r, ResultDict):
            raise Violation(what + ":type", type(r).__name__)
        if sorted(r.results) != sorted(kinds):
            raise Violation(what + ":keys", f"{sorted(r.results)} != {sorted(kinds)}")

    def cmp(got, exp, what, tol=TOL):
        if exp is None or got is None:
            if not (exp is None and got is None):
                raise Violation(what, "void / non-void mismatch")
        elif isinstance(exp, tuple):
            kd = got[0] - exp[0] % 1
            if got[0].shape != exp[0].shape or np.abs(kd - np.round(kd)).max() > 1e-9:
                raise Violation(what + ":kpoints", "tabulated k-points differ")
            eq(got[1], exp[1], what + ":Energy", tol)
            eq(got[2], exp[2], what + ":q", tol)
        else:
            eq(got, exp, what, tol)

    def combine(x, y, sign=1):
        if x is None:
            return None if y is None else sign * y
        if y is None:
            return x
        if isinstance(x, tuple):
            return tuple(np.vstack([p, q]) for p, q in zip(x, y))
        return None

    # key-wise addition
    r = a + b
    expect_keys(r, "add")
    for key, e in kinds.items():
        x, y = raw[key]
        if e["kind"] in ("K",):
            exp = np.vstack([x, y])
        elif e["kind"] == "T":
            exp = combine(x, y)
        elif x is None or y is None:
            exp = combine(x, y)
        else:
            exp = x + y
        cmp(value(r, key), exp, f"add[{e['kind']}]")
    # key-wise subtraction (energy-resolved entries only, see ASSUMPTIONS)
    if all(e["kind"][0] in "EV" for e in kinds.values()):
        r = a - b
        expect_keys(r, "sub")
        for key, e in kinds.items():
            x, y = raw[key]
            exp = (x - y) if (x is not None and y is not None) else combine(x, y, -1)
            cmp(value(r, key), exp, f"sub[{e['kind']}]")
    # scaling
    for name, r in (("mul", a * s), ("rmul", s * a), ("div", a / sdiv)):
        expect_keys(r, name)
        for key, e in kinds.items():
            x = raw[key][0]
            if x is None:
                exp = None
            elif e["kind"] == "T":
                exp = x
            elif e["kind"] == "K" and name == "div":
                exp = x
            elif name == "div":
                exp = x / sdiv
            else:
                exp = x * s
            cmp(value(r, key), exp, f"{name}[{e['kind']}]")
    # neutral start values of sum()
    for name, r in (("None+a", None + a), ("a+None", a + None), ("0+a", 0 + a), ("a+0", a + 0), ("sum", sum([a]))):
        expect_keys(r, "neutral:" + name)
        for key in kinds:
            cmp(value(r, key), raw[key][0], "neutral:" + name)
    # transformation key-wise and distributing over '+'
    ta, tb_, tab = a.transform(g), b.transform(g), (a + b).transform(g)
    B_ = recip
    Mk = (B_ @ Of.T @ np.linalg.inv(B_)) * (-1 if gtr else 1)
    for key, e in kinds.items():
        for side, tr_ in ((0, ta), (1, tb_)):
            x = raw[key][side]
            if x is None:
                exp = None
            elif e["kind"] == "T":
                exp = ((x[0] % 1) @ Mk, x[1],
                       pgroup.ref_transform_tensor(x[2], e["rank"], Of, gtr, e["tTR"], e["tInv"]))
            else:
                exp = pgroup.ref_transform_tensor(x, e["rank"], Of, gtr, e["tTR"], e["tInv"])
            cmp(value(tr_, key), exp, f"transform[{e['kind']}]", TTOL)
        x, y = value(ta, key), value(tb_, key)
        if e["kind"] == "K":
            exp = np.vstack([x, y])
        elif e["kind"] == "T" or x is None or y is None:
            exp = combine(x, y)
        else:
            exp = x + y
        cmp(value(tab, key), exp, f"transform-distributes[{e['kind']}]", TTOL)
    for key in kinds:
        cmp(value(a, key), raw[key][0], "operand-mutated")
        cmp(value(b, key), raw[key][1], "operand-mutated")
    nt = any(e["rank"] >= 2 or len(e["NE"]) >= 2 or not (pgroup.transform_is_trivial(e["tTR"]) and
                                                        pgroup.transform_is_trivial(e["tInv"]))
             for e in kinds.values())
    return ok(nt, f"nkeys={len(kinds)}", *sorted({"kind=" + e["kind"] for e in kinds.values()}),
              "sym-TR" if gtr else None, "scalar=" + case["s"]["kind"])


SUBS = [
    Sub("energy", energy_case_st(), check_energy, quick=400, thorough=16000, budget_quick=200, budget_thorough=900),
    Sub("kband", kband_case_st(), check_kband, quick=240, thorough=8000, budget_quick=150, budget_thorough=600),
    Sub("dict", dict_case_st(), check_dict, quick=240, thorough=8000, budget_quick=150, budget_thorough=600),
]
