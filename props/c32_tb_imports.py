"""C32  Tight-binding imports reproduce the source model  (DESIGN 4/C32)

Subs
* pythtb    : random PythTB 2.0 `TBModel`s (dim_r 1-3, all or only some directions periodic, spinless/spinful,
              1-4 orbitals inside/outside the home cell, on-site scalars / 4-vectors / 2x2 blocks, hoppings with
              R up to +-2 given as scalars / Pauli 4-vectors / 2x2 matrices, 'set' and 'add' modes, explicitly
              stored conjugate pairs).  `System_R.from_pythtb(model)` must have, at drawn reduced k-points, the band
              energies (a) of the model's own solver `model.solve_ham`, and (b) of the harness' own Bloch sum
              sum_R T(R) exp(2 pi i k.R) built from the *case description* (own book-keeping of set/add/conjugate
              semantics, no pythtb and no wannierberri code).  (a) vs (b) disagreeing is a harness error.
* tbmodels  : the same for random `tbmodels.Model`s (dim 1-3, add_hop / on_site / add_on_site, dense and sparse
              storage, positions outside the home cell, left- and right-handed unit cells).
* haldane   : `models.Haldane_ptb(p)` and `models.Haldane_tbm(p)` with the same drawn parameters p must give the
              same system: number of orbitals, lattice, centres, R-aligned Hamiltonian matrices, and bands at drawn k.
* builders  : every other builder in `wannierberri.models` with drawn parameters: imported bands == source model's
              solver == harness' Bloch sum over the model's hopping table.

Tolerance: 1e-9 * (1 + max|a| + max|b|) on sorted eigenvalues and matrices (DESIGN 2.3; a few dense LA steps).
Degenerate bands: evaluate_k's 'energy' quantity reports the *average* energy of bands closer than degen_thresh
(1e-4 eV, documented tabulator behaviour).  Reference eigenvalues closer than 2.5e-4 are therefore compared as a
cluster (equal mean, reported values inside the cluster's range) - see band_mismatch(); no tie with the threshold
is possible because the cluster gap is 2.5x the threshold.

Findings on the unchanged tree (both are genuine, fixes in /verif/scratch_reports/C32_*.diff):
  haldane:pair-differs                      models.Haldane_ptb overwrites its `delta` argument with 0.2 (DESIGN D8)
  pythtb:exception:ValueError@...get_system_tb_py   a pythtb 2.0 model without any inter-cell hopping (only on-site
                                            terms and R=0 hoppings: pythtb omits 'lattice_vector' for them) cannot be
                                            imported: np.vstack of an empty (0,) R list with the (1,dim) zero vector
"""
import numpy as np
from hypothesis import strategies as st

from vlib.runner import Sub, Violation, ok
from vlib.util import fl, rng_of, reldiff
from vlib import tbref
from vlib.wbsys import kpoint_st

PROPERTY_ID = "C32"
RULE = ("pythtb/tbmodels models drawn structurally (dimension, periodic directions, orbitals and their positions, "
        "spin, on-site forms, hopping list with R in [-2,2]^dim, set/add modes, conjugate pairs); bundled builders with "
        "drawn parameters; non-trivial = some orbital position outside [0,1) or spinful model or >=1 inter-cell hopping "
        "with complex amplitude (subs pythtb, tbmodels), parameters different from the builder defaults (subs haldane, "
        "builders); distinct = distinct generated case")
ASSUMPTIONS = ["source-model eigenvalues (pythtb solve_ham / tbmodels eigenval) are taken as the definition of 'the "
               "source model's bands' and are cross-checked against an own Bloch sum built from the case description",
               "tbmodels models always get a unit cell `uc` (the importer needs a lattice)",
               "a tbmodels model with an entirely empty Hamiltonian (no on-site, no hopping) is not generated",
               "tolerance 1e-9 relative (DESIGN 2.3); eigenvalues closer than 2.5e-4 eV are compared as clusters because "
               "the 'energy' tabulator averages bands closer than its degen_thresh=1e-4 eV"]
MIN_NONTRIVIAL = {"quick": 100, "thorough": 3000}
TOL = 1e-9

PAULI = np.array([[[1, 0], [0, 1]], [[0, 1], [1, 0]], [[0, -1j], [1j, 0]], [[1, 0], [0, -1]]], dtype=complex)

_lat_st = st.fixed_dictionaries(dict(a=fl(0.7, 3.0), b=fl(0.7, 3.0), c=fl(0.7, 3.0),
                                     o=st.lists(fl(-1.0, 1.0), min_size=3, max_size=3),
                                     ang=st.one_of(st.none(), fl(0, 6.25))))
_FRACS = [0.0, 0.5, 1 / 3, 0.25, 2 / 3, 0.75, 1 / 6]


@st.composite
def _positions(draw, n, dim):
    kind = draw(st.sampled_from(["inside", "outside", "generic", "integer", "zero"]))
    pos = []
    for _ in range(n):
        if kind == "zero":
            pos.append([0.0] * dim)
        elif kind == "inside":
            pos.append([draw(st.sampled_from(_FRACS)) for _ in range(dim)])
        elif kind == "outside":
            pos.append([draw(st.sampled_from(_FRACS)) + draw(st.integers(-2, 2)) for _ in range(dim)])
        elif kind == "integer":
            pos.append([float(draw(st.integers(-2, 2))) for _ in range(dim)])
        else:
            pos.append([draw(fl(-2.5, 2.5)) for _ in range(dim)])
    return kind, pos


@st.composite
def _Rvec(draw, dim, periodic):
    return [draw(st.integers(-2, 2)) if d in periodic else 0 for d in range(dim)]


@st.composite
def ptb_case(draw):
    dim = draw(st.integers(1, 3))
    norb = draw(st.integers(1, 4))
    spinful = draw(st.booleans())
    periodic = list(range(dim))
    if dim >= 2 and draw(st.integers(0, 4)) == 0:
        drop = draw(st.integers(0, dim - 1))
        periodic = [d for d in periodic if d != drop]
    pkind, pos = draw(_positions(norb, dim))
    forms = ["scalar", "vec4", "mat"] if spinful else ["scalar"]
    onsite = [draw(st.sampled_from(forms)) for _ in range(norb)]
    hops = draw(st.lists(st.fixed_dictionaries(dict(
        i=st.integers(0, norb - 1), j=st.integers(0, norb - 1), R=_Rvec(dim, periodic),
        mode=st.sampled_from(["set", "set", "add"]), form=st.sampled_from(forms), real=st.booleans())),
        min_size=0, max_size=8))
    return dict(dim=dim, norb=norb, spinful=spinful, periodic=periodic, lat=draw(_lat_st), pkind=pkind, pos=pos,
                onsite=onsite, set_onsite=draw(st.booleans()), hops=hops, k=draw(kpoint_st()), k2=draw(kpoint_st()),
                rs=draw(st.integers(0, 2 ** 32)))


def _amp(rng, form, spinful, real, hermitian=False):
    """(value to hand to the source package, the block it stands for)"""
    def z():
        x = float(np.round(rng.uniform(-1, 1), 6))
        y = 0.0 if (real or hermitian) else float(np.round(rng.uniform(-1, 1), 6))
        return x + 1j * y if y != 0.0 else x
    if not spinful:
        v = z()
        return v, np.array([[v]], dtype=complex)
    if form == "scalar":
        v = z()
        return v, v * np.eye(2, dtype=complex)
    if form == "vec4":
        v = [z() for _ in range(4)]
        return v, np.einsum("a,aij->ij", np.array(v, dtype=complex), PAULI)
    M = np.array([[z(), z()], [z(), z()]], dtype=complex)
    if hermitian:
        off = complex(np.round(rng.uniform(-1, 1), 6), np.round(rng.uniform(-1, 1), 6))
        M = np.array([[M[0, 0].real, off], [np.conj(off), M[1, 1].real]], dtype=complex)
    return M, M.copy()


def build_pythtb(case):
    """returns (pythtb model, own HopTable, stats)"""
    import pythtb
    dim, norb, spinful = case["dim"], case["norb"], case["spinful"]
    ns = 2 if spinful else 1
    rng = rng_of(case["rs"])
    L = tbref.lattice_nd(case["lat"], dim)
    lattice = pythtb.Lattice(lat_vecs=L, orb_vecs=np.array(case["pos"], dtype=float).reshape(norb, dim),
                             periodic_dirs=list(case["periodic"]))
    model = pythtb.TBModel(lattice, spinful=spinful)
    own = tbref.HopTable(norb * ns, dim, np.repeat(np.array(case["pos"], dtype=float).reshape(norb, dim), ns, axis=0))
    if case["set_onsite"]:
        vals = []
        for i, form in enumerate(case["onsite"]):
            v, B = _amp(rng, form, spinful, real=True, hermitian=True)
            vals.append(v)
            own.add_onsite_block(ns * i, B)
        if spinful and len({np.shape(v) for v in vals}) > 1:
            for i, v in enumerate(vals):  # mixed forms cannot go into one array: set them one by one
                model.set_onsite(v, ind_i=i)
        else:
            model.set_onsite(vals)
    entries = {}   # own book-keeping of pythtb's hopping table: key (i,j,R) -> block
    order = []
    n_conj = n_add = n_skipped = n_inter = n_cplx_inter = 0
    for h in case["hops"]:
        i, j, R = h["i"], h["j"], tuple(h["R"])
        if i == j and not any(R):
            n_skipped += 1   # documented: on-site terms are not hoppings in pythtb
            continue
        v, B = _amp(rng, h["form"], spinful, h["real"])
        key = (i, j, R)
        ckey = (j, i, tuple(-x for x in R))
        conj_present = ckey in entries and ckey != key
        model.set_hop(v, i, j, list(R), mode=h["mode"], allow_conjugate_pair=bool(conj_present))
        if conj_present:
            n_conj += 1
        if h["mode"] == "add" and key in entries:
            entries[key] = entries[key] + B
            n_add += 1
        else:
            if key not in entries:
                order.append(key)
            entries[key] = B
    for key in order:
        i, j, R = key
        own.add_block(R, ns * i, ns * j, entries[key])
        if any(R):
            n_inter += 1
            if np.max(np.abs(entries[key].imag)) > 0:
                n_cplx_inter += 1
    return model, own, dict(conj=n_conj, add=n_add, skipped=n_skipped, inter=n_inter, cplx_inter=n_cplx_inter)


def _wb_energy(system, k):
    import wannierberri as wb
    E = np.array(wb.evaluate_k(system, k=np.array(k, dtype=float), quantities=["energy"]), dtype=float)
    return np.sort(E.reshape(-1))


CLUSTER_GAP = 2.5e-4


def band_mismatch(e_got, e_ref):
    """max deviation between two sorted spectra, in units of the tolerance scale (1 + max|a| + max|b|), allowing
    for the documented treatment of degenerate bands by the 'energy' tabulator: bands closer than degen_thresh
    (1e-4 eV) are reported with their *average* energy.  Reference eigenvalues separated by less than
    CLUSTER_GAP (2.5x the threshold, so no tie with it is possible) are therefore compared as a cluster:
    equal cluster mean, and every reported value inside the cluster's range.  Isolated bands: plain difference."""
    scale = 1.0 + np.max(np.abs(e_got)) + np.max(np.abs(e_ref))
    worst = 0.0
    n = len(e_ref)
    a = 0
    while a < n:
        b = a + 1
        while b < n and e_ref[b] - e_ref[b - 1] < CLUSTER_GAP:
            b += 1
        g, r = e_got[a:b], e_ref[a:b]
        if b - a == 1:
            worst = max(worst, abs(g[0] - r[0]))
        else:
            worst = max(worst, abs(np.mean(g) - np.mean(r)), r.min() - g.min(), g.max() - r.max())
        a = b
    return worst / scale


def has_cluster(e_ref):
    d = np.diff(e_ref)
    return bool(np.any((d < CLUSTER_GAP) & (d > 1e-12)))


def _cmp_bands(tag, system, ks, src_fun, own_table, own_k_of=lambda k: k):
    clustered = False
    for k in ks:
        k = np.array(k, dtype=float)
        e_own = own_table.bands(own_k_of(k))
        e_src = np.sort(np.asarray(src_fun(k), dtype=float).reshape(-1))
        if reldiff(e_src, e_own) > TOL:
            raise RuntimeError(f"{tag}: harness Bloch sum disagrees with the source package's solver "
                               f"({reldiff(e_src, e_own):.2e}) - oracle bug, not a property violation")
        e_wb = _wb_energy(system, k)
        if e_wb.shape != e_own.shape:
            raise Violation("number-of-bands", f"{tag}: system has {e_wb.size} bands, source model {e_own.size}")
        d1, d2 = band_mismatch(e_wb, e_src), band_mismatch(e_wb, e_own)
        if d1 > TOL or d2 > TOL:
            raise Violation("bands-differ", f"{tag}: k={k.tolist()} imported {e_wb.tolist()} source {e_src.tolist()} "
                                            f"(rel diff to solver {d1:.2e}, to own Bloch sum {d2:.2e})")
        clustered = clustered or has_cluster(e_own)
    return clustered


def check_pythtb(case):
    from wannierberri.system.system_R import System_R
    model, own, stt = build_pythtb(case)
    dim, per = case["dim"], case["periodic"]
    if not own.is_hermitian():
        raise RuntimeError("own table not hermitian")
    system = System_R.from_pythtb(model)
    ns = 2 if case["spinful"] else 1
    if system.num_wann != case["norb"] * ns:
        raise Violation("number-of-bands", f"num_wann={system.num_wann} for {case['norb']} orbitals x {ns} spins")

    def src(k):
        return model.solve_ham([[float(k[d]) for d in per]])

    clustered = _cmp_bands("pythtb", system, [case["k"], case["k2"]], src, own)
    outside = any((x < 0 or x >= 1) for p in case["pos"] for x in p)
    nt = outside or case["spinful"] or stt["cplx_inter"] > 0
    return ok(nt, f"dim={dim}", "spinful" if case["spinful"] else "spinless", f"pos:{case['pkind']}",
              "pos-outside" if outside else None, "open-direction" if len(per) < dim else None,
              "conj-pair-stored" if stt["conj"] else None, "mode-add-accumulated" if stt["add"] else None,
              "no-intercell-hop" if stt["inter"] == 0 else None,
              f"nhop={min(len(case['hops']) - stt['skipped'], 5)}{'+' if len(case['hops']) - stt['skipped'] > 5 else ''}",
              "onsite-set" if case["set_onsite"] else "onsite-default",
              "near-degenerate-cluster" if clustered else None)


# ------------------------------------------------------------------------------------------------
# tbmodels


@st.composite
def tbm_case(draw):
    dim = draw(st.integers(1, 3))
    size = draw(st.integers(1, 4))
    pkind, pos = draw(_positions(size, dim))
    hops = draw(st.lists(st.fixed_dictionaries(dict(
        i=st.integers(0, size - 1), j=st.integers(0, size - 1), R=_Rvec(dim, list(range(dim))), real=st.booleans())),
        min_size=0, max_size=8))
    return dict(dim=dim, size=size, lat=draw(_lat_st), lefthanded=draw(st.booleans()), pkind=pkind,
                pos=None if draw(st.integers(0, 5)) == 0 else pos,
                on_site=draw(st.booleans()), add_on_site=draw(st.booleans()), sparse=draw(st.booleans()),
                hops=hops, k=draw(kpoint_st()), k2=draw(kpoint_st()), rs=draw(st.integers(0, 2 ** 32)))


def build_tbmodels(case):
    import tbmodels
    dim, n = case["dim"], case["size"]
    rng = rng_of(case["rs"])
    uc = tbref.lattice_nd(case["lat"], dim)
    if case["lefthanded"]:
        uc[-1] *= -1
    own = tbref.HopTable(n, dim)
    kw = {}
    on_site = case["on_site"] or (not case["hops"] and not case["add_on_site"])  # never an entirely empty model
    if on_site:
        e = [float(np.round(rng.uniform(-2, 2), 6)) for _ in range(n)]
        kw["on_site"] = e
        own.add_onsite_block(0, np.diag(e))
    if case["pos"] is not None:
        kw["pos"] = case["pos"]
    model = tbmodels.Model(dim=dim, size=n, uc=uc, sparse=case["sparse"], **kw)
    n_inter = n_cplx = 0
    for h in case["hops"]:
        x = float(np.round(rng.uniform(-1, 1), 6))
        y = 0.0 if h["real"] else float(np.round(rng.uniform(-1, 1), 6))
        t = complex(x, y)
        model.add_hop(t, h["i"], h["j"], list(h["R"]))
        own.add_block(h["R"], h["i"], h["j"], [[t]])     # documented: the conjugate partner is added automatically
        if any(h["R"]):
            n_inter += 1
            n_cplx += int(y != 0)
    if case["add_on_site"]:
        e = [float(np.round(rng.uniform(-2, 2), 6)) for _ in range(n)]
        model.add_on_site(e)
        own.add_onsite_block(0, np.diag(e))
    return model, own, dict(inter=n_inter, cplx_inter=n_cplx)


def check_tbmodels(case):
    from wannierberri.system.system_R import System_R
    model, own, stt = build_tbmodels(case)
    dim = case["dim"]
    system = System_R.from_tbmodels(model)
    if system.num_wann != case["size"]:
        raise Violation("number-of-bands", f"num_wann={system.num_wann} for size {case['size']}")

    def src(k):
        return model.eigenval([float(x) for x in k[:dim]])

    clustered = _cmp_bands("tbmodels", system, [case["k"], case["k2"]], src, own)
    outside = case["pos"] is not None and any((x < 0 or x >= 1) for p in case["pos"] for x in p)
    selfhop = any(h["i"] == h["j"] and not any(h["R"]) for h in case["hops"])
    return ok(outside or stt["cplx_inter"] > 0, f"dim={dim}", f"pos:{case['pkind'] if case['pos'] is not None else 'None'}",
              "pos-outside" if outside else None, "sparse" if case["sparse"] else "dense",
              "left-handed-uc" if case["lefthanded"] and dim > 0 else None,
              "R0-self-hop(2Re added to on-site)" if selfhop else None,
              "no-intercell-hop" if stt["inter"] == 0 else None, f"size={case['size']}",
              "near-degenerate-cluster" if clustered else None)


# ------------------------------------------------------------------------------------------------
# Haldane pair

HALDANE_DEFAULTS = dict(delta=0.2, hop1=-1.0, hop2=0.15, phi=float(np.pi / 2))


def _param(name, lo, hi):
    return st.one_of(fl(lo, hi), fl(lo, hi), st.just(HALDANE_DEFAULTS[name]))


haldane_st = st.fixed_dictionaries(dict(
    delta=_param("delta", -3.0, 3.0), hop1=_param("hop1", -2.0, 2.0), hop2=_param("hop2", -1.0, 1.0),
    phi=_param("phi", -3.2, 3.2), omit=st.lists(st.sampled_from(["delta", "hop1", "hop2", "phi"]), max_size=2, unique=True),
    k=kpoint_st(), k2=kpoint_st()))


def _system_data(system):
    t = tbref.table_from_system(system, dim=3)
    return dict(n=int(system.num_wann), L=np.array(system.real_lattice), wcc=np.array(system.wannier_centers_red),
                periodic=[bool(x) for x in system.periodic], table=t)


def check_haldane(case):
    import wannierberri.models as wbm
    from wannierberri.system.system_R import System_R
    p = {k: case[k] for k in ("delta", "hop1", "hop2", "phi") if k not in case["omit"]}   # omitted -> builder default
    full = dict(HALDANE_DEFAULTS)
    full.update(p)
    m_ptb = wbm.Haldane_ptb(**p)
    m_tbm = wbm.Haldane_tbm(**p)
    s_ptb = System_R.from_pythtb(m_ptb)
    s_tbm = System_R.from_tbmodels(m_tbm)
    # each import reproduces its own source model (so that a difference below is attributable to the builders)
    own_ptb = tbref.table_from_pythtb(m_ptb)
    own_tbm = tbref.table_from_tbmodels(m_tbm)
    ks = [case["k"], case["k2"]]
    _cmp_bands("Haldane_ptb", s_ptb, ks, lambda k: m_ptb.solve_ham([[float(k[0]), float(k[1])]]), own_ptb)
    _cmp_bands("Haldane_tbm", s_tbm, ks, lambda k: m_tbm.eigenval([float(k[0]), float(k[1])]), own_tbm)
    a, b = _system_data(s_ptb), _system_data(s_tbm)
    if a["n"] != b["n"]:
        raise Violation("pair-differs", f"num_wann {a['n']} vs {b['n']}")
    if reldiff(a["L"], b["L"]) > TOL:
        raise Violation("pair-differs", "real lattices differ")
    if reldiff(a["wcc"], b["wcc"]) > TOL:
        raise Violation("pair-differs", f"centres differ: {a['wcc'].tolist()} vs {b['wcc'].tolist()}")
    if a["periodic"] != b["periodic"]:
        raise Violation("pair-differs", f"periodic flags differ: {a['periodic']} vs {b['periodic']}")
    Ta, Tb = a["table"].T, b["table"].T
    zero = np.zeros((a["n"], a["n"]), dtype=complex)
    scale = 1 + max([np.max(np.abs(M)) for M in list(Ta.values()) + list(Tb.values())] + [0.0])
    for R in sorted(set(Ta) | set(Tb)):
        Ma, Mb = Ta.get(R, zero), Tb.get(R, zero)
        if np.max(np.abs(Ma - Mb)) > TOL * scale:
            raise Violation("pair-differs", f"parameters {full}: Ham_R at R={list(R)} is {np.round(Ma, 6).tolist()} from "
                                            f"Haldane_ptb but {np.round(Mb, 6).tolist()} from Haldane_tbm")
    for k in ks:
        ea, eb = _wb_energy(s_ptb, k), _wb_energy(s_tbm, k)
        if band_mismatch(ea, eb) > TOL and band_mismatch(eb, ea) > TOL:
            raise Violation("pair-differs", f"bands at k={k}: {ea.tolist()} vs {eb.tolist()}")
    nd = [k for k in HALDANE_DEFAULTS if full[k] != HALDANE_DEFAULTS[k]]
    return ok(len(nd) > 0, *[f"non-default:{k}" for k in nd], "all-default" if not nd else None,
              "omitted-args" if case["omit"] else None)


# ------------------------------------------------------------------------------------------------
# the other bundled builders


@st.composite
def builder_case(draw):
    name = draw(st.sampled_from(["Chiral", "SSH_ptb", "CuMnAs_2d", "KaneMele_ptb", "Chiral_OSD", "model_1d_pythtb",
                                 "Haldane_ptb", "Haldane_tbm"]))
    d = dict(name=name, k=draw(kpoint_st()), k2=draw(kpoint_st()), spin=False, default=draw(st.integers(0, 5)) == 0)
    p = {}
    if name == "Chiral":
        p = dict(delta=draw(fl(-3, 3)), hop1=draw(fl(-2, 2)), hop2=draw(fl(-1, 1)), phi=draw(fl(-3.2, 3.2)),
                 hopz_right=draw(fl(-1, 1)), hopz_left=draw(fl(-1, 1)), hopz_vert=draw(fl(-1, 1)))
        d["hopz_imag"] = [draw(fl(-1, 1)) if draw(st.booleans()) else 0.0 for _ in range(3)]
    elif name == "SSH_ptb":
        p = dict(delta=draw(fl(-2, 2)), hop1=draw(fl(-2, 2)), hop2=draw(fl(-2, 2)))
    elif name == "CuMnAs_2d":
        n = [draw(fl(-1, 1)), draw(fl(-1, 1)), draw(fl(-1, 1))]
        n[draw(st.integers(0, 2))] += draw(st.sampled_from([-1.5, 1.5]))   # |n| >= 0.5: the builder normalises n
        p = dict(nx=n[0], ny=n[1], nz=n[2], hop1=draw(fl(-2, 2)), hop2=draw(fl(-1, 1)), l=draw(fl(-1, 1)),
                 J=draw(fl(-1, 1)), dt=draw(fl(-1, 1)))
    elif name == "KaneMele_ptb":
        p = dict(topological=draw(st.sampled_from(["even", "odd"])))
        d["spin"] = draw(st.booleans())
    elif name == "Chiral_OSD":
        d["spin"] = draw(st.booleans())
    elif name == "model_1d_pythtb":
        p = dict(Delta=draw(fl(-2, 2)), spinor_manual=draw(st.booleans()),
                 hoppings=[draw(fl(-1, 1)) for _ in range(8)])
        d["spin"] = (not p["spinor_manual"]) and draw(st.booleans())
    else:
        p = dict(delta=draw(fl(-3, 3)), hop1=draw(fl(-2, 2)), hop2=draw(fl(-1, 1)), phi=draw(fl(-3.2, 3.2)))
    d["params"] = p
    return d


def check_builder(case):
    import wannierberri.models as wbm
    from wannierberri.system.system_R import System_R
    name = case["name"]
    p = dict(case["params"])
    if case["default"] and name not in ("KaneMele_ptb", "model_1d_pythtb"):
        p = {}
    if name == "Chiral" and p:
        for key, im in zip(("hopz_right", "hopz_left", "hopz_vert"), case["hopz_imag"]):
            if im != 0.0:
                p[key] = complex(p[key], im)     # documented: "float or complex"
    if name == "model_1d_pythtb":
        p["hoppings"] = np.array(p["hoppings"], dtype=float)
    model = getattr(wbm, name)(**p)
    if name == "Haldane_tbm":
        system = System_R.from_tbmodels(model)
        own = tbref.table_from_tbmodels(model)
        dim = 2

        def src(k):
            return model.eigenval([float(x) for x in k[:dim]])
    else:
        kw = dict(spin=True) if case["spin"] else {}
        system = System_R.from_pythtb(model, **kw)
        own = tbref.table_from_pythtb(model)
        dim = int(model.dim_r)

        def src(k):
            return model.solve_ham([[float(x) for x in k[:dim]]])
    if not own.is_hermitian():
        raise RuntimeError("table read from the model is not hermitian")
    clustered = _cmp_bands(name, system, [case["k"], case["k2"]], src, own)
    nondefault = bool(p) and name not in ("Chiral_OSD",)
    return ok(nondefault, name, "defaults" if not p else "drawn-parameters", "spin=True" if case["spin"] else None,
              "complex-hopz" if name == "Chiral" and p and any(x != 0 for x in case["hopz_imag"]) else None,
              "near-degenerate-cluster" if clustered else None)


SUBS = [
    Sub("pythtb", ptb_case(), check_pythtb, quick=320, thorough=12800, budget_quick=150.0, budget_thorough=900.0),
    Sub("tbmodels", tbm_case(), check_tbmodels, quick=200, thorough=8000, budget_quick=150.0, budget_thorough=900.0),
    Sub("haldane", haldane_st, check_haldane, quick=48, thorough=3200, budget_quick=150.0, budget_thorough=900.0),
    Sub("builders", builder_case(), check_builder, quick=96, thorough=3200, budget_quick=150.0, budget_thorough=900.0),
]
