"""C01  Wannier interpolation reproduces the input on the ab-initio mesh (DESIGN 4/C01)

Code under test:  Rvectors(lattice, shifts_left_red=wcc).set_Rvec(mp_grid, ws_tolerance) ->
set_fft_q_to_R(kpt_red = mesh in any order, individual points shifted by integers) -> q_to_R(X_q)
and System_R.do_ws_dist(mp_grid) (re-mapping of an existing real-space model), and get_system_w90(WannierData).

Genuine defect found with this check (see scratch_reports/C01_ws_search_window.diff): WignerSeitz searches only
+-3 super-cells and never verifies that the nearest replica is inside; for skewed cells / anisotropic meshes / distant
centres the selected replicas are not the nearest ones and, because the window is not inversion symmetric for
residues r != 0, the result violates X(-R) = X(R)^dagger (bucket *:hermiticity-search-window).

Oracles (all written here / in vlib/wsref.py, no wannierberri code):
 (i)   explicit Bloch sum  sum_R exp(2 pi i q.R) X(R)  at every mesh point == input X(q)          (1e-10 rel)
       and the same through the code's own R->k FFT on the mesh (set_fft_R_to_k(NK=mp_grid) + R_to_k)
 (ii)  X(-R) == X(R)^dagger with my own -R lookup (and the code's conj_XX_R must agree with that)   (1e-12 rel)
 (iii) for every WF pair and every residue class of R modulo the mesh: sum 1/Ndegen == 1 (hence N_mesh per
       pair), every class present, no replica listed twice; recomputed from iRvec_list/Ndegen_list/shift_index
 (iv)  the replicas listed for a pair are exactly the brute-force minimisers of |R + t_b - t_a| (Cartesian) within
       the tolerance among R = r + N*j (all j; or j in [-3,3]^3 = the default search size), Ndegen is their number
 (iv') the real-space matrix returned by q_to_R is  X_grid(R mod N)/Ndegen on the listed replicas and zero
       elsewhere, X_grid being my own O(N^2) inverse DFT of the input
 (v)   do_ws_dist(mp_grid): X(q) at the mesh points unchanged; new X(R) == folded old X / Ndegen on my own
       brute-force replicas; hermiticity preserved.
 (vi)  get_system_w90 on a synthetic WannierData (CheckPoint with random semi-unitary V(q), EIG with random
       energies, permuted / integer-shifted k-points): H(q) of the system on the mesh == V^dagger E V, H(R) ==
       own inverse DFT / Ndegen on the brute-force replicas, hermiticity.
"""
import numpy as np
from hypothesis import strategies as st

from vlib.runner import Sub, Violation, Inconclusive, ok
from vlib.util import fl, reldiff, rng_of, crandom, maxabs
from vlib import wbsys, wsref

PROPERTY_ID = "C01"
RULE = ("lattice from 11 families (+rotation, optionally described by a sheared non-reduced cell), Gamma-centred mesh "
        "in [1..5]^3 with <=60 points listed in a drawn permutation, optionally every k-point shifted by its own "
        "integer vector; 1-4 Wannier centres of six classes (zero, exact fractions, generic, outside the home cell, "
        "coinciding groups, WS-boundary forcing = differences that are multiples of N_i/2, N_i/3, optionally displaced "
        "by 3e-6..3e-3); ws_tolerance in {1e-5,1e-3,1e-2,-1e-3}; Hermitian X(q) of Cartesian rank 0/1/2; fftlib "
        "fftw/numpy (sub ws); random Hermitian real-space models re-mapped by do_ws_dist (sub remap); synthetic "
        "checkpoint + eigenvalues through get_system_w90 (sub w90).  non-trivial = some replica has Ndegen>1 "
        "(Wigner-Seitz boundary) or a centre lies outside the home cell or the mesh order is permuted (remap: or "
        "R-vectors collide modulo the mesh)")
ASSUMPTIONS = ["Bloch sums carry no Wannier-centre phases (convention of the code, cf. vlib/wbsys.Model.Xk)",
               "centre differences are compared after rounding to ceil(-log10(tol))+1 decimals (8 for negative tol), "
               "as documented in Rvectors.set_Rvec; the brute-force minimisation uses the same rounded difference",
               "replica lists are accepted when they equal the true nearest replicas (brute force over a box that "
               "provably contains them) OR the nearest ones among the +-3 super-cells searched by the unrepaired "
               "WignerSeitz class; cases where the two differ are labelled 'beyond-search'.  The explicitly promised "
               "clauses (round trip, X(-R)=X(R)^dagger, weights) are asserted in every case; a hermiticity failure in "
               "a 'beyond-search' case gets the bucket 'hermiticity-search-window'",
               "cases in which a candidate sits within 1e-9 of the selection threshold dist_min+tol are ties "
               "(Inconclusive) for clauses (ii),(iv); (i), (iii), (iv') are asserted before the tie test",
               "tolerances: round trip 1e-10 relative (DESIGN 2.3), hermiticity 1e-12 relative, weights 1e-12; "
               "do_ws_dist: 1e-9 relative + 1e-8 absolute (it drops R-vectors whose entries are all below 1e-8)"]
MIN_NONTRIVIAL = {"quick": 100, "thorough": 1500}
TOL_RT = 1e-10
TOL_H = 1e-12
J_CODE = 3  # ws_search_size default of WignerSeitz

_FRACS = [0.0, 0.5, 1 / 3, 2 / 3, 0.25, 0.75, 1 / 6, 1 / 12]
_BND = [0.0, 0.5, -0.5, 1 / 3, 2 / 3, -1 / 3, 0.25, 1.0]
_OFF = [0.0, 0.0, 0.0, 3e-6, 3e-5, -3e-4, 3e-3]
_TOLS = [1e-3, 1e-5, 1e-2, -1e-3]


@st.composite
def mesh_st(draw, hi=5, nmax=60):
    mp = draw(st.lists(st.integers(1, hi), min_size=3, max_size=3).filter(lambda m: m[0] * m[1] * m[2] <= nmax))
    return mp


@st.composite
def centres_st(draw, nw, mp):
    ckind = draw(st.sampled_from(["zero", "fractions", "generic", "outside", "coinciding", "boundary", "boundary"]))
    fr = st.sampled_from(_FRACS)
    centres = []
    for i in range(nw):
        if ckind == "zero":
            c = [0.0, 0.0, 0.0]
        elif ckind == "fractions":
            c = [draw(fr) for _ in range(3)]
        elif ckind == "generic":
            c = [draw(fl(0, 0.999)) for _ in range(3)]
        elif ckind == "outside":
            c = [draw(fr) + draw(st.integers(-2, 2)) for _ in range(3)]
        elif ckind == "coinciding":
            if i == 0 or draw(st.booleans()):
                c = [draw(fr) for _ in range(3)]
            else:
                c = list(centres[-1])
        else:  # boundary: differences that are simple fractions of the super-cell N_i a_i
            if i == 0:
                c = [draw(st.sampled_from([0.0, 0.5, 1 / 3, 0.25])) for _ in range(3)]
            else:
                # ... optionally displaced slightly off the boundary, so that the tolerance and the rounding matter
                c = [centres[0][d] + mp[d] * draw(st.sampled_from(_BND)) + draw(st.sampled_from(_OFF))
                     for d in range(3)]
        centres.append(c)
    return ckind, centres


@st.composite
def ws_case_st(draw):
    lat = draw(wbsys.lattice_st())
    # the same Bravais lattice described by a non-reduced cell: a2 += n a1, a3 += m a1 + l a2 (unimodular)
    shear = draw(st.one_of(st.none(), st.none(), st.lists(st.integers(-2, 2), min_size=3, max_size=3)))
    mp = draw(mesh_st())
    N = mp[0] * mp[1] * mp[2]
    nw = draw(st.sampled_from([2, 3, 1, 4]))
    ckind, centres = draw(centres_st(nw, mp))
    perm = draw(st.one_of(st.permutations(list(range(N))), st.permutations(list(range(N))), st.just(list(range(N)))))
    return dict(lat=lat, shear=shear, mp=mp, nw=nw, ckind=ckind, centres=centres, perm=list(perm),
                kshift=draw(st.booleans()), tol=draw(st.sampled_from(_TOLS)), rank=draw(st.sampled_from([1, 0, 2])),
                fftlib=draw(st.sampled_from(["numpy", "fftw"])), rs=draw(st.integers(0, 2 ** 32)))


def _dagger(X):
    return np.conj(np.swapaxes(X, 1, 2))


def _minus_R_check(iRvec, XR, what, tol_abs=0.0, search_window=False):
    """own -R lookup: X(-R) == X(R)^dagger, a vector missing from the list counts as X = 0.
    The bucket name tells whether some true nearest replica lies outside the +-3 super-cells searched by default."""
    idx = {tuple(int(x) for x in R): i for i, R in enumerate(iRvec)}
    if len(idx) != len(iRvec):
        raise Violation("duplicate-R", f"{what}: the R list contains a vector twice")
    conj = np.zeros_like(XR)
    worst = (0.0, None)
    for R, i in idx.items():
        j = idx.get(tuple(-x for x in R))
        if j is not None:
            conj[i] = np.conj(np.swapaxes(XR[j], 0, 1))
        e = maxabs(conj[i] - XR[i])
        if e > worst[0]:
            worst = (e, (R, j is None))
    scale = 1.0 + maxabs(XR)
    if worst[0] > TOL_H * scale + tol_abs:
        R, missing = worst[1]
        raise Violation("hermiticity-search-window" if search_window else "hermiticity",
                        f"{what}: |X(-R)-X(R)^dagger| = {worst[0]:.2e} at R={R}" +
                        (" (-R is not in the list at all)" if missing else "") +
                        (" [a nearest replica lies outside the +-3 super-cells]" if search_window else ""))
    return conj


class _Reference:
    """own replica sets per residue class for a rounded centre difference: `win` = minimisers inside the default
    search window j in [-3,3]^3, `exact` = true minimisers (provably sufficient range); cached per shift"""

    def __init__(self, L, mp, tol):
        self.L, self.mp, self.tol = L, mp, tol
        self.cand3 = wsref.candidates(mp, J_CODE)
        self.cache = {}

    def __call__(self, s):
        key = tuple(float(x) + 0.0 for x in s)
        if key not in self.cache:
            _, sel, t3 = wsref.select(self.L, self.cand3, s, self.tol)
            win = wsref.selected_sets(self.cand3, sel)
            cx = wsref.exact_candidates(self.L, self.mp, s, self.tol)
            if cx is None:
                self.cache[key] = (win, None, t3)
            else:
                _, selx, tx = wsref.select(self.L, cx, s, self.tol)
                self.cache[key] = (win, wsref.selected_sets(cx, selx), t3 or tx)
        return self.cache[key]


def _lattice(case):
    L = wbsys.lattice_matrix(case["lat"])
    sh = case.get("shear")
    if sh:
        L = np.array([[1, 0, 0], [sh[0], 1, 0], [sh[1], sh[2], 1]], dtype=float) @ L
    return L


def check_ws(case):
    from wannierberri.fourier.rvectors import Rvectors
    L = _lattice(case)
    mp = np.array(case["mp"], dtype=int)
    N = int(np.prod(mp))
    nw = case["nw"]
    wcc = np.array(case["centres"], dtype=float).reshape(nw, 3)
    tol_in = case["tol"]
    rank = case["rank"]
    rng = rng_of(case["rs"])
    perm = np.array(case["perm"], dtype=int)
    kint0 = wsref.residue_classes(mp)  # product order
    kint = kint0[perm]
    if case["kshift"]:
        G = rng.integers(-2, 3, size=(N, 3))
    else:
        G = np.zeros((N, 3), dtype=int)
    kpt_red = kint / mp[None, :] + G
    Xq = crandom(rng, (N, nw, nw) + (3,) * rank)
    Xq = 0.5 * (Xq + _dagger(Xq))
    Xq0 = Xq.copy()

    rvec = Rvectors(lattice=L.copy(), shifts_left_red=wcc.copy())
    rvec.set_Rvec(mp.copy(), ws_tolerance=tol_in)
    rvec.set_fft_q_to_R(kpt_red=kpt_red.copy(), fftlib=case["fftlib"])
    XR = np.array(rvec.q_to_R(Xq))
    if not np.array_equal(Xq, Xq0):
        raise Violation("input-destroyed", "q_to_R modified its input array")
    iRvec = np.array(rvec.iRvec, dtype=int)
    if XR.shape != (len(iRvec), nw, nw) + (3,) * rank:
        raise Violation("shape", f"q_to_R returned shape {XR.shape} for {len(iRvec)} R-vectors")

    # (i) round trip by explicit Bloch sum at every mesh point (listed order, integer shifts are immaterial)
    back = wsref.bloch_sum(iRvec, XR, kint / mp[None, :])
    d = reldiff(back, Xq0)
    if d > TOL_RT:
        raise Violation("roundtrip", f"explicit Bloch sum at the mesh points differs from the input by {d:.2e}")
    # (i') through the code's own R->k transform on the same mesh (product order)
    rvec.set_fft_R_to_k(NK=tuple(int(x) for x in mp), num_wann=nw, fftlib=case["fftlib"])
    Xk = np.array(rvec.R_to_k(XR.copy(), der=0, hermitian=False))
    Xprod = np.zeros_like(Xq0)
    Xprod[perm] = Xq0
    d = reldiff(Xk, Xprod)
    if d > TOL_RT:
        raise Violation("roundtrip-R_to_k", f"q_to_R followed by R_to_k on the mesh differs from the input by {d:.2e}")

    # (iii) replica weights from the code's lists
    digits, tol = wsref.shift_digits(tol_in)
    classes = [tuple(int(x) for x in r) for r in kint0]
    cls_index = {c: i for i, c in enumerate(classes)}
    shift_index = np.array(rvec.shift_index)
    if shift_index.shape != (nw, nw):
        raise Violation("shift_index-shape", f"{shift_index.shape}")
    code_sets = {}
    maxdeg = 1
    for ish in sorted(set(int(x) for x in shift_index.reshape(-1))):
        Rl = np.array(rvec.iRvec_list[ish], dtype=int)
        Nd = np.array(rvec.Ndegen_list[ish])
        wsum = np.zeros(N)
        sets = [dict() for _ in range(N)]
        for R, nd in zip(Rl, Nd):
            ic = cls_index[tuple(int(x) for x in (R % mp))]
            t = tuple(int(x) for x in R)
            if t in sets[ic]:
                raise Violation("replica-twice", f"shift class {ish}: R={t} listed twice")
            sets[ic][t] = int(nd)
            wsum[ic] += 1.0 / nd
        bad = np.where(np.abs(wsum - 1) > 1e-12)[0]
        if len(bad):
            raise Violation("weights", f"shift class {ish}: sum 1/Ndegen over residue class {classes[bad[0]]} is "
                                       f"{wsum[bad[0]]!r}, expected 1")
        if abs(wsum.sum() - N) > 1e-10:
            raise Violation("weights-total", f"shift class {ish}: total weight {wsum.sum()} != N_mesh {N}")
        code_sets[ish] = sets
        maxdeg = max(maxdeg, int(Nd.max()))

    # brute force replica selection (own), per WF pair
    sround = np.round(-wcc[:, None, :] + wcc[None, :, :], digits)
    ref = _Reference(L, mp, tol)
    tie = False
    beyond = False
    mismatch = None
    expected = np.zeros_like(XR)
    Xgrid = wsref.grid_dft(Xq0, kint, mp)  # own inverse DFT
    idxR = {tuple(int(x) for x in R): i for i, R in enumerate(iRvec)}
    if len(idxR) != len(iRvec):
        raise Violation("duplicate-R", "iRvec contains a vector twice")
    listed_missing = None
    for a in range(nw):
        for b in range(nw):
            win, exact, t = ref(sround[a, b])
            if exact is None:
                raise Inconclusive("exact replica search too large")
            tie = tie or t
            code = code_sets[int(shift_index[a, b])]
            for ic in range(N):
                got = set(code[ic].keys())
                if win[ic] != exact[ic]:
                    beyond = True
                if got != exact[ic] and got != win[ic] and mismatch is None:
                    extra = sorted(got - exact[ic])
                    lost = sorted(exact[ic] - got)
                    mismatch = ("replica-not-minimal" if extra else "replica-missing",
                                f"pair ({a},{b}) shift {sround[a, b].tolist()} class {classes[ic]}: code lists "
                                f"{sorted(got)}, brute force {sorted(exact[ic])} (extra {extra}, lost {lost})")
                for R, nd in code[ic].items():
                    if nd != len(code[ic]) and mismatch is None:
                        mismatch = ("Ndegen", f"pair ({a},{b}) class {classes[ic]}: Ndegen {nd} but "
                                              f"{len(code[ic])} replicas listed")
                    iR = idxR.get(R)
                    if iR is None:
                        listed_missing = R
                        continue
                    expected[iR, a, b] = Xgrid[classes[ic]][a, b] / len(code[ic])
    if listed_missing is not None:
        raise Violation("union-incomplete", f"replica {listed_missing} of a shift list is absent from iRvec")
    # (iv') q_to_R output == own DFT distributed over the code's lists (tie independent)
    d = reldiff(XR, expected)
    if d > TOL_RT:
        raise Violation("qtoR-vs-lists", f"q_to_R output differs from X_grid(R mod N)/Ndegen on the listed replicas "
                                         f"by {d:.2e}")
    if tie:
        raise Inconclusive("replica on the selection threshold (tie)")
    # (iv)
    if mismatch is not None:
        raise Violation(*mismatch)
    # (ii)
    conj = _minus_R_check(iRvec, XR, "q_to_R output", search_window=beyond)
    cc = np.array(rvec.conj_XX_R(XR.copy()))
    if reldiff(cc, conj) > TOL_H:
        raise Violation("conj_XX_R", "Rvectors.conj_XX_R disagrees with an explicit -R lookup")

    outside = bool(np.any((wcc < 0) | (wcc >= 1)))
    permuted = bool(np.any(perm != np.arange(N)))
    coincide = bool(nw > 1 and len({tuple(c) for c in wcc.tolist()}) < nw)
    return ok(maxdeg > 1 or outside or permuted,
              "Ndegen>1" if maxdeg > 1 else "Ndegen=1", f"maxdeg={min(maxdeg, 9)}", "outside" if outside else None,
              "permuted" if permuted else "natural-order", "kshift" if case["kshift"] else None,
              "coinciding" if coincide else None, "beyond-search" if beyond else None,
              f"ckind={case['ckind']}", f"lat={case['lat']['kind']}", f"rank={rank}", case["fftlib"],
              "sheared-cell" if case.get("shear") and any(case["shear"]) else None,
              f"tol={tol_in:g}", f"nw={nw}", f"N={'1' if N == 1 else ('2-8' if N <= 8 else '9-60')}")


def _compare_real_space(L, mp, wcc, tol_in, iRvec, mats, grids, what, bucket, tol_abs=0.0):
    """X(R)_ab must be grid_ab(R mod N)/Ndegen on my own brute-force replicas of the pair (a,b) and zero elsewhere
    (either the true nearest replicas or, for the unrepaired code, the nearest ones inside the +-3 window);
    Hermitian matrices must obey X(-R)=X(R)^dagger.  mats / grids: dict key -> arrays.  returns (maxdeg, beyond)"""
    nw = wcc.shape[0]
    digits, tol = wsref.shift_digits(tol_in)
    sround = np.round(-wcc[:, None, :] + wcc[None, :, :], digits)
    classes = [tuple(int(x) for x in r) for r in wsref.residue_classes(mp)]
    ref = _Reference(L, mp, tol)
    tie = False
    beyond = False
    sets_win, sets_exact = {}, {}
    maxdeg = 1
    for a in range(nw):
        for b in range(nw):
            win, exact, t = ref(sround[a, b])
            if exact is None:
                raise Inconclusive("exact replica search too large")
            tie = tie or t
            sets_win[a, b], sets_exact[a, b] = win, exact
            beyond = beyond or win != exact
            maxdeg = max(maxdeg, max(len(x) for x in exact))
    if tie:
        raise Inconclusive("replica on the selection threshold (tie)")
    idx_new = {tuple(int(x) for x in R): i for i, R in enumerate(iRvec)}
    if len(idx_new) != len(iRvec):
        raise Violation("duplicate-R", f"R list {what} contains a vector twice")
    allR = sorted(set(idx_new) | {R for sel in (sets_win, sets_exact) for v in sel.values() for c in v for R in c})
    pos = {R: i for i, R in enumerate(allR)}
    for k, grid in grids.items():
        got = np.zeros((len(allR),) + grid.shape[3:], dtype=complex)
        for R, i in idx_new.items():
            got[pos[R]] = mats[k][i]
        errs = []
        for sel_sets in (sets_exact, sets_win):
            exp = np.zeros_like(got)
            for (a, b), sets in sel_sets.items():
                for ic, c in enumerate(classes):
                    for R in sets[ic]:
                        exp[pos[R], a, b] = grid[c][a, b] / len(sets[ic])
            # vectors dropped by exclude_zeros (all entries < 1e-8 absolute) compare as zero
            errs.append(maxabs(got - exp) / (1 + maxabs(exp)))
            if not beyond:
                break
        if min(errs) > 1e-9 + tol_abs:
            raise Violation(bucket, f"{k}(R) {what} differs from grid(R mod N)/Ndegen on the brute-force "
                                    f"replicas by {min(errs):.2e}")
        if k in wbsys.HERMITIAN_KEYS:
            _minus_R_check(iRvec, mats[k], f"{k} {what}", tol_abs=tol_abs, search_window=beyond)
    return maxdeg, beyond


# ------------------------------------------------------------------------------------------------
# (v) do_ws_dist on an existing system

@st.composite
def remap_case_st(draw):
    model = draw(wbsys.model_params_st(max_wann=3, max_npairs=6, rmax=4, keys=("Ham",), optional_keys=("AA", "GG")))
    model["decay"] = 0.0  # no tiny entries: do_ws_dist drops R-vectors whose matrices are all below 1e-8
    mp = draw(mesh_st(hi=4, nmax=36))
    if draw(st.booleans()):  # boundary forcing: move centres by multiples of N_i/2
        for c in model["centres"][1:]:
            for d in range(3):
                c[d] = (model["centres"][0][d] + mp[d] * draw(st.sampled_from([0.0, 0.5, -0.5, 1.0, 1 / 3]))
                        + draw(st.sampled_from(_OFF)))
        model["ckind"] = "boundary"
    return dict(model=model, mp=mp, tol=draw(st.sampled_from([1e-5, 1e-3, 1e-2, -1e-3, None])))


def check_remap(case):
    model = wbsys.make_model(case["model"])
    mp = np.array(case["mp"], dtype=int)
    L = model.lattice
    s = wbsys.to_system(model)
    mesh = wbsys.mp_points(mp)
    before = {k: wsref.bloch_sum(model.iRvec, X, mesh) for k, X in model.mats.items()}
    kw = {} if case["tol"] is None else dict(ws_dist_tol=case["tol"])
    tol_in = 1e-5 if case["tol"] is None else case["tol"]
    s.do_ws_dist(mp_grid=[int(x) for x in mp], **kw)
    new = wbsys.model_of_system(s)
    if set(new.mats) != set(model.mats):
        raise Violation("keys", f"matrices {sorted(model.mats)} became {sorted(new.mats)}")
    if reldiff(new.wcc_red, model.wcc_red) > 1e-12 or reldiff(new.lattice, L) > 1e-14:
        raise Violation("centres-changed", "do_ws_dist changed the lattice or the Wannier centres")
    for k in model.mats:
        after = wsref.bloch_sum(new.iRvec, new.mats[k], mesh)
        # exclude_zeros may drop R-vectors with all entries < 1e-8: allow that much per dropped vector (none expected)
        d = reldiff(after, before[k])
        if d > 1e-9:
            raise Violation("remap-mesh-values", f"{k}(q) on the mesh changed by {d:.2e} (relative) in do_ws_dist")
    # real-space content against own brute force
    folds = {}
    for k, Xold in model.mats.items():
        fold = np.zeros(tuple(mp) + Xold.shape[1:], dtype=complex)
        for R, X in zip(model.iRvec, Xold):
            fold[tuple(int(x) for x in (R % mp))] += X
        folds[k] = fold
    maxdeg, beyond = _compare_real_space(L, mp, np.array(s.wannier_centers_red), tol_in, new.iRvec, new.mats, folds,
                                         "after do_ws_dist", "remap-real-space", tol_abs=1e-8)
    collide = len({tuple(r) for r in (model.iRvec % mp)}) < len(model.iRvec)
    outside = bool(np.any((model.wcc_red < 0) | (model.wcc_red >= 1)))
    return ok(maxdeg > 1 or outside or collide, "Ndegen>1" if maxdeg > 1 else "Ndegen=1",
              "fold-collision" if collide else None, "outside" if outside else None,
              f"ckind={case['model']['ckind']}", f"lat={case['model']['lat']['kind']}",
              "keys=" + "+".join(sorted(model.mats)), f"tol={case['tol']}", "beyond-search" if beyond else None)


# ------------------------------------------------------------------------------------------------
# the same through get_system_w90 with a synthetic checkpoint (random semi-unitary V(q), random band energies)

@st.composite
def w90_case_st(draw):
    lat = draw(wbsys.lattice_st())
    shear = draw(st.one_of(st.none(), st.none(), st.lists(st.integers(-2, 2), min_size=3, max_size=3)))
    mp = draw(mesh_st(hi=4, nmax=36))
    N = mp[0] * mp[1] * mp[2]
    nw = draw(st.sampled_from([2, 1, 3]))
    ckind, centres = draw(centres_st(nw, mp))
    perm = draw(st.one_of(st.permutations(list(range(N))), st.just(list(range(N)))))
    return dict(lat=lat, shear=shear, mp=mp, nw=nw, nb=nw + draw(st.integers(0, 2)), ckind=ckind, centres=centres,
                perm=list(perm), kshift=draw(st.booleans()), tol=draw(st.sampled_from(_TOLS)),
                fftlib=draw(st.sampled_from(["numpy", "fftw"])), rs=draw(st.integers(0, 2 ** 32)))


def check_w90(case):
    from wannierberri.w90files.chk import CheckPoint
    from wannierberri.w90files.eig import EIG
    from wannierberri.w90files.wandata import WannierData
    from wannierberri.system.system_w90 import get_system_w90
    L = _lattice(case)
    mp = np.array(case["mp"], dtype=int)
    N = int(np.prod(mp))
    nw, nb = case["nw"], case["nb"]
    wcc = np.array(case["centres"], dtype=float).reshape(nw, 3)
    rng = rng_of(case["rs"])
    perm = np.array(case["perm"], dtype=int)
    kint = wsref.residue_classes(mp)[perm]
    G = rng.integers(-1, 2, size=(N, 3)) if case["kshift"] else np.zeros((N, 3), dtype=int)
    kpt_red = kint / mp[None, :] + G
    V = []
    for _ in range(N):
        q, _r = np.linalg.qr(crandom(rng, (nb, nb)))
        V.append(q[:, :nw])
    E = rng.uniform(-1, 1, size=(N, nb))
    Hq = np.array([V[ik].conj().T @ np.diag(E[ik]) @ V[ik] for ik in range(N)])
    Hq = 0.5 * (Hq + _dagger(Hq))
    chk = CheckPoint(real_lattice=L.copy(), num_wann=nw, num_bands=nb, num_kpts=N, wannier_centers_cart=wcc @ L,
                     wannier_spreads=np.ones(nw), v_matrix=V, kpt_red=kpt_red.copy(), mp_grid=mp.copy())
    wd = WannierData()
    wd.set_chk(val=chk)
    wd.set_file("eig", EIG(data={ik: E[ik].copy() for ik in range(N)}, NK=N))
    s = get_system_w90(wd, symmetrize=False, ws_dist_tol=case["tol"], fftlib=case["fftlib"])
    H = np.array(s.get_R_mat("Ham"))
    iRvec = np.array(s.rvec.iRvec, dtype=int)
    d = reldiff(wsref.bloch_sum(iRvec, H, kint / mp[None, :]), Hq)
    if d > TOL_RT:
        raise Violation("w90-roundtrip", f"H(q) of the system differs from V^dagger E V on the ab-initio mesh by {d:.2e}")
    if not np.array_equal(np.array(s.NKFFT_recommended), mp):
        raise Violation("w90-NKFFT", f"NKFFT_recommended {s.NKFFT_recommended} != mp_grid {mp.tolist()}")
    if reldiff(np.array(s.wannier_centers_cart), wcc @ L) > 1e-13:
        raise Violation("w90-centres", "Wannier centres of the system differ from the checkpoint")
    maxdeg, beyond = _compare_real_space(L, mp, np.array(s.wannier_centers_red), case["tol"], iRvec, {"Ham": H},
                                         {"Ham": wsref.grid_dft(Hq, kint, mp)}, "from get_system_w90",
                                         "w90-real-space")
    outside = bool(np.any((wcc < 0) | (wcc >= 1)))
    permuted = bool(np.any(perm != np.arange(N)))
    return ok(maxdeg > 1 or outside or permuted, "Ndegen>1" if maxdeg > 1 else "Ndegen=1",
              "outside" if outside else None, "permuted" if permuted else "natural-order",
              "kshift" if case["kshift"] else None, f"ckind={case['ckind']}", f"lat={case['lat']['kind']}",
              "disentangled" if nb > nw else "isolated", "beyond-search" if beyond else None, f"tol={case['tol']:g}")


SUBS = [Sub("ws", ws_case_st(), check_ws, quick=900, thorough=16000, budget_quick=80, budget_thorough=500),
        Sub("remap", remap_case_st(), check_remap, quick=300, thorough=6000, budget_quick=60, budget_thorough=400),
        Sub("w90", w90_case_st(), check_w90, quick=240, thorough=5000, budget_quick=60, budget_thorough=400)]
