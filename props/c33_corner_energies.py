"""C33  Tetrahedron / parallelepiped corner energies are the band energies at the corner k-points  (DESIGN 4/C33)

Oracle: the harness evaluates its own Hamiltonian (explicit Fourier sum of the generated real-space model, own
assembly of the spin-orbit Hamiltonian, or the generated k.p polynomial) with numpy.linalg.eigvalsh at
    k(ik) + ((ix,iy,iz) - 1/2) * dK / NKFFT            (parallelepiped K-points)
    k(ik) + vertex_iv / NKFFT                          (tetrahedron K-points),   k(ik) = (i/NKFFT) + K / NKFFT,
applies sign(E) sqrt|E| for phonon-flagged systems and the band/k selection by the centre energies, and compares
with Data_K.E_K_corners_parallel() / E_K_corners_tetra(); additionally with the code's own slow reference
E_K_corners_*_test().
"""
import itertools

import numpy as np
from hypothesis import strategies as st

from vlib.runner import Sub, Violation, Reject, ok
from vlib.util import fl, rng_of, crandom, maxabs
from vlib import wbsys, spinsoc

PROPERTY_ID = "C33"
RULE = ("system kinds: real-space (1-4 WFs, <=13 R-vectors), phonon-flagged real-space (positive definite or "
        "indefinite 'dynamical matrix'), hand-built SystemSOC (one/two spin channels, with/without spin-orbit term, "
        "down R-set same / different / same size but different vectors), SystemKP (polynomial degree <=3, kmax or "
        "explicit lattice, cartesian or reduced argument); cells: K-points of Grid (NKdiv [1..3]^3) optionally refined "
        "by KpointBZparallel.divide 1-2 times, tetrahedra of GridTetra (5-tetrahedra split, volume/size splitting, or "
        "a drawn tetrahedron) optionally refined by KpointBZtetra.divide; NKFFT [1..3]^3; optional Emin/Emax window "
        "placed between two centre energies; non-trivial = some corner energy differs from the centre energy by "
        ">1e-6 (labels report up/down R-sets differing, refined cells, tetra cells)")
ASSUMPTIONS = ["reference energies = numpy eigvalsh of the harness' own H(k) at the corner k-points",
               "tolerance 1e-9 relative (DESIGN 2.3); phonon frequencies with |omega^2| < 1e-6 are not compared "
               "(sqrt amplifies rounding)",
               "k.p systems: corner points within 1e-9 of the box boundary k_i = +-1/2 are not compared (wrapping tie)",
               "the per-K object is created as run() does: dK = Kpoint.Kp_fullBZ; with an energy window E_K is "
               "evaluated before the corners (as Data_K.tetraWeights does)",
               "SystemSOC built by assigning R-vectors and dV matrices as from_npz does (DESIGN section 9 recipe)"]
MIN_NONTRIVIAL = {"quick": 60, "thorough": 600}
TOL = 1e-9

# ------------------------------------------------------------------------------------------------
# cells

_i3 = st.lists(st.integers(1, 3), min_size=3, max_size=3)
_refine_par = st.lists(st.tuples(_i3, st.integers(0, 26)).map(list), min_size=0, max_size=2)
_refine_tet = st.lists(st.tuples(st.integers(1, 3), st.integers(0, 2)).map(list), min_size=0, max_size=2)

parallel_cell_st = st.fixed_dictionaries(dict(type=st.just("parallel"), div=_i3, iK=st.integers(0, 10 ** 6),
                                              refine=_refine_par))
tetra_cell_st = st.fixed_dictionaries(dict(
    type=st.just("tetra"), src=st.sampled_from(["grid", "grid", "custom"]), vfrac=fl(0.02, 0.5),
    by_volume=st.booleans(), by_size=st.booleans(), sizef=fl(0.45, 1.5), iK=st.integers(0, 10 ** 6), refine=_refine_tet,
    v0=st.lists(fl(-1, 1), min_size=3, max_size=3), scale=fl(0.1, 1.0),
    noise=st.lists(fl(-0.3, 0.3), min_size=9, max_size=9)))
cell_st = st.one_of(parallel_cell_st, tetra_cell_st)
_sel = st.one_of(st.none(), st.none(), st.lists(fl(0, 1), min_size=2, max_size=2))


def common_fields():
    return dict(NKFFT=_i3, cell=cell_st, sel=_sel, slowref=st.booleans(), efirst=st.booleans())


def build_cell(case, system, lattice):
    """returns (grid, Kpoint, labels) using the package's own grid classes"""
    from wannierberri.grid import Grid
    from wannierberri.grid.grid_tetra import GridTetra
    cell = case["cell"]
    NKFFT = np.array(case["NKFFT"])
    labels = []
    if cell["type"] == "parallel":
        grid = Grid(system, NKdiv=np.array(cell["div"]), NKFFT=NKFFT, use_symmetry=False)
        Kl = grid.get_K_list(use_symmetry=False)
        K = Kl[cell["iK"] % len(Kl)]
        for ndiv, child in cell["refine"]:
            children = K.divide(np.array(ndiv), periodic=np.array([True, True, True]), use_symmetry=False)
            K = children[child % len(children)]
        labels.append(f"parallel-refined{len(cell['refine'])}")
    else:
        recip = 2 * np.pi * np.linalg.inv(lattice).T
        rr = recip / NKFFT[:, None]
        # length such that tetrahedra larger than vfrac (in units of the reduced reciprocal cell) are split
        V = abs(np.linalg.det(lattice)) * np.prod(NKFFT)
        # (the factors 1.000417 / 1.000731 keep the thresholds off the exact sizes of bisected tetrahedra:
        #  GridTetra.split_tetra_size/_volume stop at `max < threshold` but split only `> threshold`, so a
        #  tetrahedron whose size EQUALS the threshold makes the constructor loop forever - not the subject of C33)
        length = (V / (cell["vfrac"] * 1.000417)) ** (1 / 3)
        s0 = max(np.linalg.norm(np.array(c) @ rr) for c in itertools.product((-1, 0, 1), repeat=3))
        length_size = 2 * np.pi * np.sqrt(2) / (cell["sizef"] * 1.000731 * s0)
        if cell["src"] == "custom":
            v0 = np.array(cell["v0"])
            M = cell["scale"] * (np.eye(3) + np.array(cell["noise"]).reshape(3, 3))
            ibz = np.array([[v0, v0 + M[0], v0 + M[1], v0 + M[2]]])
            grid = GridTetra(system, length=length, NKFFT=NKFFT, IBZ_tetra=ibz, refine_by_volume=False,
                             refine_by_size=cell["by_size"] and cell["sizef"] > 0.8, length_size=length_size)
        else:
            grid = GridTetra(system, length=length, NKFFT=NKFFT, refine_by_volume=cell["by_volume"],
                             refine_by_size=cell["by_size"], length_size=length_size)
        Kl = grid.get_K_list()
        K = Kl[cell["iK"] % len(Kl)]
        for ndiv, child in cell["refine"]:
            children = K.divide(ndiv=ndiv)
            K = children[child % len(children)]
        labels += [f"tetra-{cell['src']}", f"tetra-refined{len(cell['refine'])}",
                   "ntetra>5" if len(Kl) > 5 else "ntetra<=5"]
    if not np.array_equal(np.array(grid.FFT), NKFFT):
        raise RuntimeError("harness: grid.FFT differs from the requested NKFFT for a 3D periodic system")
    return grid, K, labels


def corner_points(case, K):
    """own corner k-points: centre points kc[ik] and offsets v[corner...] (reduced coordinates)"""
    NKFFT = np.array(case["NKFFT"], dtype=float)
    kc = wbsys.mp_points(np.array(case["NKFFT"])) + np.array(K.K, dtype=float)[None, :] / NKFFT[None, :]
    if case["cell"]["type"] == "parallel":
        dK = np.array(K.dK, dtype=float) / NKFFT
        off = np.array([[[(np.array([ix, iy, iz]) - 0.5) * dK for iz in (0, 1)] for iy in (0, 1)] for ix in (0, 1)])
    else:
        off = np.array(K.vertices, dtype=float) / NKFFT[None, :]
    return kc, off


def reference(case, bands, K, phonon=False, tie=None):
    """bands(k) -> sorted eigenvalues; returns centre energies, corner energies and the masks of comparable entries"""
    kc, off = corner_points(case, K)
    cshape = off.shape[:-1]
    offs = off.reshape(-1, 3)
    Ec = np.array([bands(k) for k in kc])
    Eco = np.array([[bands(k + v) for v in offs] for k in kc])  # (nk, ncorner, nb)
    mask = np.ones(Eco.shape, dtype=bool)
    cmask = np.ones(Ec.shape, dtype=bool)
    if tie is not None:
        for ik, k in enumerate(kc):
            if tie(k):
                cmask[ik, :] = False
            for iv, v in enumerate(offs):
                if tie(k + v):
                    mask[ik, iv, :] = False
    if phonon:
        mask &= np.abs(Eco) > 1e-6
        cmask &= np.abs(Ec) > 1e-6
        Ec = np.sign(Ec) * np.sqrt(np.abs(Ec))
        Eco = np.sign(Eco) * np.sqrt(np.abs(Eco))
    full = (len(kc),) + cshape + (Eco.shape[-1],)
    return Ec, Eco.reshape(full), cmask, mask.reshape(full)


def window(case, Ec, cmask):
    """Emin/Emax placed in gaps (> 1e-4) of the sorted centre energies; returns (params, select_K, select_B, window)"""
    nk, nb = Ec.shape
    allK, allB = np.ones(nk, dtype=bool), np.ones(nb, dtype=bool)
    if case["sel"] is None or not cmask.all():
        return {}, allK, allB, None
    flat = np.sort(Ec.ravel())
    gaps = [i for i in range(len(flat) - 1) if flat[i + 1] - flat[i] > 1e-4]
    if len(gaps) < 2:
        return {}, allK, allB, None
    a, b = sorted(int(round(f * (len(gaps) - 1))) for f in case["sel"])
    if a == b:
        return {}, allK, allB, None
    Emin = 0.5 * (flat[gaps[a]] + flat[gaps[a] + 1])
    Emax = 0.5 * (flat[gaps[b]] + flat[gaps[b] + 1])
    select = (Ec > Emin) & (Ec < Emax)
    return dict(Emin=float(Emin), Emax=float(Emax)), select.any(axis=1), select.any(axis=0), (Emin, Emax)


def compare(case, system, lattice, bands, phonon=False, tie=None, labels=()):
    from wannierberri.data_K import get_data_k_class_from_system
    grid, K, clabels = build_cell(case, system, lattice)
    Ec, Eco, cmask, mask = reference(case, bands, K, phonon=phonon, tie=tie)
    params, selK, selB, win = window(case, Ec, cmask)
    cls = get_data_k_class_from_system(system)
    dk = cls(system, grid=grid, dK=K.Kp_fullBZ, Kpoint=K, **params)
    par = case["cell"]["type"] == "parallel"
    efirst = case["efirst"] or win is not None
    if efirst:
        Ecentre = np.array(dk.E_K)
    got = np.array(dk.E_K_corners_parallel() if par else dk.E_K_corners_tetra())
    if not efirst:
        Ecentre = np.array(dk.E_K)
    want_c = Ec[selK][:, selB]
    if Ecentre.shape != want_c.shape:
        raise Violation("centre-selection", f"E_K has shape {Ecentre.shape}, expected {want_c.shape} for window {win}")
    errc = np.abs(Ecentre - want_c) * cmask[selK][:, selB]
    if errc.max(initial=0.0) > TOL * (1.0 + maxabs(want_c)):
        raise Violation("centre-energies", f"E_K differs from the own band energies by {errc.max():.2e}")
    want = Eco[selK][..., selB]
    m = mask[selK][..., selB]
    kind = "parallel" if par else "tetra"
    if got.shape != want.shape:
        raise Violation(f"{kind}-shape", f"corner energies have shape {got.shape}, expected {want.shape} (window {win})")
    scale = 1.0 + maxabs(want)
    err = np.abs(got - want) * m
    if err.max(initial=0.0) > TOL * scale:
        idx = np.unravel_index(np.argmax(err), err.shape)
        raise Violation(f"{kind}-corner-energies", f"corner {tuple(int(i) for i in idx)}: got {got[idx]:.10g}, band energy at "
                        f"that corner k-point is {want[idx]:.10g} (max |diff| {err.max():.2e}); K={np.array(K.K).tolist()}")
    if case["slowref"]:
        slow = np.array(dk.E_K_corners_parallel_test() if par else dk.E_K_corners_tetra_test())
        if slow.shape != got.shape:
            raise Violation(f"{kind}-slow-reference", f"E_K_corners_{kind}_test() has shape {slow.shape}, not {got.shape}")
        errs = np.abs(slow - got) * m
        if errs.max(initial=0.0) > TOL * scale:
            raise Violation(f"{kind}-slow-reference", f"E_K_corners_{kind}_test() differs from E_K_corners_{kind}() by "
                            f"{errs.max():.2e}")
    # how much do corners differ from the centre (non-triviality) -- on the unselected reference
    spread = float(np.max(np.abs(Eco.reshape(Eco.shape[0], -1, Eco.shape[-1]) - Ec[:, None, :]))) if Eco.size else 0.0
    lab = list(labels) + clabels + [("window" if win is not None else None), ("E_K-first" if efirst else "corners-first"),
                                    ("slowref" if case["slowref"] else None),
                                    ("masked-entries" if not m.all() else None),
                                    "NKFFT>1" if np.prod(case["NKFFT"]) > 1 else "NKFFT=1"]
    return ok(spread > 1e-6, *lab)


# ------------------------------------------------------------------------------------------------
# real-space systems (electrons and phonons)

_model_st = wbsys.model_params_st(max_wann=4, max_npairs=6, rmax=2, keys=("Ham",))
sysR_st = st.fixed_dictionaries(dict(
    model=st.one_of(_model_st, _model_st.filter(lambda p: len(p["R"]) >= 1), _model_st.filter(lambda p: len(p["R"]) >= 2)),
    phonon=st.sampled_from([None, None, "psd", "psd", "indefinite"]), **common_fields()))


def check_sysR(case):
    model = wbsys.make_model(case["model"])
    ph = case["phonon"]
    if ph == "psd":  # shift the on-site block so that H(k) >= 0.1 for all k
        H = model.mats["Ham"]
        bound = sum(np.linalg.norm(H[i], 2) for i in range(len(H)))
        i0 = model.index_R()[(0, 0, 0)]
        H[i0] += (bound + 0.1) * np.eye(model.nw)
    s = wbsys.to_system(model)
    if ph:
        s.is_phonon = True
    return compare(case, s, model.lattice, model.bands, phonon=bool(ph),
                   labels=["phonon-" + ph if ph else "electrons", f"nw={model.nw}",
                           "nR=1" if len(model.iRvec) == 1 else "nR>1", case["model"]["lat"]["kind"]])


# ------------------------------------------------------------------------------------------------
# spin-orbit systems

soc_st = st.fixed_dictionaries(dict(pair=spinsoc.updown_st(max_wann=2, max_npairs=4, rmax=2), **common_fields()))


def check_soc(case):
    sm = spinsoc.SocModel(case["pair"])
    soc = spinsoc.build_soc_system(sm)
    ref = sm.merged()
    return compare(case, soc, sm.lattice, ref.bands,
                   labels=[f"nspin={sm.nspin}", "soc-term" if sm.has_soc else "no-soc-term",
                           "R-sets-differ" if sm.Rsets_differ else "R-sets-equal",
                           "R-counts-differ" if sm.Rcounts_differ else None, "rmode=" + case["pair"]["rmode"]])


# ------------------------------------------------------------------------------------------------
# k.p systems

_MONO = [a for a in itertools.product(range(4), repeat=3) if sum(a) <= 3]

kp_st = st.fixed_dictionaries(dict(
    n=st.integers(1, 3), deg=st.integers(1, 3), rs=st.integers(0, 2 ** 32),
    box=st.one_of(st.fixed_dictionaries(dict(kmax=fl(0.3, 3.0))), st.fixed_dictionaries(dict(lat=wbsys.lattice_st()))),
    cart=st.booleans(), **common_fields()))


def check_kp(case):
    from wannierberri.system.system_kp import SystemKP
    n = case["n"]
    rng = rng_of(case["rs"])
    terms = []
    for a in _MONO:
        M = crandom(rng, (n, n))
        if sum(a) <= case["deg"]:
            terms.append((a, 0.5 * (M + M.conj().T)))

    def poly(k):
        k = np.asarray(k, dtype=float)
        return sum(M * (k[0] ** a[0] * k[1] ** a[1] * k[2] ** a[2]) for a, M in terms)

    if "kmax" in case["box"]:
        recip = 2 * case["box"]["kmax"] * np.eye(3)
        lattice = 2 * np.pi * np.linalg.inv(recip).T
        s = SystemKP(Ham=poly, kmax=case["box"]["kmax"], k_vector_cartesian=case["cart"], silent=True)
    else:
        lattice = wbsys.lattice_matrix(case["box"]["lat"])
        recip = 2 * np.pi * np.linalg.inv(lattice).T
        try:
            s = SystemKP(Ham=poly, kmax=None, real_lattice=lattice.copy(), k_vector_cartesian=case["cart"], silent=True)
        except TypeError as exc:
            # for ~10% of the low-symmetry lattices find_shells() finds no finite-difference shells and SystemKP cannot
            # be constructed at all (TypeError: 'NoneType' object is not iterable); that is the subject of C22, not of C33
            import traceback
            if traceback.extract_tb(exc.__traceback__)[-1].name != "find_shells":
                raise
            raise Reject("SystemKP not constructible: find_shells() fails for this lattice (see C22)")

    def wrap(k):
        return (np.asarray(k) + 0.5) % 1 - 0.5

    def bands(k):
        kw = wrap(k)
        H = poly(kw @ recip if case["cart"] else kw)
        return np.linalg.eigvalsh(H)

    def tie(k):
        f = (np.asarray(k) + 0.5) % 1
        return bool(np.any(np.minimum(f, 1 - f) < 1e-9))

    return compare(case, s, lattice, bands, tie=tie,
                   labels=[f"n={n}", f"deg={case['deg']}", "kmax" if "kmax" in case["box"] else "lattice",
                           "cartesian" if case["cart"] else "reduced"])


SUBS = [
    Sub("sysR", sysR_st, check_sysR, quick=160, thorough=2400, budget_quick=75, budget_thorough=500),
    Sub("soc", soc_st, check_soc, quick=160, thorough=2400, budget_quick=75, budget_thorough=500),
    Sub("kp", kp_st, check_kp, quick=80, thorough=1200, budget_quick=75, budget_thorough=500),
]
