"""C26  System interpolation reproduces its endpoints and is affine in alpha  (DESIGN 4/C26)

Oracle: the two generated models themselves (pure numpy, vlib.wbsys.Model / vlib.spinsoc.SocModel).  For every
alpha the interpolated system must contain, R-vector by R-vector, (1-alpha) X0(R) + alpha X1(R) (a missing R counts
as zero) for every matrix present in both systems, centres (1-alpha) t0 + alpha t1, and its explicit Fourier sums /
spectrum / k-derivative in the code's own convention must be those of the affine combination; at alpha = 0 / 1 these
are the first / second system.  Inputs must stay untouched and results must not alias each other.
"""
import numpy as np
from hypothesis import strategies as st

from vlib.runner import Sub, Violation, ok
from vlib.util import fl, reldiff, maxabs
from vlib import wbsys, spinsoc

PROPERTY_ID = "C26"
RULE = ("sub 'plain': two Hermitian real-space models on one lattice (1-3 WFs), R-sets same / independently drawn, "
        "centres same / different, matrix key sets = Ham + independent subsets of {AA,BB,CC,SS,GG}, use_pointgroup in "
        "{-1,0,1}, interpolate() called in a drawn order for alpha in {0, 1, a, b, a} with a,b in [-0.5,1.5]; sub "
        "'soc': two hand-built SystemSOC objects (one or two spin channels each, also mixed) through "
        "SystemInterpolatorSOC; non-trivial: 'plain' = R-sets differ and key sets differ, or centres differ; 'soc' = "
        "some R-set (spin-orbit, up or down) differs between the two systems")
ASSUMPTIONS = ["reference = the generated models; affine combination computed by the harness R-vector by R-vector",
               "tolerance 1e-12 relative for the real-space affine combination (one multiply-add), 1e-9 for k-space "
               "quantities (DESIGN 2.3)",
               "'the same system at alpha=0/1' includes the k-derivative of the Hamiltonian in the code's convention "
               "(R + t_j - t_i factors), i.e. the centres used by the Fourier machinery must be the interpolated ones",
               "R-vectors on which all interpolated matrices vanish may be present or absent",
               "evaluate_k(...,'energy') reports the mean of every multiplet of bands closer than degen_thresh=1e-4; the "
               "reference is grouped the same way (a gap within 1e-7 of the threshold skips that observation)"]
MIN_NONTRIVIAL = {"quick": 50, "thorough": 500}
TOLR = 1e-12
TOL = 1e-9

_OPT = ("AA", "BB", "CC", "SS", "GG")
_alpha = st.one_of(fl(-0.5, 1.5), fl(0.01, 0.99))


@st.composite
def plain_case_st(draw):
    lat = draw(wbsys.lattice_st())
    nw = draw(st.integers(1, 3))
    rmode = draw(st.sampled_from(["same", "diff", "diff"]))
    cmode = draw(st.sampled_from(["same", "diff"]))
    kmode = draw(st.sampled_from(["same", "diff", "diff"]))

    def one(R=None, centres=None, keys=None):
        return dict(R=R if R is not None else draw(spinsoc.pairs_st(2, 5)),
                    centres=centres if centres is not None else [[draw(spinsoc._coord) for _ in range(3)] for _ in range(nw)],
                    keys=keys if keys is not None else ["Ham"] + [k for k in _OPT if draw(st.booleans())],
                    rs=draw(st.integers(0, 2 ** 32)), decay=draw(st.sampled_from([0.5, 1.0, 2.0])))
    s0 = one()
    s1 = one(R=s0["R"] if rmode == "same" else None, centres=s0["centres"] if cmode == "same" else None,
             keys=s0["keys"] if kmode == "same" else None)
    a, b = draw(_alpha), draw(_alpha)
    return dict(lat=lat, nw=nw, s0=s0, s1=s1, use_pointgroup=draw(st.sampled_from([-1, 0, 1])),
                alphas=[0.0, 1.0, a, b, a], order=draw(st.permutations([0, 1, 2, 3, 4])),
                kpts=draw(st.lists(wbsys.kpoint_st(), min_size=2, max_size=2)),
                precache=draw(st.booleans()))


def _params(case, which):
    q = case[which]
    return dict(lat=case["lat"], nw=case["nw"], R=q["R"], centres=q["centres"], ckind="drawn", keys=q["keys"],
                rs=q["rs"], decay=q["decay"])


def _byR(iRvec, X):
    return {tuple(int(x) for x in R): X[i] for i, R in enumerate(iRvec)}


def _check_affine_R(name, iRvec, X, iR0, X0, iR1, X1, alpha):
    """X on iRvec must be (1-alpha) X0 + alpha X1, R by R; nothing lost, nothing invented"""
    Rl = [tuple(int(x) for x in R) for R in iRvec]
    if len(set(Rl)) != len(Rl):
        raise Violation("duplicate-R", f"{name}: the interpolated system lists an R-vector twice")
    got, d0, d1 = _byR(iRvec, X), _byR(iR0, X0), _byR(iR1, X1)
    zero = np.zeros(X0.shape[1:], dtype=complex)
    scale = 1.0 + maxabs(X0) + maxabs(X1)
    for R in set(got) | set(d0) | set(d1):
        want = (1 - alpha) * d0.get(R, zero) + alpha * d1.get(R, zero)
        have = got.get(R, zero)
        if have.shape != want.shape:
            raise Violation("matrix-shape", f"{name}: {have.shape} vs {want.shape}")
        if maxabs(have - want) > TOLR * scale:
            where = "lost" if R not in got else ("invented" if (R not in d0 and R not in d1) else "wrong")
            raise Violation(f"affine-R-{where}", f"{name}(R={R}) at alpha={alpha}: |got-expected|={maxabs(have - want):.2e}")


def _unrotate(dk, X):
    U = np.array(dk.UU_K)
    return np.einsum("kab,kbc...,kdc->kad...", U, np.array(X), U.conj())


def _model_of(s):
    """like wbsys.model_of_system, but without touching the cached property wannier_centers_red of the system"""
    L = np.array(s.real_lattice)
    return wbsys.Model(L, np.array(s.wannier_centers_cart) @ np.linalg.inv(L), np.array(s.rvec.iRvec),
                       {k: np.array(v) for k, v in s._XX_R.items()})


def _same_model(m, ref):
    if not np.array_equal(m.iRvec, ref.iRvec) or not np.array_equal(m.lattice, ref.lattice):
        return False
    if reldiff(m.wcc_red @ m.lattice, ref.wcc_red @ ref.lattice) > 1e-14 or set(m.mats) != set(ref.mats):
        return False
    return all(np.array_equal(m.mats[k], ref.mats[k]) for k in ref.mats)


def check_plain(case):
    import wannierberri as wb
    from wannierberri.grid import Grid
    from wannierberri.data_K.data_K_R import Data_K_R
    from wannierberri.system.interpolate import SystemInterpolator
    m0, m1 = wbsys.make_model(_params(case, "s0")), wbsys.make_model(_params(case, "s1"))
    # the order in which a system stores its R-vectors is arbitrary (it comes out of a set): give the second system
    # its own order, so that equal R *sets* do not imply equal R *lists*
    _perm = np.random.default_rng(int(_params(case, "s1")["rs"]) % (2 ** 32) + 7).permutation(len(m1.iRvec))
    m1 = wbsys.Model(m1.lattice, m1.wcc_red, m1.iRvec[_perm], {k: v[_perm] for k, v in m1.mats.items()})
    s0, s1 = wbsys.to_system(m0), wbsys.to_system(m1)
    if case["precache"]:  # every constructor of the package evaluates this cached property
        _ = s0.wannier_centers_red, s1.wannier_centers_red
    snap0, snap1 = _model_of(s0).copy(), _model_of(s1).copy()
    itp = SystemInterpolator(s0, s1, use_pointgroup=case["use_pointgroup"])
    common = sorted(set(m0.mats) & set(m1.mats))
    L = m0.lattice
    w0, w1 = m0.wcc_red @ L, m1.wcc_red @ L
    first = None
    stale = None
    for ia in case["order"]:
        alpha = float(case["alphas"][ia])
        s = itp.interpolate(alpha)
        m = _model_of(s)
        if first is None:
            first = (alpha, s, m.copy())
        if sorted(m.mats) != common:
            raise Violation("key-set", f"interpolated system has {sorted(m.mats)}, common keys are {common}")
        if s.num_wann != m0.nw or reldiff(np.array(s.real_lattice), L) > 1e-15:
            raise Violation("lattice/num_wann", "changed by interpolation")
        for key in common:
            _check_affine_R(key, m.iRvec, m.mats[key], m0.iRvec, m0.mats[key], m1.iRvec, m1.mats[key], alpha)
        wa = (1 - alpha) * w0 + alpha * w1
        if reldiff(np.array(s.wannier_centers_cart), wa) > 1e-13:
            raise Violation("centres-affine", f"alpha={alpha}: centres are not (1-alpha) t0 + alpha t1")
        # k-space: explicit Fourier sums of what the system holds, and the code's own evaluation
        for k in case["kpts"]:
            k = np.array(k)
            for key in common:
                want = (1 - alpha) * m0.Xk(key, k) + alpha * m1.Xk(key, k)
                if alpha == 0.0:
                    want = m0.Xk(key, k)
                elif alpha == 1.0:
                    want = m1.Xk(key, k)
                d = reldiff(m.Xk(key, k), want)
                if d > TOL:
                    b = f"endpoint{int(alpha)}-{'H' if key == 'Ham' else 'matrix'}" if alpha in (0.0, 1.0) else "affine-k"
                    raise Violation(b, f"{key}(k={k.tolist()}) at alpha={alpha} differs by {d:.2e}")
            Hk = (1 - alpha) * m0.Hk(k) + alpha * m1.Hk(k)
            E = np.array(wb.evaluate_k(s, k=k, quantities=["energy"]))
            ref = spinsoc.tab_average(np.linalg.eigvalsh(0.5 * (Hk + Hk.conj().T)))  # evaluate_k averages multiplets
            if ref is not None and (E.shape != ref.shape or reldiff(E, ref) > TOL):
                b = f"endpoint{int(alpha)}-spectrum" if alpha in (0.0, 1.0) else "spectrum"
                raise Violation(b, f"evaluate_k energies at alpha={alpha}, k={k.tolist()} differ by {reldiff(E, ref):.2e}")
        # the centres the Fourier machinery uses (checked last, recorded, raised after everything else was examined)
        if stale is None:
            if reldiff(np.array(s.wannier_centers_red) @ L, wa) > 1e-12:
                stale = ("centres-red-stale", f"alpha={alpha}: wannier_centers_red is not wannier_centers_cart in "
                         "reduced coordinates (stale cache)")
            else:
                ma = wbsys.Model(L, wa @ np.linalg.inv(L), m.iRvec, {"Ham": m.mats["Ham"]})
                grid = Grid(s, NKdiv=1, NKFFT=[1, 1, 1], use_symmetry=False)
                kk = np.array(case["kpts"][0], dtype=float)
                dk = Data_K_R(s, grid=grid, dK=kk.copy())
                dH = _unrotate(dk, dk.Xbar("Ham", 1))[0]
                want = ma.Xk("Ham", kk, der=1)
                d = reldiff(dH, want)
                if d > TOL:
                    end = f" (so the system at alpha={int(alpha)} is not system{int(alpha)})" if alpha in (0.0, 1.0) else ""
                    stale = ("centres-not-used", f"alpha={alpha}: dH/dk in the code's convention differs by {d:.2e} from "
                             f"the one with centres (1-alpha) t0 + alpha t1{end}; rvec.shifts_left_red differs from the "
                             f"interpolated centres by {maxabs(np.array(s.rvec.shifts_left_red) @ L - wa):.2e}")
    # inputs untouched, results independent of each other
    if not _same_model(_model_of(s0), snap0) or not _same_model(_model_of(s1), snap1):
        raise Violation("input-mutated", "system0/system1 changed by SystemInterpolator")
    if not _same_model(_model_of(first[1]), first[2]):
        raise Violation("result-aliased", f"the system returned for alpha={first[0]} changed during later calls")
    if stale is not None:
        raise Violation(*stale)
    Rdiff = {tuple(R) for R in m0.iRvec.tolist()} != {tuple(R) for R in m1.iRvec.tolist()}
    kdiff = set(m0.mats) != set(m1.mats)
    cdiff = reldiff(w0, w1) > 1e-9
    return ok((Rdiff and kdiff) or cdiff, "R-sets-differ" if Rdiff else "R-sets-equal",
              "key-sets-differ" if kdiff else "key-sets-equal", "centres-differ" if cdiff else "centres-equal",
              f"ncommon={len(common)}", f"use_pointgroup={case['use_pointgroup']}", f"nw={m0.nw}",
              "precached" if case["precache"] else None)


# ------------------------------------------------------------------------------------------------
# spin-orbit systems


@st.composite
def soc_case_st(draw):
    lat = draw(wbsys.lattice_st())
    nw = draw(st.integers(1, 2))
    a0 = draw(spinsoc.updown_st(lat=lat, nw=nw, soc="always", max_npairs=3))
    a1 = draw(spinsoc.updown_st(lat=lat, nw=nw, soc="always", max_npairs=3))
    mode = draw(st.sampled_from(["free", "free", "same-R", "same-centres"]))
    if mode == "same-R" and a0["nspin"] == a1["nspin"]:
        a1["up"]["R"] = a0["up"]["R"]
        a1["soc"]["R"] = a0["soc"]["R"]
        if a0["nspin"] == 2:
            a1["dn"]["R"] = a0["dn"]["R"]
    if mode == "same-centres" and a0["nspin"] == a1["nspin"]:
        a1["up"]["centres"] = a0["up"]["centres"]
        if a0["nspin"] == 2:
            a1["dn"]["centres"] = a0["dn"]["centres"]
    a, b = draw(_alpha), draw(_alpha)
    return dict(a0=a0, a1=a1, use_pointgroup=draw(st.sampled_from([-1, 0, 1])), alphas=[0.0, 1.0, a, b],
                order=draw(st.permutations([0, 1, 2, 3])), NKFFT=draw(st.lists(st.integers(1, 2), min_size=3, max_size=3)),
                dK=draw(st.lists(fl(0, 0.999), min_size=3, max_size=3)), k=draw(wbsys.kpoint_st()))


def _soc_snapshot(soc):
    return dict(iR=np.array(soc.rvec.iRvec).copy(), X={k: np.array(v).copy() for k, v in soc._XX_R.items()},
                wcc=np.array(soc.wannier_centers_cart).copy(),
                up=wbsys.model_of_system(soc.system_up).copy(), dn=wbsys.model_of_system(soc.system_down).copy())


def _soc_unchanged(soc, snap):
    if not hasattr(soc, "system_up") or not hasattr(soc, "system_down"):
        return False
    if not np.array_equal(soc.rvec.iRvec, snap["iR"]) or set(soc._XX_R) != set(snap["X"]):
        return False
    if not all(np.array_equal(soc._XX_R[k], snap["X"][k]) for k in snap["X"]):
        return False
    return (np.array_equal(soc.wannier_centers_cart, snap["wcc"]) and _same_model(wbsys.model_of_system(soc.system_up), snap["up"])
            and _same_model(wbsys.model_of_system(soc.system_down), snap["dn"]))


def check_soc(case):
    import wannierberri as wb
    from wannierberri.grid import Grid
    from wannierberri.data_K import get_data_k_class_from_system
    from wannierberri.data_K.data_K_soc import Data_K_soc
    from wannierberri.system.interpolate import SystemInterpolatorSOC
    from wannierberri.w90files.soc import SOC
    sms = [spinsoc.SocModel(case["a0"]), spinsoc.SocModel(case["a1"])]
    socs = [spinsoc.build_soc_system(sm) for sm in sms]
    snaps = [_soc_snapshot(s) for s in socs]
    gm = [sm.merged(pauli=np.array(SOC.get_pauli_rotated(theta=sm.theta, phi=sm.phi)).transpose(2, 0, 1)) for sm in sms]
    itp = SystemInterpolatorSOC(socs[0], socs[1], use_pointgroup=case["use_pointgroup"])
    nspin_want = 1 if (sms[0].nspin == 1 and sms[1].nspin == 1) else 2
    common = sorted(set(snaps[0]["X"]) & set(snaps[1]["X"]))
    NKFFT = np.array(case["NKFFT"])
    dK = np.array(case["dK"], dtype=float)
    kpts = wbsys.mp_points(NKFFT) + dK[None, :]
    H01 = [np.array([g.Hk(k) for k in kpts]) for g in gm]
    L = sms[0].lattice
    first = None
    stale = None
    for ia in case["order"]:
        alpha = float(case["alphas"][ia])
        s = itp.interpolate(alpha)
        if first is None:
            first = (alpha, s, _soc_snapshot(s))
        if get_data_k_class_from_system(s) is not Data_K_soc:
            raise Violation("soc-type", f"interpolated system is a {type(s).__name__}")
        if s.nspin != nspin_want:
            raise Violation("soc-nspin", f"nspin={s.nspin}, expected {nspin_want}")
        if sorted(s._XX_R) != common:
            raise Violation("key-set", f"{sorted(s._XX_R)} vs common {common}")
        for key in common:
            _check_affine_R(key, s.rvec.iRvec, s._XX_R[key], snaps[0]["iR"], snaps[0]["X"][key], snaps[1]["iR"],
                            snaps[1]["X"][key], alpha)
        for ud in ("up", "dn"):
            sysud = s.system_up if ud == "up" else s.system_down
            mud = wbsys.model_of_system(sysud)
            _check_affine_R(f"system_{ud}.Ham", mud.iRvec, mud.mats["Ham"], snaps[0][ud].iRvec, snaps[0][ud].mats["Ham"],
                            snaps[1][ud].iRvec, snaps[1][ud].mats["Ham"], alpha)
            wud = (1 - alpha) * snaps[0][ud].wcc_red @ L + alpha * snaps[1][ud].wcc_red @ L
            if reldiff(np.array(sysud.wannier_centers_cart), wud) > 1e-13:
                raise Violation("centres-affine", f"system_{ud} at alpha={alpha}")
        wa = (1 - alpha) * snaps[0]["wcc"] + alpha * snaps[1]["wcc"]
        if reldiff(np.array(s.wannier_centers_cart), wa) > 1e-13:
            raise Violation("centres-affine", f"alpha={alpha}: centres of the spin-orbit system")
        # k-space through the real evaluation classes
        want = H01[0] if alpha == 0.0 else (H01[1] if alpha == 1.0 else (1 - alpha) * H01[0] + alpha * H01[1])
        grid = Grid(s, NKdiv=1, NKFFT=NKFFT, use_symmetry=False)
        dk = Data_K_soc(s, grid=grid, dK=dK.copy())
        d = reldiff(np.array(dk.HH_K), want)
        if d > TOL:
            b = f"endpoint{int(alpha)}-H" if alpha in (0.0, 1.0) else "affine-k"
            raise Violation(b, f"Data_K_soc.HH_K at alpha={alpha} differs from the affine combination by {d:.2e}")
        if stale is None:  # the centres used by the Fourier machinery (raised after everything else was examined)
            wr = (1 - alpha) * gm[0].wcc_red + alpha * gm[1].wcc_red
            wantd = np.array([(1 - alpha) * wbsys.Model(L, wr, gm[0].iRvec, gm[0].mats).Xk("Ham", kk, der=1)
                              + alpha * wbsys.Model(L, wr, gm[1].iRvec, gm[1].mats).Xk("Ham", kk, der=1) for kk in kpts])
            dd = reldiff(_unrotate(dk, dk.Xbar("Ham", 1)), wantd)
            if dd > TOL:
                end = f" (so the system at alpha={int(alpha)} is not system{int(alpha)})" if alpha in (0.0, 1.0) else ""
                stale = ("centres-not-used", f"alpha={alpha}: dH/dk in the code's convention differs by {dd:.2e} from the "
                         f"one with centres (1-alpha) t0 + alpha t1{end}")
        k = np.array(case["k"])
        Hk = (1 - alpha) * gm[0].Hk(k) + alpha * gm[1].Hk(k)
        E = np.array(wb.evaluate_k(s, k=k, quantities=["energy"]))
        ref = spinsoc.tab_average(np.linalg.eigvalsh(0.5 * (Hk + Hk.conj().T)))  # evaluate_k averages multiplets
        if ref is not None and (E.shape != ref.shape or reldiff(E, ref) > TOL):
            b = f"endpoint{int(alpha)}-spectrum" if alpha in (0.0, 1.0) else "spectrum"
            raise Violation(b, f"alpha={alpha}: {reldiff(E, ref):.2e}")
    if not _soc_unchanged(socs[0], snaps[0]) or not _soc_unchanged(socs[1], snaps[1]):
        raise Violation("input-mutated", "the SystemSOC objects given to SystemInterpolatorSOC were changed")
    if not _soc_unchanged(first[1], first[2]):
        raise Violation("result-aliased", f"the system returned for alpha={first[0]} changed during later calls")
    if stale is not None:
        raise Violation(*stale)

    def rs(x):
        return {tuple(R) for R in np.asarray(x).tolist()}
    Rdiff = (rs(snaps[0]["iR"]) != rs(snaps[1]["iR"]) or rs(snaps[0]["up"].iRvec) != rs(snaps[1]["up"].iRvec)
             or rs(snaps[0]["dn"].iRvec) != rs(snaps[1]["dn"].iRvec))
    return ok(Rdiff, f"nspin={sms[0].nspin}->{sms[1].nspin}", "R-sets-differ" if Rdiff else "R-sets-equal",
              f"ncommon={len(common)}", f"use_pointgroup={case['use_pointgroup']}")


SUBS = [
    Sub("plain", plain_case_st(), check_plain, quick=200, thorough=3200, budget_quick=75, budget_thorough=500),
    Sub("soc", soc_case_st(), check_soc, quick=100, thorough=1600, budget_quick=75, budget_thorough=500),
]
