"""C11  Restarting an interrupted refinement run reproduces the uninterrupted run (DESIGN 4/C11)

Differential oracle: the same case is run (a) uninterrupted with adpt_num_iter=T and (b) in segments
(a_1, a_2, ..., sum = T) where every segment after the first uses restart=True on the same restart
directory.  After every segment the returned result must equal what the uninterrupted run reported for
that global iteration, every result file saved by (b) must equal the file of the same iteration of (a),
and the weight files on disk must agree.  The order in which the file system lists the restart files is
not under the caller's control, so `glob.glob` as seen by wannierberri.run_grid is wrapped to return its
answer in a Hypothesis-chosen order (sorted / reversed / random permutation).
"""
import os
import numpy as np
from hypothesis import strategies as st

from vlib.runner import Sub, Violation, ok
from vlib.util import scratch_dir, rng_of
from vlib import runhelp

PROPERTY_ID = "C11"
RULE = ("cases of C10 (random models, declared point groups, NKdiv<=3^3, NKFFT<=2^3, meshes, adpt_fac, 1-3 static "
        "calculators) with T=1..4 total refinement iterations split into 2..T+1 segments (first segment may have 0 "
        "refinements), storage mode allow_restart or dump_results, restart_iteration=-1, directory listing order in "
        "{sorted, reversed, permuted}; non-trivial = a restart happens after >=1 refinement with >=2 weight files on "
        "disk and the listing order is not the sorted one")
ASSUMPTIONS = ["crash points are iteration boundaries (run() returned), as in the property statement",
               "tolerance 1e-9 * (sum_i |w_i| max|R_i|) since a restart re-sums the stored per-K results in list order",
               "glob.glob may return matching paths in any order (documented: 'results are returned in arbitrary order')"]
MIN_NONTRIVIAL = {"quick": 6, "thorough": 80}
TOL = 1e-9


@st.composite
def segments_st(draw):
    T = draw(st.integers(1, 4))
    first = draw(st.integers(0, T - 1))
    rest = T - first
    # composition of `rest` into parts >= 1
    parts = []
    while rest > 0:
        p = draw(st.integers(1, rest))
        parts.append(p)
        rest -= p
    return [first] + parts


case_st = st.fixed_dictionaries(dict(
    g=runhelp.grid_case_st(),
    calcs=runhelp.calcs_case_st(max_calcs=2),
    segs=segments_st(),
    mesh=st.sampled_from([2, 3, [2, 1, 2]]),
    fac=st.integers(1, 3),
    irred=st.booleans(),
    mode=st.sampled_from(["allow_restart", "dump_results"]),
    listing=st.sampled_from(["sorted", "reversed", "perm", "perm"]),
    ls=st.integers(0, 2 ** 32),
    # storage mode switched between the segments (None = same mode throughout) and file times of the restart
    # directory reset between segments (copied directory: equal or reversed modification times)
    switch=st.sampled_from([None, None, "odd-other", "even-other"]),
    touch=st.sampled_from(["none", "none", "equal", "reversed"]),
))


class GlobProxy:
    """stands in for the `glob` module inside wannierberri.run_grid"""

    def __init__(self, real, mode, seed):
        self._real = real
        self.mode = mode
        self.rng = rng_of(seed)
        self.calls = 0
        self.unsorted_calls = 0
        self.max_files = 0

    def glob(self, *a, **k):
        res = sorted(self._real.glob(*a, **k))
        self.calls += 1
        self.max_files = max(self.max_files, len(res))
        if self.mode == "reversed":
            out = res[::-1]
        elif self.mode == "perm":
            out = [res[i] for i in self.rng.permutation(len(res))]
        else:
            out = res
        if out != res:
            self.unsorted_calls += 1
        return out

    def __getattr__(self, name):
        return getattr(self._real, name)


def load_factors(path):
    out = {}
    for f in sorted(os.listdir(path)):
        if f.startswith("factors_iter-") and f.endswith(".npy"):
            out[int(f.split("-")[-1].split(".")[0])] = np.load(os.path.join(path, f))
    return out


def check(case):
    import wannierberri as wb
    import wannierberri.run_grid as rg
    from wannierberri.result import EnergyResult
    model, system, grid = runhelp.build(case["g"])
    has_AA = "AA" in model.mats
    segs = case["segs"]
    T = sum(segs)
    mesh = case["mesh"] if isinstance(case["mesh"], int) else list(case["mesh"])
    base = dict(adpt_mesh=mesh, adpt_fac=case["fac"], use_irred_kpt=case["irred"], symmetrize=case["irred"])

    def mode_kw(m):
        return dict(allow_restart=True) if m == "allow_restart" else dict(dump_results=True)

    # storage mode of every segment: by default the same for all, optionally switched between restarts
    seg_modes = [case["mode"]] * len(segs)
    if case.get("switch"):
        other = "dump_results" if case["mode"] == "allow_restart" else "allow_restart"
        seg_modes = [case["mode"] if (i % 2 == 0) == (case["switch"] == "odd-other") else other for i in range(len(segs))]
    common = dict(base, **mode_kw(seg_modes[0]))
    with scratch_dir() as scratch:
        calcs = runhelp.make_calculators(case["calcs"]["names"], case["calcs"]["Efermi"], has_AA)
        # (a) uninterrupted
        cap = runhelp.Capture()
        kwA = runhelp.run_kwargs(scratch, "A", adpt_num_iter=T, **common)
        with runhelp.capture_run(cap):
            resA = wb.run(system, grid, calcs, **kwA)
        ref = {s["i_iter"]: s["data"] for s in cap.snapshots}
        ev = runhelp.ScratchEvaluator(system, grid, calcs, symmetrize=case["irred"])
        scale = {}
        for s in cap.snapshots:
            _, sc = ev.weighted_sum(cap.K_list[:s["n"]], s["factors"])
            for k, v in sc.items():
                scale[k] = max(scale.get(k, 0.0), v)
        facA = load_factors(kwA["file_Klist_path"])

        def cmp(bucket, got, it, what):
            for k, d in ref[it].items():
                g = np.asarray(got[k])
                if g.shape != d.shape:
                    raise Violation(bucket + ":shape", f"{what} '{k}': {g.shape} vs {d.shape}")
                err = float(np.max(np.abs(g - d))) if d.size else 0.0
                if err > TOL * scale[k] + 1e-13:  # results are in natural units (use_factor=False): absolute rounding floor
                    raise Violation(bucket, f"{what}: '{k}' differs from the uninterrupted run at iteration {it} by "
                                            f"{err:.3e} (scale {scale[k]:.3e}); segments={segs} listing={case['listing']}")

        # (b) segmented
        proxy = GlobProxy(rg.glob, case["listing"], case["ls"])
        rg.glob = proxy
        nontrivial = False
        try:
            done = 0
            for iseg, a in enumerate(segs):
                calcs_b = runhelp.make_calculators(case["calcs"]["names"], case["calcs"]["Efermi"], has_AA)
                kwB = runhelp.run_kwargs(scratch, "B", adpt_num_iter=a, restart=(iseg > 0), **dict(base, **mode_kw(seg_modes[iseg])))
                before = proxy.unsorted_calls
                if iseg > 0 and case.get("touch", "none") != "none":
                    # the restart directory was copied / unpacked in between: modification times carry no information
                    fdir = kwB["file_Klist_path"]
                    names = sorted(f for f in os.listdir(fdir))
                    t_base = 1.7e9
                    for j, f in enumerate(names):
                        t = t_base if case["touch"] == "equal" else t_base + 10.0 * (len(names) - j)
                        os.utime(os.path.join(fdir, f), (t, t))
                resB = wb.run(system, grid, calcs_b, **kwB)
                if iseg > 0 and done >= 1 and proxy.unsorted_calls > before and proxy.max_files >= 2:
                    nontrivial = True
                done += a
                cmp("returned-after-restart" if iseg > 0 else "first-segment",
                    {k: v.data for k, v in resB.results.items()}, done, f"result returned by segment {iseg}")
        finally:
            rg.glob = proxy._real
        # saved files of (b), every iteration
        for it in range(T + 1):
            for k in ref[it]:
                fn = f"{kwB['fout_name']}-{k}_iter-{it:04d}.npz"
                if not os.path.isfile(fn):
                    raise Violation("saved-file-missing", f"iteration {it} key {k}; segments={segs}")
                cmp("saved-after-restart", {k: EnergyResult.from_npz(fn).data, **{kk: ref[it][kk] for kk in ref[it] if kk != k}},
                    it, f"file saved for iteration {it}")
        facB = load_factors(kwB["file_Klist_path"])
        if sorted(facA) != sorted(facB):
            raise Violation("factor-files", f"iterations with weight files differ: {sorted(facA)} vs {sorted(facB)}")
        for it in facA:
            a_, b_ = facA[it], facB[it]
            n = max(len(a_), len(b_))
            a_ = np.hstack([a_, np.zeros(n - len(a_))])
            b_ = np.hstack([b_, np.zeros(n - len(b_))])
            if np.max(np.abs(a_ - b_)) > 1e-14:
                raise Violation("factors-differ", f"weights on disk differ at iteration {it}; segments={segs}")
    return ok(nontrivial, f"segments={len(segs)}", f"T={T}", case["mode"], case["listing"],
              "irred" if case["irred"] else "full", f"first={segs[0]}")


@st.composite
def late_segments_st(draw):
    """restart only after >= 2 refinements: the state on disk then contains points created by different iterations"""
    T = draw(st.integers(3, 5))
    first = draw(st.integers(2, T - 1))
    rest = T - first
    parts = []
    while rest > 0:
        p = draw(st.integers(1, rest))
        parts.append(p)
        rest -= p
    return [first] + parts


# symmetric refinement with merges of new points across different parents (hexagonal / fcc / bcc / cubic groups),
# several iterations before the first restart, per-K results on disk
merge_st = st.fixed_dictionaries(dict(
    g=runhelp.grid_case_st(max_div=2, max_fft=2, kinds=["hexagonal", "fcc", "bcc", "sc", "tetragonal"], max_wann=2),
    calcs=st.fixed_dictionaries(dict(
        names=st.sampled_from([["cumdos", "ohmic_sea"], ["cumdos"], ["ohmic_sea", "dos"]]),
        Efermi=st.sampled_from([[-0.41, -0.13, 0.15, 0.43], [-0.3, 0.1, 0.5], [-0.7, -0.35, 0.0, 0.35, 0.7]]))),
    segs=late_segments_st(),
    mesh=st.sampled_from([3, 2, 3]),
    fac=st.integers(1, 3),
    irred=st.just(True),
    mode=st.sampled_from(["dump_results", "dump_results", "allow_restart"]),
    listing=st.sampled_from(["sorted", "reversed", "perm"]),
    ls=st.integers(0, 2 ** 32),
    switch=st.sampled_from([None, "odd-other", "even-other"]),
    touch=st.sampled_from(["none", "equal", "reversed"]),
))

SUBS = [Sub("restart", case_st, check, quick=40, thorough=560, budget_quick=80, budget_thorough=500),
        Sub("merge", merge_st, check, quick=24, thorough=320, budget_quick=80, budget_thorough=500, group="restart")]
