"""C29  Paths are built and tabulated faithfully  (DESIGN 4/C29)

Sub 'build'    : Path.from_nodes / get_refined / getKline against a 20-line reference model written here
                 (node positions, labels, breaks, uniform sampling with the requested number of points,
                 refinement positions, cumulative Cartesian length).
Sub 'tabulate' : evaluate_k_path (serial, fresh tabulators, no ibands) against
                 (a) the explicit Fourier-sum band structure of vlib.wbsys (no wannierberri code) for the energies,
                 (b) evaluate_k at every single path point (a different code route: FFT grid 1x1x1 shifted by k)
                     for Velocity / BerryCurvature  -- exactly the "evaluating that point alone" of the statement.
"""
import os

import numpy as np
from hypothesis import strategies as st

from vlib.runner import Sub, Violation, Inconclusive, ok
from vlib.util import fl, reldiff, maxabs, scratch_dir
from vlib import wbsys

PROPERTY_ID = "C29"
RULE = ("node lists of 2-7 nodes (special fractions and generic floats, repeated nodes, None breaks never first/last, "
        "isolated nodes between two breaks), labels given or default, sampling by nk (int or per-segment list, nk>=2), "
        "dk or length, 11 lattice families given as system / real_lattice / recip_lattice, refinement factor 1..5; "
        "tabulation: 2-3 WF random Hermitian models, paths of <=40 points, k_batch 1..50, path passed or built inside "
        "evaluate_k_path, optional refinement, tabulators Velocity/BerryCurvature(+Energy); "
        "non-trivial(build) = >=2 sampled segments or a break, and (refine>=2 or >=3 segments); "
        "non-trivial(tabulate) = more than one batch, or a break, or points coinciding modulo a reciprocal vector; "
        "distinct = distinct generated case")
ASSUMPTIONS = [
    "nk >= 2 for every sampled segment (a segment that contains both end nodes needs two points; the dk branch of "
    "from_nodes enforces the same minimum itself)",
    "a per-segment nk list has exactly one entry per sampled segment (docstring: no nk's are assigned to None nodes)",
    "first and last node are not None (constructor precondition)",
    "|dk-count - half-integer| > 1e-6, otherwise the case is counted as a rounding tie (inconclusive)",
    "serial evaluation only (parallel completion orders are property C12); fresh Tabulator objects and no ibands "
    "(the module-level singletons of evaluate_k.available_quantities keep ibands between calls - recorded, not asserted)",
    "values: 1e-9 relative for energies against the explicit Fourier sum; 1e-7*scale*max(1,(1e-3/gap)^2) for "
    "velocity/Berry curvature against the single-point evaluation (DESIGN 2.3), scale = max-abs of the compared arrays "
    "but not below 1e-6 natural units (cell length [x energy] resp. cell length^2); gap within 1e-9 of the degeneracy "
    "threshold 1e-4 -> tie",
]
MIN_NONTRIVIAL = {"quick": 60, "thorough": 600}
PTOL = 1e-12   # absolute tolerance for reduced coordinates of path points (O(1) numbers, a few flops each)

_coord = st.one_of(st.sampled_from([0.0, 0.5, 1 / 3, 0.25, -0.5, 1.0, 2 / 3, 0.375]), fl(-1.0, 1.0))
_node = st.lists(_coord, min_size=3, max_size=3)
_label = st.sampled_from(["G", "X", "M", "K", "GAMMA", "L", "A", "", "x1"])


@st.composite
def nodes_st(draw, max_extra=6):
    first = draw(_node)
    nodes = [first]
    extra = draw(st.lists(st.fixed_dictionaries(dict(
        brk=st.sampled_from([False, False, False, True]),
        kind=st.sampled_from(["new", "new", "new", "new", "same", "first"]),
        node=_node)), min_size=1, max_size=max_extra))
    for e in extra:
        if e["brk"]:
            nodes.append(None)
        if e["kind"] == "new":
            nodes.append(e["node"])
        elif e["kind"] == "same":
            nodes.append(list([x for x in nodes if x is not None][-1]))
        else:
            nodes.append(list(first))
    return nodes


def n_segments(nodes):
    return sum(1 for a, b in zip(nodes, nodes[1:]) if a is not None and b is not None)


@st.composite
def sampling_st(draw, nodes, max_nk=9, dk_lo=0.05):
    mode = draw(st.sampled_from(["nk_int", "nk_list", "nk_array", "dk", "length"]))
    d = dict(mode=mode)
    if mode == "nk_int":
        d["nk"] = draw(st.integers(2, max_nk))
    elif mode in ("nk_list", "nk_array"):
        n = n_segments(nodes)
        d["nk"] = draw(st.lists(st.integers(2, max_nk), min_size=n, max_size=n))
    elif mode == "dk":
        d["dk"] = draw(fl(dk_lo, 3.0))
    else:
        d["length"] = draw(fl(2.0, 2 * np.pi / dk_lo))
    return d


@st.composite
def build_case_st(draw):
    nodes = draw(nodes_st())
    nn = sum(1 for x in nodes if x is not None)
    labels = draw(st.one_of(st.none(), st.lists(_label, min_size=nn, max_size=nn)))
    return dict(lat=draw(wbsys.lattice_st()), via=draw(st.sampled_from(["real_lattice", "recip_lattice", "system"])),
                nodes=nodes, labels=labels, samp=draw(sampling_st(nodes)), refine=draw(st.integers(1, 5)),
                as_numpy=draw(st.booleans()))


# ------------------------------------------------------------------------------------------------
# reference model


def recip_of(L):
    return 2 * np.pi * np.linalg.inv(L).T


def expected_path(nodes, labels, samp, B):
    """returns (K (N,3), labels{index:label}, breaks[list], counts per sampled segment) from the statement:
    every node in order with its label, each segment sampled uniformly with the requested number of points,
    breaks = index of the node in front of a None"""
    real = [x for x in nodes if x is not None]
    if labels is None:
        labels = [str(i + 1) for i in range(len(real))]
    lab_of = {}
    K = []
    breaks = []
    counts = []
    iseg = 0
    il = 0
    for pos, nd in enumerate(nodes[:-1]):
        if nd is None:
            continue
        nxt = nodes[pos + 1]
        s = np.array(nd, dtype=float)
        lab_of[len(K)] = labels[il]
        il += 1
        if nxt is None:
            K.append(s)
            breaks.append(len(K) - 1)
            continue
        e = np.array(nxt, dtype=float)
        if samp["mode"] == "nk_int":
            n = samp["nk"]
        elif samp["mode"] in ("nk_list", "nk_array"):
            n = samp["nk"][iseg]
        else:
            dk = samp["dk"] if samp["mode"] == "dk" else 2 * np.pi / samp["length"]
            ratio = np.linalg.norm((s - e) @ B) / dk
            if abs(ratio - np.floor(ratio) - 0.5) < 1e-6:
                raise Inconclusive("dk count is a rounding tie")
            n = max(2, int(np.floor(ratio + 0.5)) + 1)
        iseg += 1
        counts.append(n)
        for j in range(n - 1):
            K.append(s + (e - s) * (j / (n - 1)))
    K.append(np.array(nodes[-1], dtype=float))
    lab_of[len(K) - 1] = labels[il]
    return np.array(K), lab_of, breaks, counts


def expected_refined(K, labels, breaks, f):
    pos = [0]
    for i in range(len(K) - 1):
        pos.append(pos[-1] + (1 if i in breaks else f))
    Kr = np.zeros((pos[-1] + 1, 3))
    for i in range(len(K) - 1):
        Kr[pos[i]] = K[i]
        if i not in breaks:
            for j in range(1, f):
                Kr[pos[i] + j] = K[i] + (K[i + 1] - K[i]) * (j / f)
    Kr[pos[-1]] = K[-1]
    return Kr, {pos[i]: l for i, l in labels.items()}, [pos[b] for b in breaks], pos


def expected_kline(K, breaks, B):
    steps = np.linalg.norm((K[1:] - K[:-1]) @ B, axis=1)
    for b in breaks:
        steps[b] = 0.0
    return np.concatenate(([0.0], np.cumsum(steps)))


def tiny_system(L):
    m = wbsys.Model(L, [[0.0, 0.0, 0.0]], [[0, 0, 0]], {"Ham": np.zeros((1, 1, 1), dtype=complex)})
    return wbsys.to_system(m)


def make_path(case, L, B, system=None):
    from wannierberri.grid import Path
    nodes = case["nodes"]
    if case.get("as_numpy"):
        nodes = [None if x is None else np.array(x, dtype=float) for x in nodes]
    else:
        nodes = [None if x is None else list(x) for x in nodes]
    samp = case["samp"]
    kw = {}
    if samp["mode"] == "nk_int":
        kw["nk"] = samp["nk"]
    elif samp["mode"] == "nk_list":
        kw["nk"] = list(samp["nk"])
    elif samp["mode"] == "nk_array":
        kw["nk"] = np.array(samp["nk"], dtype=int)
    elif samp["mode"] == "dk":
        kw["dk"] = samp["dk"]
    else:
        kw["length"] = samp["length"]
    labels = None if case["labels"] is None else list(case["labels"])
    if case["via"] == "system":
        if system is None:
            system = tiny_system(L)
        return Path.from_nodes(system=system, nodes=nodes, labels=labels, **kw)
    if case["via"] == "real_lattice":
        return Path.from_nodes(real_lattice=L.copy(), nodes=nodes, labels=labels, **kw)
    return Path.from_nodes(recip_lattice=B.copy(), nodes=nodes, labels=labels, **kw)


def compare_path(path, K, labels, breaks, B, tag):
    got = np.asarray(path.K_list, dtype=float)
    if got.shape != K.shape:
        raise Violation(f"{tag}:number-of-points", f"K_list shape {got.shape}, expected {K.shape}")
    d = maxabs(got - K)
    if d > PTOL:
        i = int(np.argmax(np.abs(got - K).max(axis=1)))
        raise Violation(f"{tag}:points", f"point {i}: {got[i].tolist()} expected {K[i].tolist()} (max diff {d:.2e})")
    gl = {int(k): v for k, v in path.labels.items()}
    if gl != labels:
        raise Violation(f"{tag}:labels", f"labels {gl} expected {labels}")
    gb = [int(b) for b in path.breaks]
    if gb != list(breaks):
        raise Violation(f"{tag}:breaks", f"breaks {gb} expected {breaks}")
    if reldiff(np.asarray(path.recip_lattice), B) > 1e-12:
        raise Violation(f"{tag}:recip_lattice", "reciprocal lattice of the path differs from 2 pi inv(L)^T")
    kl = np.asarray(path.getKline())
    ref = expected_kline(K, breaks, B)
    if kl.shape != ref.shape or maxabs(kl - ref) > 1e-10 * (1 + maxabs(ref)):
        raise Violation(f"{tag}:kline", f"path coordinate differs from the cumulative Cartesian length by "
                                        f"{maxabs(kl - ref) if kl.shape == ref.shape else 'shape'}")
    if np.any(np.diff(kl) < 0):
        raise Violation(f"{tag}:kline-decreasing", "path coordinate decreases")
    for b in breaks:
        if kl[b + 1] != kl[b]:
            raise Violation(f"{tag}:kline-break", f"non-zero step across break {b}")
    kc = np.asarray(path.get_kpoints_cart())
    if maxabs(kc - K @ B) > 1e-10 * (1 + maxabs(K @ B)):
        raise Violation(f"{tag}:cartesian", "get_kpoints_cart != K_list @ recip_lattice")


def check_build(case):
    L = wbsys.lattice_matrix(case["lat"])
    B = recip_of(L)
    nodes = case["nodes"]
    K, labels, breaks, counts = expected_path(nodes, case["labels"], case["samp"], B)
    path = make_path(case, L, B)
    compare_path(path, K, labels, breaks, B, "from_nodes")
    # every node, in order (independent of the position bookkeeping above: greedy search in the produced list)
    got = np.asarray(path.K_list, dtype=float)
    p = -1
    for nd in [x for x in nodes if x is not None]:
        hits = [i for i in range(p + 1, len(got)) if maxabs(got[i] - np.array(nd, dtype=float)) <= PTOL and
                i in path.labels]
        if not hits:
            raise Violation("from_nodes:node-missing", f"node {nd} not found (labelled) after index {p}")
        p = hits[0]
    f = case["refine"]
    Kr, lr, br, pos = expected_refined(K, labels, breaks, f)
    refined = path.get_refined(factor=f)
    compare_path(refined, Kr, lr, br, B, "refined")
    # original points are kept, and the path coordinate of an original point does not change
    kl0 = np.asarray(path.getKline())
    kl1 = np.asarray(refined.getKline())
    if maxabs(kl1[pos] - kl0) > 1e-10 * (1 + maxabs(kl0)):
        raise Violation("refined:kline-of-original-points", "path coordinate of original points changed")
    if maxabs(np.asarray(refined.K_list)[pos] - got) > PTOL:
        raise Violation("refined:original-points", "original points not kept")
    if not np.array_equal(np.asarray(path.K_list), got) or [int(b) for b in path.breaks] != list(breaks):
        raise Violation("refined:mutates-original", "get_refined changed the original path")
    nseg = len(counts)
    nt = (nseg >= 2 or len(breaks) > 0) and (f >= 2 or nseg >= 3)
    rep = len({tuple(x) for x in nodes if x is not None}) < sum(1 for x in nodes if x is not None)
    return ok(nt, case["samp"]["mode"], f"breaks={min(len(breaks), 3)}", f"segments={min(nseg, 4)}", f"refine={f}",
              "labels=default" if case["labels"] is None else "labels=given", "repeated-node" if rep else None,
              "zero-length-segment" if any(a is not None and b is not None and a == b for a, b in zip(nodes, nodes[1:]))
              else None, f"via={case['via']}", case["lat"]["kind"],
              "isolated-node" if any(a is None and c is None for a, c in zip(nodes, nodes[2:])) else None,
              f"npoints<={10 ** len(str(len(K)))}")


# ------------------------------------------------------------------------------------------------
# tabulation


@st.composite
def tab_case_st(draw):
    nodes = draw(nodes_st(max_extra=3))
    nn = sum(1 for x in nodes if x is not None)
    internal = draw(st.sampled_from([False, False, True]))
    if internal:
        samp = dict(mode="length", length=draw(fl(2.0, 9.0)))
        refine = 1
    else:
        samp = draw(sampling_st(nodes, max_nk=5, dk_lo=0.8))
        refine = draw(st.sampled_from([1, 1, 2, 3]))
    return dict(model=draw(wbsys.model_params_st(max_wann=3, max_npairs=4, rmax=2, keys=("Ham", "AA"), min_wann=2)),
                nodes=nodes, labels=draw(st.one_of(st.none(), st.lists(_label, min_size=nn, max_size=nn))),
                samp=samp, refine=refine, internal=internal, via="system", as_numpy=False,
                k_batch=draw(st.one_of(st.integers(1, 6), st.integers(1, 50))),
                tabs=draw(st.sampled_from([["vel"], ["berry"], ["vel", "berry"], [], ["q:energy", "q:band_gradients"],
                                           ["q:berry_curvature"], ["vel", "q:berry_curvature_internal_terms"]])))


def fresh_tabulators(names):
    from wannierberri.calculators import tabulate
    out = {}
    if "vel" in names:
        out["vel"] = tabulate.Velocity()
    if "berry" in names:
        out["berry"] = tabulate.BerryCurvature()
    return out


MAXPTS = 40


def check_tabulate(case):
    from wannierberri.evaluate_k import evaluate_k_path, evaluate_k
    from wannierberri.calculators import tabulate
    model = wbsys.make_model(case["model"])
    L = model.lattice
    B = recip_of(L)
    K, labels, breaks, counts = expected_path(case["nodes"], case["labels"], case["samp"], B)
    if case["refine"] > 1:
        K, labels, breaks, _ = expected_refined(K, labels, breaks, case["refine"])
    if len(K) > MAXPTS:
        raise Inconclusive("path longer than the tabulation budget")
    s = wbsys.to_system(model)
    with scratch_dir() as d:
        kw = dict(parallel=False, k_batch=case["k_batch"], fout_name=os.path.join(d, "res"),
                  file_Klist_path=os.path.join(d, "klist"))
        named = [t[2:] for t in case["tabs"] if t.startswith("q:")]
        if named:       # the pre-defined named quantities (module-level tabulators; never given ibands here)
            kw["quantities"] = named
        if case["internal"]:
            nodes = [None if x is None else list(x) for x in case["nodes"]]
            path, res = evaluate_k_path(s, nodes=nodes, labels=None if case["labels"] is None else list(case["labels"]),
                                        length=case["samp"]["length"], tabulators=fresh_tabulators(case["tabs"]), **kw)
        else:
            path = make_path(case, L, B, system=s)
            if case["refine"] > 1:
                path = path.get_refined(factor=case["refine"])
            res = evaluate_k_path(s, path=path, tabulators=fresh_tabulators(case["tabs"]), **kw)
            if isinstance(res, tuple):
                raise Violation("return-path", "a path was passed, yet a (path, result) pair came back")
    compare_path(path, K, labels, breaks, B, "path")
    n = len(K)
    if np.asarray(res.kpoints).shape != (n, 3) or maxabs(np.asarray(res.kpoints) - K) > PTOL:
        raise Violation("result-kpoints", "k-points of the result are not the path points in path order")
    names = ["Energy"] + [t[2:] if t.startswith("q:") else t for t in case["tabs"]]
    if set(res.results.keys()) != set(names):
        raise Violation("result-keys", f"{sorted(res.results.keys())} expected {sorted(names)}")
    # (a) energies against the explicit Fourier sum
    E = np.asarray(res.results["Energy"].data)
    Eref = np.array([model.bands(k) for k in K])
    if E.shape != Eref.shape:
        raise Violation("energy-shape", f"{E.shape} expected {Eref.shape}")
    dE = np.abs(E - Eref).max(axis=1) / (1 + maxabs(Eref))
    if dE.max() > 1e-9:
        i = int(np.argmax(dE))
        # is it a permutation of the right rows?  (diagnostic only)
        perm = any(np.abs(E[i] - Eref[j]).max() / (1 + maxabs(Eref)) <= 1e-9 for j in range(n))
        raise Violation("energy-order" if perm else "energy-values",
                        f"path point {i}: E={E[i].tolist()} explicit {Eref[i].tolist()}")
    # (b) other quantities against the single-point evaluation
    gaps = np.diff(Eref, axis=1) if model.nw > 1 else np.full((n, 1), np.inf)
    if np.any(np.abs(gaps - 1e-4) < 1e-9):
        raise Inconclusive("gap at the degeneracy threshold")
    worst = 0.0
    for name in names[1:]:
        data = np.asarray(res.results[name].data)
        single = []
        for k in K:
            if name in ("vel", "berry"):
                r = evaluate_k(s, k=np.array(k), calculators={"Energy": tabulate.Energy(), **fresh_tabulators([name])})
                single.append(np.asarray(r[name].data)[0])
            else:
                r = evaluate_k(s, k=np.array(k), calculators={"Energy": tabulate.Energy()}, quantities=[name])
                single.append(np.asarray(r[name]))
            e1 = np.asarray(r["Energy"].data)[0]
            if maxabs(e1 - model.bands(k)) > 1e-9 * (1 + maxabs(Eref)):
                raise Violation("single-point-energy", f"evaluate_k energies differ from the explicit sum at {k}")
        single = np.array(single)
        if data.shape != single.shape:
            raise Violation("value-shape", f"{name}: {data.shape} expected {single.shape}")
        # scale = size of the compared arrays, but never below the natural unit of the quantity (a quantity that
        # vanishes identically, e.g. the internal Berry curvature of an effectively one-dimensional model, consists of
        # rounding noise ~1e-17 on both sides; relative agreement of noise is not promised)
        Lsc = abs(np.linalg.det(L)) ** (1.0 / 3)
        unit = Lsc * max(1.0, maxabs(Eref)) if ("vel" in name or "gradients" in name or name == "energy") else Lsc ** 2
        scale = max(maxabs(single), maxabs(data), 1e-6 * unit)
        for i in range(n):
            g = gaps[i][gaps[i] > 1e-4]
            gmin = g.min() if g.size else np.inf
            tol = 1e-7 * max(1.0, (1e-3 / gmin) ** 2)
            di = maxabs(data[i] - single[i]) / scale
            worst = max(worst, di / tol)
            if di > tol:
                perm = any(maxabs(data[i] - single[j]) / scale <= tol for j in range(n))
                raise Violation(f"{name}-order" if perm else f"{name}-values",
                                f"path point {i} (k={K[i].tolist()}): differs from the single-point value by "
                                f"{di:.2e} of scale (tol {tol:.1e})")
    nb = -(-n // case["k_batch"])
    Kmod = np.round(K % 1, 9) % 1
    dup = len({tuple(x) for x in Kmod}) < n
    return ok(nb > 1 or len(breaks) > 0 or dup, f"batches={min(nb, 5)}", "break" if breaks else None,
              "coinciding-mod-G" if dup else None, "internal-path" if case["internal"] else "given-path",
              f"refine={case['refine']}", f"nw={model.nw}", "tabs=" + "+".join(case["tabs"]), "named-quantities" if named else None,
              case["samp"]["mode"], "near-degenerate" if np.any(gaps < 1e-3) else None,
              "last-batch-partial" if n % case["k_batch"] else None)


SUBS = [
    Sub("build", build_case_st(), check_build, quick=700, thorough=16000, budget_quick=50, budget_thorough=400),
    Sub("tabulate", tab_case_st(), check_tabulate, quick=240, thorough=6400, budget_quick=60, budget_thorough=420),
]
