"""C12  Parallel evaluation gives the same results as serial evaluation (DESIGN 4/C12)

The harness owns the schedule: vlib/fakeray.py replaces the `ray` module inside the check process and a
scheduler model (seeded from the case) decides at every ray.wait() which tasks have finished and which
<= num_returns of them are reported - including answers that are not supersets of earlier answers (ray's
documented contract, observed with real ray 2.48) and time-outs.  Oracle: run(parallel=True) under any
such schedule == run(parallel=False): integrated results to rounding, tabulations k-point by k-point in
grid (C) order / path order, final K-point list and weights identical.
"""
import numpy as np
from hypothesis import strategies as st

from vlib.runner import Sub, Violation, ok
from vlib.util import scratch_dir, fl
from vlib import runhelp, fakeray, wbsys

PROPERTY_ID = "C12"
RULE = ("grid runs: cases of C10 (random models, declared point groups, NKdiv<=3^3 x NKFFT<=2^3, 0-2 refinement "
        "iterations, 1-3 static calculators, plus a TabulatorAll(Energy, BerryCurvature) when no refinement) under a "
        "scheduler model with mode in {subset, prefix, monotone}, 1..16 CPUs, time-out probability 0..0.5; path runs: "
        "2-4 node paths, k_batch 1..7, tabulators Energy+Velocity; non-trivial = >=2 wait() calls and (an answer that is "
        "not a superset of the previous one, or a time-out)")
ASSUMPTIONS = ["scheduler model faithful to ray.wait's documented contract: returns at most num_returns ready refs, in input "
               "order, no promise that later answers contain earlier ones; fewer on time-out",
               "remote functions are pure, so evaluating them in-process gives what a worker would return",
               "real-ray worker environment shipping (get_ray_runtime_env) is not exercised by this check"]
MIN_NONTRIVIAL = {"quick": 8, "thorough": 100}
TOL = 1e-10

sched_st = st.fixed_dictionaries(dict(
    seed=st.integers(0, 2 ** 32), mode=st.sampled_from(["subset", "subset", "prefix", "monotone"]),
    ncpu=st.sampled_from([1, 2, 4, 16]), p_timeout=st.sampled_from([0.0, 0.2, 0.5]),
    burst=st.sampled_from([[1, 1], [1, 4], [2, 8]]),
))

grid_case = st.fixed_dictionaries(dict(
    g=runhelp.grid_case_st(),
    calcs=runhelp.calcs_case_st(max_calcs=2),
    niter=st.integers(0, 2),
    mesh=st.sampled_from([2, 3, [2, 1, 2]]),
    fac=st.integers(1, 2),
    irred=st.booleans(),
    tab=st.booleans(),
    sched=sched_st,
))


def make_sched(s):
    return fakeray.Scheduler(seed=s["seed"], mode=s["mode"], ncpu=s["ncpu"], p_timeout=s["p_timeout"],
                             burst=tuple(s["burst"]))


def cmp_results(resS, resP, where):
    from wannierberri.result.tabresult import TABresult
    if set(resS.results) != set(resP.results):
        raise Violation("keys", f"{where}: {sorted(resS.results)} vs {sorted(resP.results)}")
    for k, vS in resS.results.items():
        vP = resP.results[k]
        if isinstance(vS, TABresult):
            if vS.kpoints.shape != vP.kpoints.shape:
                raise Violation("tab-kpoints-count", f"{where} '{k}': serial {vS.kpoints.shape[0]} k-points, parallel "
                                                     f"{vP.kpoints.shape[0]}")
            d = np.abs(vS.kpoints - vP.kpoints)
            if np.max(d) > 1e-12:
                raise Violation("tab-kpoints-order", f"{where} '{k}': k-point lists differ")
            for q, r in vS.results.items():
                a, b = np.asarray(r.data), np.asarray(vP.results[q].data)
                if a.shape != b.shape or np.max(np.abs(a - b)) > TOL * (1 + np.max(np.abs(a))):
                    raise Violation("tab-values", f"{where} '{k}/{q}': per-k values differ")
        else:
            a, b = np.asarray(vS.data), np.asarray(vP.data)
            if a.shape != b.shape:
                raise Violation("shape", f"{where} '{k}'")
            err = float(np.max(np.abs(a - b))) if a.size else 0.0
            if err > TOL * (1 + float(np.max(np.abs(a)))):
                raise Violation("integrated-values", f"{where} '{k}': parallel differs from serial by {err:.3e} "
                                                     f"(max |serial| {np.max(np.abs(a)):.3e})")


def check_grid(case):
    import wannierberri as wb
    from wannierberri.calculators import tabulate
    model, system, grid = runhelp.build(case["g"])
    has_AA = "AA" in model.mats
    mesh = case["mesh"] if isinstance(case["mesh"], int) else list(case["mesh"])
    niter = case["niter"]

    def calcs():
        c = runhelp.make_calculators(case["calcs"]["names"], case["calcs"]["Efermi"], has_AA)
        if case["tab"] and niter == 0:
            c["tabulate"] = tabulate.TabulatorAll(
                {"Energy": tabulate.Energy(),
                 "berry": tabulate.BerryCurvature(kwargs_formula={"external_terms": False})}, mode="grid")
        return c

    common = dict(adpt_num_iter=niter, adpt_mesh=mesh, adpt_fac=case["fac"], use_irred_kpt=case["irred"],
                  symmetrize=case["irred"])
    sched = make_sched(case["sched"])
    with scratch_dir() as scratch:
        capS, capP = runhelp.Capture(), runhelp.Capture()
        with runhelp.capture_run(capS):
            resS = wb.run(system, grid, calcs(), **runhelp.run_kwargs(scratch, "S", **common))
        with fakeray.installed(sched), runhelp.capture_run(capP):
            kw = runhelp.run_kwargs(scratch, "P", **common)
            kw["parallel"] = True
            resP = wb.run(system, grid, calcs(), **kw)
    if sched.wait_calls == 0:
        raise RuntimeError("parallel branch was not taken (fake ray not used)")
    for it, (sS, sP) in enumerate(zip(capS.snapshots, capP.snapshots)):
        for k in sS["data"]:
            a, b = sS["data"][k], sP["data"][k]
            err = float(np.max(np.abs(a - b))) if a.size else 0.0
            if err > TOL * (1 + float(np.max(np.abs(a)))):
                raise Violation("integrated-values", f"iteration {it} '{k}': parallel differs from serial by {err:.3e} "
                                                     f"(max |serial| {np.max(np.abs(a)):.3e}); sched={case['sched']}")
    cmp_results(resS, resP, "final")
    fS = [k.factor for k in capS.K_list]
    fP = [k.factor for k in capP.K_list]
    if len(fS) != len(fP) or np.max(np.abs(np.array(fS) - np.array(fP))) > 1e-14:
        raise Violation("K-list", f"K-point lists differ: {len(fS)} vs {len(fP)} points")
    for a, b in zip(capS.K_list, capP.K_list):
        if np.max(np.abs(a.K - b.K)) > 1e-14:
            raise Violation("K-list", "K-points differ between serial and parallel run")
    nt = sched.wait_calls >= 2 and (sched.nonmonotone >= 1 or sched.timeouts >= 1)
    return ok(nt, f"mode={case['sched']['mode']}", f"ncpu={case['sched']['ncpu']}", f"niter={niter}",
              "nonmonotone-answer" if sched.nonmonotone else None, "timeout" if sched.timeouts else None,
              "tab" if (case["tab"] and niter == 0) else None, f"waits>={min(sched.wait_calls, 5)}")


node_st = st.lists(st.sampled_from([0.0, 0.5, 0.25, 1 / 3, -0.5, 0.125, 1.0]), min_size=3, max_size=3)

path_case = st.fixed_dictionaries(dict(
    model=wbsys.model_params_st(max_wann=3, max_npairs=4, rmax=1, keys=("Ham",)),
    nodes=st.lists(node_st, min_size=2, max_size=4),
    nk=st.integers(2, 9),
    k_batch=st.integers(1, 7),
    sched=sched_st,
))


def check_path(case):
    import wannierberri as wb
    from wannierberri.calculators import tabulate
    nodes = case["nodes"]
    for a, b in zip(nodes[:-1], nodes[1:]):
        if a == b:
            nodes = None
            break
    if nodes is None:
        from vlib.runner import Reject
        raise Reject("degenerate path segment (generator)")
    model = wbsys.make_model(case["model"])
    system = wbsys.to_system(model)

    def tabs():
        return {"Energy": tabulate.Energy(), "vel": tabulate.Velocity(kwargs_formula={"external_terms": False})}

    sched = make_sched(case["sched"])
    with scratch_dir() as scratch:
        path = wb.Path.from_nodes(system, nodes=[list(n) for n in nodes], nk=case["nk"])
        kw = dict(fout_name=scratch + "/p", file_Klist_path=scratch + "/kl", k_batch=case["k_batch"])
        resS = wb.evaluate_k_path(system, path=path, tabulators=tabs(), parallel=False, **kw)
        with fakeray.installed(sched):
            resP = wb.evaluate_k_path(system, path=path, tabulators=tabs(), parallel=True, **kw)
    if sched.wait_calls == 0:
        raise RuntimeError("parallel branch was not taken (fake ray not used)")
    kp = path.get_kpoints()
    for name, r in (("serial", resS), ("parallel", resP)):
        if r.kpoints.shape != kp.shape:
            raise Violation("path-kpoints-count", f"{name}: {r.kpoints.shape[0]} k-points for a path of {kp.shape[0]}")
        d = np.abs(r.kpoints - kp % 1)
        d = np.minimum(d, 1 - d)
        if np.max(d) > 1e-9:
            raise Violation("path-order", f"{name}: result k-points are not the path points in path order")
    for q in resS.results:
        a, b = np.asarray(resS.results[q].data), np.asarray(resP.results[q].data)
        if a.shape != b.shape or np.max(np.abs(a - b)) > TOL * (1 + np.max(np.abs(a))):
            raise Violation("path-values", f"'{q}': parallel path tabulation differs from serial")
    # each point's own values: energies vs the harness' own band structure
    E = np.asarray(resP.results["Energy"].data)
    ref = np.array([model.bands(k) for k in kp])
    if np.max(np.abs(E - ref)) > 1e-9 * (1 + np.max(np.abs(ref))):
        raise Violation("path-own-values", "energies along the path are not those of the path points")
    nt = sched.wait_calls >= 2 and (sched.nonmonotone >= 1 or sched.timeouts >= 1)
    return ok(nt, f"mode={case['sched']['mode']}", f"k_batch={case['k_batch']}",
              "nonmonotone-answer" if sched.nonmonotone else None, "timeout" if sched.timeouts else None)


SUBS = [
    Sub("grid", grid_case, check_grid, quick=48, thorough=640, budget_quick=70, budget_thorough=500),
    Sub("path", path_case, check_path, quick=32, thorough=480, budget_quick=40, budget_thorough=300),
]
