"""C15  Degenerate multiplets are never split  (DESIGN 4/C15)

Subs
  borders : grid.tetrahedron.get_borders / get_bands_in_range and utility.find_degen against a brute-force
            partition written here (exact rational gap comparison on the very float array handed to the code).
  window  : utility.select_window_degen against "union of whole multiplets" (include_degen=True: every multiplet
            that has a band in the window; False: every multiplet with all bands in the window).
  tabulate: double_spin() systems (exact twofold degeneracy): Data_K.get_bands_in_range_groups keys and values,
            and Tabulator output (Energy, BerryCurvature, Spin) equal inside each block, Energy equal to the
            block mean of the harness' own eigenvalues, BerryCurvature of a Kramers pair equal to the spinless
            band's value.
"""
from fractions import Fraction

import numpy as np
from hypothesis import strategies as st

from vlib.runner import Sub, Violation, Inconclusive, ok
from vlib.util import fl, reldiff
from vlib import wbsys

PROPERTY_ID = "C15"
RULE = ("sorted band-energy arrays (1..14 bands) assembled from multiplets of size 1..5 with internal gaps in "
        "{0, thresh/10, 0.9*thresh} and inter-multiplet gaps >= 2*thresh (no gap ever equals the threshold), thresholds "
        "1e-8..0.1 (and -1 for the band groups), windows whose edges lie inside / between / exactly on multiplets, "
        "Kramers-paired and unpaired spectra; sub 'tabulate': spin-doubled random tight-binding models. "
        "non-trivial = a multiplet of size >= 3 is cut by a window edge (window, borders) / a block of size >= 2 that "
        "is not the whole spectrum (borders without window, tabulate)")
ASSUMPTIONS = ["band energies are sorted ascending (eigvalsh output; documented precondition of select_window_degen)",
               "degen_Kramers is only used with an even number of bands (callers: spinor systems)",
               "a window edge that coincides bit-for-bit with a band energy may be treated as inside or outside "
               "(the statement does not fix open/closed windows); both readings are accepted",
               "no generated gap is within 10% of the threshold (tie-free by construction, DESIGN 2.3)"]
MIN_NONTRIVIAL = {"quick": 50, "thorough": 500}

# ------------------------------------------------------------------------------------------------
# generator of spectra


@st.composite
def spectrum_st(draw, kramers_pairs=False, thresholds=(1e-8, 1e-4, 1e-3, 1e-2, 0.1), max_mult=5, max_bands=14):
    thresh = draw(st.sampled_from(thresholds))
    nm = draw(st.integers(1, 5))
    sizes = []
    internal = []
    between = []
    for _ in range(nm):
        if kramers_pairs:
            sizes.append(2 * draw(st.integers(1, 3)))
        else:
            sizes.append(draw(st.integers(1, max_mult)))
        internal.append(draw(st.sampled_from(["zero", "tenth", "0.9", "mixed"])))
        between.append(draw(st.sampled_from([2.0, 2.5, 10.0, 1e3])))
    while sum(sizes) > max_bands:
        sizes.pop()
    return dict(thresh=thresh, E0=draw(st.one_of(fl(-10, 10), st.sampled_from([0.0, -1000.0, 1000.0]))),
                sizes=sizes, internal=internal[:len(sizes)], between=between[:len(sizes)], mix=draw(st.integers(0, 2 ** 20)))


def build_spectrum(sp):
    t = abs(sp["thresh"]) if sp["thresh"] > 0 else 1e-3
    E = []
    x = sp["E0"]
    mix = sp["mix"]
    for im, (n, kind, btw) in enumerate(zip(sp["sizes"], sp["internal"], sp["between"])):
        if im > 0:
            x = x + btw * t
        for j in range(n):
            if j > 0:
                if kind == "zero":
                    g = 0.0
                elif kind == "tenth":
                    g = t / 10
                elif kind == "0.9":
                    g = 0.9 * t
                else:
                    g = [0.0, t / 10, 0.9 * t][mix % 3]
                    mix //= 3
                x = x + g
            E.append(x)
    return np.array(E, dtype=float)


def exact_gaps(E):
    return [Fraction(float(E[i + 1])) - Fraction(float(E[i])) for i in range(len(E) - 1)]


def tie_guard(E, thresh):
    """no gap may sit within 1e-9 (relative) of the threshold: two correct implementations could differ there"""
    if thresh <= 0:
        return
    for g in exact_gaps(E):
        if abs(float(g) - thresh) <= 1e-9 * thresh + 4e-16 * max(1.0, float(np.max(np.abs(E)))):
            raise Inconclusive("gap ties with threshold")


def blocks_le(E, thresh):
    """maximal runs whose consecutive gaps are <= thresh  (borders where gap > thresh)"""
    th = Fraction(float(thresh))
    cuts = [0] + [i + 1 for i, g in enumerate(exact_gaps(E)) if g > th] + [len(E)]
    return [[a, b] for a, b in zip(cuts, cuts[1:])]


def blocks_lt(E, thresh):
    """maximal runs whose consecutive gaps are < thresh"""
    th = Fraction(float(thresh))
    cuts = [0] + [i + 1 for i, g in enumerate(exact_gaps(E)) if g >= th] + [len(E)]
    return [[a, b] for a, b in zip(cuts, cuts[1:])]


@st.composite
def edge_st(draw, lower):
    """description of a window edge relative to the spectrum (resolved in edge_value)"""
    far = "below" if lower else "above"
    wrong = "above" if lower else "below"
    kind = draw(st.sampled_from(["inf", "on", "on", "between", "between", "between", far, far, wrong, "free"]))
    return dict(kind=kind, i=draw(st.integers(0, 13)), f=draw(st.sampled_from([0.5, 0.25, 0.75, 0.01, 0.99])),
                x=draw(fl(-12, 12)))


def edge_value(e, E, lower):
    n = len(E)
    k = e["kind"]
    if k == "inf":
        return -np.inf if lower else np.inf
    if k == "on":
        return float(E[e["i"] % n])
    if k == "between":
        if n == 1:
            return float(E[0] - 1.0) if lower else float(E[0] + 1.0)
        i = e["i"] % (n - 1)
        a, b = float(E[i]), float(E[i + 1])
        v = a + e["f"] * (b - a)
        return v
    if k == "below":
        return float(E[0] - 1.0)
    if k == "above":
        return float(E[-1] + 1.0)
    return e["x"]


# ------------------------------------------------------------------------------------------------
# sub: borders

borders_st = st.one_of(
    st.fixed_dictionaries(dict(sp=spectrum_st(thresholds=(-1, 1e-8, 1e-4, 1e-3, 1e-2, 0.1)),
                               kramers=st.sampled_from(["off", "off", "unpaired"]),
                               lo=edge_st(True), hi=edge_st(False), sel=st.one_of(st.none(), st.lists(st.integers(0, 13), max_size=4)),
                               widen=st.sampled_from([0.0, 0.0, 0.3, 5.0]), swap=st.sampled_from([True, True, True, False]))),
    st.fixed_dictionaries(dict(sp=spectrum_st(kramers_pairs=True, thresholds=(1e-8, 1e-4, 1e-3, 1e-2, 0.1)),
                               kramers=st.just("paired"),
                               lo=edge_st(True), hi=edge_st(False), sel=st.one_of(st.none(), st.lists(st.integers(0, 13), max_size=4)),
                               widen=st.sampled_from([0.0, 0.0, 0.3, 5.0]), swap=st.sampled_from([True, True, True, False]))),
)


def check_borders(case):
    from wannierberri.grid.tetrahedron import get_borders, get_bands_in_range
    from wannierberri.utility import find_degen
    sp = case["sp"]
    E = build_spectrum(sp)
    N = len(E)
    thresh = sp["thresh"]
    tie_guard(E, thresh)
    kram = case["kramers"] != "off"
    if kram and N % 2 == 1:
        E = np.concatenate([E, [E[-1] + 7 * abs(thresh)]])
        N += 1
        tie_guard(E, thresh)
    ref = blocks_le(E, thresh)
    E_in = E.copy()
    # --- find_degen (no Kramers option)
    fd = find_degen(E_in, thresh)
    if [list(map(int, b)) for b in fd] != ref:
        raise Violation("find_degen", f"E={E.tolist()} thresh={thresh}: {fd} != {ref}")
    # --- get_borders
    got = get_borders(E_in, thresh, degen_Kramers=kram)
    got = [[int(a), int(b)] for a, b in got]
    if not np.array_equal(E_in, E):
        raise Violation("mutates-input", "get_borders changed the energies")
    # partition of 0..N into contiguous non-empty blocks
    if (not got) or got[0][0] != 0 or got[-1][1] != N or any(b[1] <= b[0] for b in got) or \
            any(got[i][1] != got[i + 1][0] for i in range(len(got) - 1)):
        raise Violation("not-a-partition", f"E={E.tolist()} thresh={thresh} kramers={kram}: {got}")
    gaps = exact_gaps(E)
    th = Fraction(float(thresh))
    inner_cuts = [b[0] for b in got[1:]]
    for c in inner_cuts:
        if not gaps[c - 1] > th:
            raise Violation("boundary-inside-multiplet", f"E={E.tolist()} thresh={thresh} kramers={kram}: boundary at {c}, blocks {got}")
        if kram and c % 2:
            raise Violation("kramers-odd-boundary", f"boundary {c} odd, blocks {got}")
    if case["kramers"] in ("off", "paired"):
        # complete statement: boundaries exactly at the gaps larger than the threshold
        if got != ref:
            raise Violation("blocks-differ", f"E={E.tolist()} thresh={thresh} kramers={kram}: {got} != {ref}")
    else:
        # unpaired spectrum with Kramers: every EVEN position with a large gap must be a boundary, nothing else
        want = [c for c in range(2, N, 2) if gaps[c - 1] > th]
        if inner_cuts != want:
            raise Violation("kramers-blocks-differ", f"E={E.tolist()} thresh={thresh}: cuts {inner_cuts} != {want}")
    # --- get_bands_in_range
    emin = edge_value(case["lo"], E, True)
    emax = edge_value(case["hi"], E, False)
    if emin > emax and case["swap"]:
        emin, emax = emax, emin
    sel = case["sel"]
    sel_arr = None if sel is None else [s % N for s in sel]
    w = case["widen"]
    kw = {}
    if w > 0:
        t = abs(thresh) if thresh > 0 else 1e-3
        lo_arr = E - w * t * (1 + np.arange(N) % 3)
        hi_arr = E + w * t * (1 + np.arange(N) % 2)
        kw = dict(Ebandmin=lo_arr, Ebandmax=hi_arr)
    else:
        lo_arr = hi_arr = E
    gb = get_bands_in_range(emin, emax, E_in, degen_thresh=thresh, degen_Kramers=kram, select_bands=sel_arr, **kw)
    gb = [[int(a), int(b)] for a, b in gb]
    want_b = []
    on_edge = False
    for a, b in got:
        if sel_arr is not None and not any(a <= s < b for s in sel_arr):
            continue
        top = max(float(x) for x in hi_arr[a:b])
        bot = min(float(x) for x in lo_arr[a:b])
        if top == emin or bot == emax:
            on_edge = True
        if top >= emin and bot <= emax:
            want_b.append([a, b])
    if gb != want_b:
        if on_edge:
            raise Inconclusive("block extremum coincides with range edge")
        raise Violation("bands-in-range", f"E={E.tolist()} thresh={thresh} kramers={kram} range=({emin},{emax}) sel={sel_arr} "
                                          f"widen={w}: {gb} != {want_b}")
    big = max(b - a for a, b in got)
    cut3 = any(b - a >= 3 and (float(E[a]) <= emax < float(E[b - 1]) or float(E[a]) < emin <= float(E[b - 1])) for a, b in got)
    nontrivial = (big >= 2 and len(got) >= 2) or cut3
    return ok(nontrivial, f"kramers={case['kramers']}", f"thresh={thresh}", f"maxblock={min(big, 6)}",
              "edge-cuts-multiplet>=3" if cut3 else None, "select_bands" if sel_arr is not None else None,
              "widened" if w > 0 else None, "empty-range" if not want_b else None,
              "all-in-range" if len(want_b) == len(got) else None)


# ------------------------------------------------------------------------------------------------
# sub: window

window_st = st.fixed_dictionaries(dict(
    sp=spectrum_st(thresholds=(1e-8, 1e-4, 1e-3, 1e-2, 1e-2, 0.1)),
    lo=edge_st(True), hi=edge_st(False),
    include=st.booleans(),
    default_thresh=st.sampled_from([False, False, True]),
    swap=st.sampled_from([True, True, True, False]),
))


def _expected_window(E, mult, wmin, wmax, include, open_lo, open_hi):
    N = len(E)
    ins = []
    for i in range(N):
        e = float(E[i])
        a = e > wmin if open_lo else e >= wmin
        b = e < wmax if open_hi else e <= wmax
        ins.append(a and b)
    res = [False] * N
    if not any(ins):
        return res
    for a, b in mult:
        members = ins[a:b]
        take = any(members) if include else all(members)
        if take:
            for i in range(a, b):
                res[i] = True
    return res


def check_window(case):
    from wannierberri.utility import select_window_degen
    sp = dict(case["sp"])
    if case["default_thresh"]:
        sp["thresh"] = 1e-2
    E = build_spectrum(sp)
    N = len(E)
    thresh = sp["thresh"]
    tie_guard(E, thresh)
    wmin = edge_value(case["lo"], E, True)
    wmax = edge_value(case["hi"], E, False)
    if wmin > wmax and case["swap"]:
        wmin, wmax = wmax, wmin
    include = case["include"]
    mult = blocks_lt(E, thresh)
    E_in = E.copy()
    kw = dict(win_min=wmin, win_max=wmax, include_degen=include)
    if not case["default_thresh"]:
        kw["thresh"] = thresh
    mask = select_window_degen(E_in, **kw)
    ind = select_window_degen(E_in, return_indices=True, **kw)
    if not np.array_equal(E_in, E):
        raise Violation("mutates-input", "select_window_degen changed the energies")
    mask = np.asarray(mask)
    if mask.dtype != bool or mask.shape != (N,):
        raise Violation("mask-type", f"mask dtype {mask.dtype} shape {mask.shape}")
    ind = [int(i) for i in ind]
    if ind != [int(i) for i in np.where(mask)[0]]:
        raise Violation("indices-vs-mask", f"E={E.tolist()} window=({wmin},{wmax}) include={include}: indices {ind} mask {mask.tolist()}")
    got = [bool(x) for x in mask]
    on_lo = any(float(e) == wmin for e in E)
    on_hi = any(float(e) == wmax for e in E)
    accepted = []
    for ol in ([False, True] if on_lo else [False]):
        for oh in ([False, True] if on_hi else [False]):
            accepted.append(_expected_window(E, mult, wmin, wmax, include, ol, oh))
    closed = accepted[0]
    ins_closed = [(float(e) >= wmin and float(e) <= wmax) for e in E]
    cut = [(a, b) for a, b in mult if any(ins_closed[a:b]) and not all(ins_closed[a:b])]
    cut3 = any(b - a >= 3 for a, b in cut)
    if got not in accepted:
        desc = f"E={E.tolist()} thresh={thresh} window=({wmin},{wmax}) include_degen={include}: got {got} expected {closed}"
        # classify: is a multiplet split in the output?
        split = [(a, b) for a, b in mult if any(got[a:b]) and not all(got[a:b])]
        if split:
            raise Violation(f"multiplet-split(include_degen={include})", desc + f" multiplet {split[0]} is split")
        lost = [i for i in range(N) if closed[i] and not got[i]]
        raise Violation(f"whole-multiplet-{'lost' if lost else 'invented'}(include_degen={include})", desc)
    return ok(cut3, f"include={include}", f"ncut={len(cut)}", "cut>=3" if cut3 else None,
              "window-strictly-inside-one-multiplet" if any(
                  (not ins_closed[a]) and (not ins_closed[b - 1]) and any(ins_closed[a:b]) for a, b in cut) else None,
              "empty-window" if not any(ins_closed) else None, "all-inside" if all(ins_closed) else None,
              "edge-on-band" if (on_lo or on_hi) else None, f"thresh={thresh}",
              "default-thresh" if case["default_thresh"] else None)


# ------------------------------------------------------------------------------------------------
# sub: tabulate (spin-doubled systems)

tab_st = st.fixed_dictionaries(dict(
    model=wbsys.model_params_st(max_wann=3, max_npairs=4, rmax=2, keys=("Ham", "AA")),
    k=wbsys.kpoint_st(),
    thresh=st.sampled_from([1e-4, 1e-4, 1e-2, 0.3, 1.0, 2.0]),
    kramers=st.booleans(),
    ibands=st.one_of(st.none(), st.lists(st.integers(0, 5), min_size=1, max_size=4, unique=True)),
))


def check_tabulate(case):
    import wannierberri as wb
    from wannierberri.calculators import tabulate
    from wannierberri.grid import Grid
    from wannierberri.data_K import get_data_k_class_from_system
    p = case["model"]
    model = wbsys.make_model(p)
    nw0 = model.nw
    k = np.array(case["k"], dtype=float)
    e0 = model.bands(k)
    E = np.repeat(e0, 2)  # oracle spectrum of the spin-doubled model
    thresh = case["thresh"]
    # tie guard on the oracle spectrum (1e-6: eigenvalues of the code and of the oracle agree to ~1e-13)
    for g in np.diff(e0):
        if abs(g - thresh) < 1e-6:
            raise Inconclusive("band gap ties with threshold")
    cuts = [0] + [2 * (i + 1) for i in range(nw0 - 1) if e0[i + 1] - e0[i] > thresh] + [2 * nw0]
    ref = [(a, b) for a, b in zip(cuts, cuts[1:])]
    s = wbsys.to_system(model)
    s.double_spin()
    NB = 2 * nw0
    ib = case["ibands"]
    ibands = None if ib is None else sorted({i % NB for i in ib})
    kw = dict(degen_thresh=thresh, degen_Kramers=case["kramers"], ibands=ibands)
    res = wb.evaluate_k(s, k=tuple(k), calculators=dict(E=tabulate.Energy(**kw), O=tabulate.BerryCurvature(**kw),
                                                        S=tabulate.Spin(**kw)))
    sel = list(range(NB)) if ibands is None else ibands
    data = {key: np.array(r.data)[0] for key, r in res.items()}
    for key, d in data.items():
        if d.shape[0] != len(sel):
            raise Violation("tabulator-shape", f"{key}: {d.shape} for {len(sel)} bands")
    # groups as seen by calculators
    grid = Grid(system=s, NK=1, NKFFT=1)
    dk = get_data_k_class_from_system(s)(s, grid=grid, dK=k)
    groups = dk.get_bands_in_range_groups(-np.inf, np.inf, degen_thresh=thresh, degen_Kramers=case["kramers"], sea=False)[0]
    keys = sorted((int(a), int(b)) for a, b in groups.keys())
    if keys != ref:
        raise Violation("data_K-groups", f"k={k.tolist()} thresh={thresh} kramers={case['kramers']} E={E.tolist()}: {keys} != {ref}")
    for (a, b), v in groups.items():
        if abs(v - E[a:b].mean()) > 1e-9 * (1 + abs(v)):
            raise Violation("data_K-group-energy", f"group ({a},{b}) energy {v} != {E[a:b].mean()}")
    # equal inside a block; Energy = block mean of the oracle eigenvalues
    pos = {b: i for i, b in enumerate(sel)}
    for a, b in ref:
        members = [pos[i] for i in range(a, b) if i in pos]
        if not members:
            continue
        for key, d in data.items():
            blockvals = d[members]
            scale = 1 + float(np.max(np.abs(blockvals)))
            if float(np.max(np.abs(blockvals - blockvals[0]))) > 1e-12 * scale:
                raise Violation("unequal-inside-block", f"{key}: block ({a},{b}) thresh={thresh} k={k.tolist()} values {blockvals.tolist()}")
        dE = abs(data["E"][members[0]] - E[a:b].mean())
        if dE > 1e-9 * (1 + abs(E[a:b].mean())):
            raise Violation("energy-not-block-mean", f"block ({a},{b}) E={data['E'][members[0]]} oracle mean {E[a:b].mean()} k={k.tolist()}")
        if float(np.max(np.abs(data["S"][members[0]]))) > 1e-9:
            raise Violation("spin-of-kramers-block", f"block ({a},{b}): spin {data['S'][members[0]].tolist()} (trace of sigma over spin pairs is 0)")
    # differential: Berry curvature of an isolated Kramers pair = spinless band value (trace is gauge invariant)
    mingap = float(np.min(np.diff(e0))) if nw0 > 1 else np.inf
    compared = False
    if mingap > max(10 * thresh, 1e-2):
        s0 = wbsys.to_system(wbsys.make_model(p))
        O0 = np.array(wb.evaluate_k(s0, k=tuple(k), calculators=dict(O=tabulate.BerryCurvature(degen_thresh=thresh))).data)[0]
        want = np.repeat(O0, 2, axis=0)[sel]
        tol = 1e-7 * (1e-2 / min(mingap, 1e-2)) ** 2
        d = reldiff(data["O"], want)
        if d > tol:
            raise Violation("berry-curvature-of-pair", f"doubled {data['O'].tolist()} vs spinless {want.tolist()} rel {d:.2e}")
        compared = True
    big = max(b - a for a, b in ref)
    return ok(len(ref) >= 2 or big >= 4, f"nw0={nw0}", f"thresh={thresh}", f"kramers={case['kramers']}", f"maxblock={big}",
              "ibands" if ibands is not None else None, "berry-vs-spinless" if compared else None)


SUBS = [
    Sub("window", window_st, check_window, quick=4000, thorough=80000, budget_quick=60, budget_thorough=400),
    Sub("borders", borders_st, check_borders, quick=3000, thorough=60000, budget_quick=60, budget_thorough=400),
    Sub("tabulate", tab_st, check_tabulate, quick=160, thorough=2400, budget_quick=70, budget_thorough=400),
]
