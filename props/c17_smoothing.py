"""C17  Energy smoothing applies every axis smoother  (DESIGN 4/C17)

Oracle: a direct O(N^2) normalised convolution written here from the documented kernels
(Fermi-Dirac: -df/dE = 1/(4s cosh^2(x/2s)), Gaussian: exp(-(x/s)^2)/(s sqrt(pi)), truncated at
maxdE*smear as documented), applied axis by axis in both orders.
"""
import numpy as np
from hypothesis import strategies as st

from vlib.runner import Sub, Violation, ok
from vlib.util import fl, rng_of, crandom, reldiff

PROPERTY_ID = "C17"
RULE = ("EnergyResult with 1-3 uniform energy axes (2..14 points), per-axis smoother drawn from "
        "{void, Fermi-Dirac, Gaussian} with kernel half-width NE1 in 0..160 grid steps, tensor rank 0..2, "
        "real/complex data; non-trivial = at least two non-void smoothers with NE1>=1 (sub 'compose') or a "
        "non-void smoother with NE1>=1 (sub 'laws'); distinct = distinct generated case (hash of the case)")
ASSUMPTIONS = ["energy grids are uniform (documented precondition of get_smoother)",
               "kernel truncation at maxdE*smear (=8*smear) is part of the documented smoother definition",
               "8*smear/dE is kept 0.37 away from an integer so that int() truncation cannot tie"]
MIN_NONTRIVIAL = {"quick": 50, "thorough": 500}
TOL = 1e-11

K_B_EV = None


def _kb():
    from scipy.constants import Boltzmann, elementary_charge
    return Boltzmann / elementary_charge


axis_st = st.fixed_dictionaries(dict(
    NE=st.integers(2, 14),
    E0=fl(-5, 5),
    dE=st.sampled_from([0.01, 0.05, 0.1, 0.25, 1.0, 3.0]),
    kind=st.sampled_from(["void", "FD", "Gauss", "FD", "Gauss"]),
    m=st.one_of(st.integers(0, 6), st.integers(0, 30), st.integers(0, 160)),
))

case_st = st.fixed_dictionaries(dict(
    axes=st.lists(axis_st, min_size=1, max_size=3),
    rank=st.integers(0, 2),
    cplx=st.booleans(),
    rs=st.integers(0, 2 ** 32),
))


def energies(ax):
    return ax["E0"] + ax["dE"] * np.arange(ax["NE"])


def make_smoother(ax, E):
    from wannierberri.smoother import get_smoother
    if ax["kind"] == "void":
        return get_smoother(E, None, None)
    dE = E[1] - E[0]
    smear = (ax["m"] + 0.37) / 8 * dE
    if ax["kind"] == "FD":
        return get_smoother(E, smear / _kb(), "Fermi-Dirac")
    return get_smoother(E, smear, "Gaussian")


def kernel(ax, x, smear):
    if ax["kind"] == "FD":
        return 0.25 / smear / np.cosh(x / (2 * smear)) ** 2
    return np.exp(-(x / smear) ** 2) / smear / np.sqrt(np.pi)


def ref_smooth(ax, E, A, axis):
    """direct normalised convolution along `axis` with explicit loops"""
    if ax["kind"] == "void":
        return A
    dE = E[1] - E[0]
    smear = (ax["m"] + 0.37) / 8 * dE
    NE1 = ax["m"]
    NE = len(E)
    A = np.moveaxis(A, axis, 0)
    out = np.zeros_like(A)
    for i in range(NE):
        num = 0
        den = 0.0
        for j in range(NE):
            if abs(j - i) <= NE1:
                w = kernel(ax, (j - i) * dE, smear)
                num = num + w * A[j]
                den += w
        out[i] = num / den
    return np.moveaxis(out, 0, axis)


def check_compose(case):
    from wannierberri.result import EnergyResult
    axes = case["axes"]
    rng = rng_of(case["rs"])
    Es = [energies(ax) for ax in axes]
    shape = tuple(ax["NE"] for ax in axes) + (3,) * case["rank"]
    data = crandom(rng, shape, case["cplx"])
    smoothers = [make_smoother(ax, E) for ax, E in zip(axes, Es)]
    from wannierberri.smoother import VoidSmoother
    for ax, s in zip(axes, smoothers):
        if ax["kind"] != "void" and isinstance(s, VoidSmoother):
            raise Violation("dispatch", f"get_smoother returned void for {ax}")
        if ax["kind"] != "void" and s.NE1 != ax["m"]:
            raise Violation("NE1", f"kernel half width {s.NE1} != int(8*smear/dE)={ax['m']}")
    res = EnergyResult(Es, data.copy(), smoothers=smoothers)
    got = res.dataSmooth
    if not np.array_equal(res.data, data):
        raise Violation("mutates-data", "dataSmooth changed the raw data")
    fwd = data
    for i, (ax, E) in enumerate(zip(axes, Es)):
        fwd = ref_smooth(ax, E, fwd, i)
    bwd = data
    for i in reversed(range(len(axes))):
        bwd = ref_smooth(axes[i], Es[i], bwd, i)
    if reldiff(fwd, bwd) > TOL:
        raise RuntimeError("harness oracle: axis smoothers do not commute")  # harness error by design
    d = reldiff(got, fwd)
    nonvoid = [ax for ax in axes if ax["kind"] != "void" and ax["m"] >= 1]
    if d > TOL:
        allvoid = all(ax["kind"] == "void" for ax in axes)
        raise Violation("all-void-changed" if allvoid else "composition",
                        f"dataSmooth differs from composed axis convolutions by {d:.3e} (naxes={len(axes)})")
    # results derived from `res` AFTER its smoothed data was evaluated carry their own smoothed data
    if case["rank"] >= 1:
        from wannierberri.symmetry.point_symmetry import PointSymmetry, transform_ident
        c, s_ = np.cos(0.7), np.sin(0.7)
        R = np.array([[c, -s_, 0], [s_, c, 0], [0, 0, 1.0]]) @ np.array([[1, 0, 0], [0, 0, -1.0], [0, 1.0, 0]])
        res2 = EnergyResult(Es, data.copy(), smoothers=smoothers, transformTR=transform_ident, transformInv=transform_ident,
                            rank=case["rank"])
        res2.dataSmooth
        derived = [("transform", res2.transform(PointSymmetry(R)))]
    else:
        res2 = res
        derived = []
    derived += [("scaled", res2 * 2.5), ("sum", res2 + res2)]
    for what, r in derived:
        exp = np.asarray(r.data)
        for i, (ax, E) in enumerate(zip(axes, Es)):
            exp = ref_smooth(ax, E, exp, i)
        d = reldiff(r.dataSmooth, exp)
        if d > TOL:
            raise Violation(f"derived-result:{what}", f"dataSmooth of a result obtained by '{what}' from a result whose smoothed "
                                                      f"data had been read differs from the smoothing of its own data by {d:.3e}")
    return ok(len(nonvoid) >= 2, f"naxes={len(axes)}", f"nonvoid={len(nonvoid)}", f"rank={case['rank']}",
              "wide-kernel(NE1>=NE)" if any(ax["m"] >= ax["NE"] for ax in nonvoid) else None)


law_st = st.fixed_dictionaries(dict(
    ax=axis_st, axis=st.integers(0, 2), other=st.lists(st.integers(1, 4), min_size=2, max_size=2),
    cplx=st.booleans(), rs=st.integers(0, 2 ** 32),
    const=fl(-10, 10),
    a=fl(-3, 3), b=fl(-3, 3),
    void_mode=st.sampled_from(["smear0", "smear-neg", "oneE", "Enone", "smearNone"]),
))


def check_laws(case):
    from wannierberri.smoother import get_smoother, VoidSmoother
    ax = case["ax"]
    axis = case["axis"]
    E = energies(ax)
    sm = make_smoother(ax, E)
    rng = rng_of(case["rs"])
    shape = list(case["other"])
    shape.insert(axis, ax["NE"])
    A = crandom(rng, shape, case["cplx"])
    B = crandom(rng, shape, case["cplx"])
    a, b = case["a"], case["b"]
    A0 = A.copy()
    sA = sm(A, axis=axis)
    if not np.array_equal(A, A0):
        raise Violation("mutates-input", "smoother changed its argument")
    if sA.shape != A.shape:
        raise Violation("shape", f"{sA.shape} != {A.shape}")
    # agreement with the direct convolution
    d = reldiff(sA, ref_smooth(ax, E, A, axis))
    if d > TOL:
        raise Violation("single-axis-convolution", f"axis={axis} diff {d:.3e}")
    # linearity
    d = reldiff(sm(a * A + b * B, axis=axis), a * sA + b * sm(B, axis=axis))
    if d > TOL:
        raise Violation("linearity", f"diff {d:.3e}")
    # constants
    C = np.full(shape, case["const"], dtype=float)
    d = reldiff(sm(C, axis=axis), C)
    if d > 1e-13:
        raise Violation("constant", f"constant array changed by {d:.3e}")
    # acts only along axis: each 1D line is smoothed independently
    moved = np.moveaxis(A, axis, 0).reshape(ax["NE"], -1)
    smoved = np.moveaxis(sA, axis, 0).reshape(ax["NE"], -1)
    for c in range(moved.shape[1]):
        line = sm(moved[:, c].copy(), axis=0)
        if reldiff(line, smoved[:, c]) > TOL:
            raise Violation("axis-independence", f"line {c} along axis {axis} differs")
    # dispatch to void
    vm = case["void_mode"]
    if vm == "smear0":
        v = get_smoother(E, 0, "Gaussian")
    elif vm == "smear-neg":
        v = get_smoother(E, -1.0, "Fermi-Dirac")
    elif vm == "oneE":
        v = get_smoother(E[:1], 300, "Fermi-Dirac")
    elif vm == "Enone":
        v = get_smoother(None, 300, "Fermi-Dirac")
    else:
        v = get_smoother(E, None, "Gaussian")
    if not isinstance(v, VoidSmoother) or not np.array_equal(v(A, axis=axis), A):
        raise Violation("void-dispatch", vm)
    nt = ax["kind"] != "void" and ax["m"] >= 1
    return ok(nt, ax["kind"], f"axis={axis}", "NE1>=NE" if ax["m"] >= ax["NE"] else None)


SUBS = [
    Sub("compose", case_st, check_compose, quick=600, thorough=8000),
    Sub("laws", law_st, check_laws, quick=300, thorough=4000),
]
