"""C25  Spin doubling and spin-orbit assembly preserve the spectrum; rotated Pauli matrices obey the Pauli algebra
(DESIGN 4/C25)

Oracles (all harness-side numpy): explicit Fourier sums H(k) = sum_R exp(2 pi i k.R) H(R) of the generated
spin-up / spin-down / spinless models (vlib.wbsys.Model), `numpy.linalg.eigvalsh`, the harness' own rotated Pauli
matrices (matrix exponentials) and its own assembly of the 2n x 2n spin-orbit Hamiltonian (vlib.spinsoc.SocModel).
"""
import numpy as np
from hypothesis import strategies as st

from vlib.runner import Sub, Violation, ok
from vlib.util import fl, reldiff, maxabs
from vlib import wbsys, spinsoc

PROPERTY_ID = "C25"
RULE = ("sub 'double': random Hermitian spinless models (1-4 WFs, <=13 R-vectors, optional AA/BB/CC/GG matrices, 11 "
        "lattice families) -> double_spin(); sub 'soc': (up, down) model pairs on one lattice, one or two spin "
        "channels, down R-set same / independently drawn / same-size-but-different, centres same / different, "
        "spin-orbit term absent / scaled by 0 / full (own R-set, drawn dV matrices, alpha in [-2,2], axis (theta,phi) "
        "generic or special, radians or degrees), FFT grid [1..3]^3 with drawn shift; sub 'pauli': angles (theta,phi) "
        "generic, special and outside [0,2pi]. non-trivial: 'double' = >=2 R-vectors; 'soc' = up/down R-sets differ or "
        "a spin-orbit term with alpha != 0 and an axis that is not a multiple of pi/2; 'pauli' = theta and phi not "
        "multiples of pi/2")
ASSUMPTIONS = ["reference spectrum = numpy eigvalsh of the harness' explicit Fourier sum",
               "tolerance 1e-9 relative (DESIGN 2.3), 1e-12 for the 2x2 Pauli algebra",
               "hand-built SystemSOC: R-vectors and dV/overlap matrices are assigned the way SystemSOC.from_npz does; "
               "a SystemSOC without spin-orbit term gets _NKFFT_recommended=(1,1,1) because Grid() asks for it "
               "(DESIGN section 9 recipe)",
               "evaluate_k(...,'energy') reports the mean of every multiplet of bands closer than degen_thresh=1e-4 "
               "(documented tabulator behaviour); the reference is grouped the same way, a gap within 1e-7 of the threshold "
               "skips that observation; Data_K.E_K is compared without grouping",
               "eigenvector-dependent quantities are never compared, only spectra, Wannier-gauge matrices and "
               "derivative matrices rotated back with the returned eigenvectors"]
MIN_NONTRIVIAL = {"quick": 60, "thorough": 600}
TOL = 1e-9
TOLP = 1e-12

_nkfft = st.lists(st.integers(1, 3), min_size=3, max_size=3)
_dK = st.one_of(st.just([0.0, 0.0, 0.0]), st.lists(fl(0, 0.999), min_size=3, max_size=3))

# ------------------------------------------------------------------------------------------------
# spin doubling

double_st = st.fixed_dictionaries(dict(
    model=wbsys.model_params_st(max_wann=4, max_npairs=6, rmax=2, keys=("Ham",), optional_keys=("AA", "BB", "CC", "GG")),
    NKFFT=_nkfft, dK=_dK,
    kpts=st.lists(wbsys.kpoint_st(), min_size=3, max_size=3),
))


def _doubled(X):
    """harness' own interlaced doubling of a matrix X[..., n, n, cart...] given as (nR, n, n, ...)"""
    out = np.zeros((X.shape[0], 2 * X.shape[1], 2 * X.shape[2]) + X.shape[3:], dtype=complex)
    out[:, 0::2, 0::2] = X
    out[:, 1::2, 1::2] = X
    return out


def check_double(case):
    import wannierberri as wb
    from wannierberri.grid import Grid
    from wannierberri.data_K.data_K_R import Data_K_R
    model = wbsys.make_model(case["model"])
    n = model.nw
    s = wbsys.to_system(model, spinor=False)
    s.double_spin()
    if s.num_wann != 2 * n:
        raise Violation("double-num_wann", f"num_wann={s.num_wann} for {n} spinless orbitals")
    # --- spectrum: every band exactly twice
    for k in case["kpts"]:
        k = np.array(k)
        E = np.array(wb.evaluate_k(s, k=k, quantities=["energy"]))
        ref = spinsoc.tab_average(np.repeat(model.bands(k), 2))  # evaluate_k averages multiplets closer than 1e-4
        if ref is not None and (E.shape != ref.shape or reldiff(E, ref) > TOL):
            raise Violation("double-spectrum", f"k={k.tolist()}: got {E.tolist()} expected {ref.tolist()}")
    # --- Wannier-gauge matrices on an FFT grid: H(k) (x) 1 in interlaced order
    NKFFT = np.array(case["NKFFT"])
    dK = np.array(case["dK"], dtype=float)
    grid = Grid(s, NKdiv=1, NKFFT=NKFFT, use_symmetry=False)
    dk = Data_K_R(s, grid=grid, dK=dK.copy())
    kpts = wbsys.mp_points(NKFFT) + dK[None, :]
    refH = _doubled(np.array([model.Hk(k) for k in kpts]))
    if reldiff(np.array(dk.HH_K), refH) > TOL:
        raise Violation("double-HH_K", f"HH_K differs from H(k) (x) 1 by {reldiff(np.array(dk.HH_K), refH):.2e}")
    refE = np.array([np.repeat(model.bands(k), 2) for k in kpts])
    if reldiff(np.array(dk.E_K), refE) > TOL:
        raise Violation("double-spectrum", f"E_K on the FFT grid differs by {reldiff(np.array(dk.E_K), refE):.2e}")
    # --- real-space content: every matrix doubled on the same R-vectors, SS = delta_R0 delta_mn sigma
    got = wbsys.mats_by_R(wbsys.model_of_system(s))
    want = wbsys.mats_by_R(wbsys.Model(model.lattice, np.repeat(model.wcc_red, 2, axis=0), model.iRvec,
                                       {key: _doubled(X) for key, X in model.mats.items()}))
    for key in want:
        if key not in got:
            raise Violation("double-matrix-lost", key)
        if set(got[key]) != set(want[key]):
            raise Violation("double-Rvectors", f"{key}: R-vector set changed")
        for R in want[key]:
            if reldiff(got[key][R], want[key][R]) > 1e-14:
                raise Violation("double-matrix", f"{key}(R={R}) is not the interlaced doubling of the spinless matrix")
    extra = set(got) - set(want) - {"SS"}
    if extra:
        raise Violation("double-matrix-invented", str(sorted(extra)))
    if "SS" not in got:
        raise Violation("double-SS", "no spin matrix after double_spin()")
    for R, X in got["SS"].items():
        ref = np.zeros((2 * n, 2 * n, 3), dtype=complex)
        if R == (0, 0, 0):
            for m in range(n):
                for c in range(3):
                    ref[2 * m:2 * m + 2, 2 * m:2 * m + 2, c] = spinsoc.PAULI[c]
        if maxabs(X - ref) > 1e-14:
            raise Violation("double-SS", f"SS(R={R}) is not delta_R0 1 (x) sigma")
    # centres (both copies of the bookkeeping)
    wcc2 = np.repeat(model.wcc_red @ model.lattice, 2, axis=0)
    if reldiff(s.wannier_centers_cart, wcc2) > 1e-13 or reldiff(s.wannier_centers_red @ model.lattice, wcc2) > 1e-13 \
            or reldiff(s.rvec.shifts_left_red @ model.lattice, wcc2) > 1e-13:
        raise Violation("double-centres", "centres of the doubled system are not the doubled centres")
    if s.spinor is not True:
        raise Violation("double-spinor-flag", f"spinor={s.spinor}")
    nR = len(model.iRvec)
    return ok(nR >= 2, f"nw={n}", f"nR={min(nR, 9)}" if nR < 9 else "nR>=9", "keys=" + "+".join(sorted(model.mats)),
              case["model"]["lat"]["kind"])


# ------------------------------------------------------------------------------------------------
# spin-orbit assembly

soc_st = st.fixed_dictionaries(dict(
    pair=spinsoc.updown_st(max_wann=3, max_npairs=4, rmax=2),
    socmode=st.sampled_from(["full", "full", "full", "alpha0"]),
    oneside=st.sampled_from([False, False, True]),     # up/down hoppings listed for one direction only (R without -R)
    NKFFT=_nkfft, dK=_dK,
    kpts=st.lists(wbsys.kpoint_st(), min_size=2, max_size=2),
))


def _unrotate(dk, X):
    U = np.array(dk.UU_K)
    return np.einsum("kab,kbc...,kdc->kad...", U, np.array(X), U.conj())


def _special(x):
    r = (x / (np.pi / 2)) % 1.0
    return min(r, 1 - r) < 1e-6


def check_soc(case):
    import wannierberri as wb
    from wannierberri.grid import Grid
    from wannierberri.data_K import get_data_k_class_from_system
    from wannierberri.data_K.data_K_soc import Data_K_soc
    from wannierberri.w90files.soc import SOC
    p = dict(case["pair"])
    if p["soc"] is not None and case["socmode"] == "alpha0":
        p["soc"] = dict(p["soc"], alpha=0.0)
    p["oneside"] = bool(case.get("oneside", False))
    sm = spinsoc.SocModel(p)
    n = sm.n
    soc = spinsoc.build_soc_system(sm)

    def herm(X):
        X = np.asarray(X)
        return 0.5 * (X + np.conj(np.swapaxes(X, 0, 1)))
    if get_data_k_class_from_system(soc) is not Data_K_soc:
        raise Violation("soc-dispatch", "SystemSOC is not evaluated by Data_K_soc")
    if soc.num_wann != 2 * n:
        raise Violation("soc-num_wann", f"{soc.num_wann} != 2*{n}")
    no_soc = (not sm.has_soc) or sm.alpha == 0.0
    ref_model = sm.merged()  # harness' own rotated Pauli matrices
    # interlaced centres
    if reldiff(soc.wannier_centers_cart, sm.wcc_red @ sm.lattice) > 1e-13:
        raise Violation("soc-centres", "centres are not the interlaced up/down centres")
    # --- single k-points through evaluate_k
    for k in case["kpts"]:
        k = np.array(k)
        E = np.array(wb.evaluate_k(soc, k=k, quantities=["energy"]))
        ref = spinsoc.tab_average(np.sort(ref_model.bands(k)))  # evaluate_k averages multiplets closer than 1e-4
        if ref is not None and (E.shape != ref.shape or reldiff(E, ref) > TOL):
            raise Violation("soc-spectrum", f"evaluate_k at k={k.tolist()} differs from own H_soc spectrum by "
                            f"{reldiff(E, ref):.2e} (has_soc={sm.has_soc})")
        refu = spinsoc.tab_average(sm.union_bands(k))
        if no_soc and refu is not None and reldiff(E, refu) > TOL:
            raise Violation("nosoc-union", f"k={k.tolist()}: spectrum is not the union of the up and down spectra")
    # --- FFT grid with shift
    NKFFT = np.array(case["NKFFT"])
    dK = np.array(case["dK"], dtype=float)
    kpts = wbsys.mp_points(NKFFT) + dK[None, :]
    grid = Grid(soc, NKdiv=1, NKFFT=NKFFT, use_symmetry=False)
    dk = Data_K_soc(soc, grid=grid, dK=dK.copy())
    E = np.array(dk.E_K)
    refE = np.array([np.sort(ref_model.bands(k)) for k in kpts])
    if E.shape != refE.shape or reldiff(E, refE) > TOL:
        raise Violation("soc-spectrum", f"Data_K_soc.E_K differs from own H_soc spectrum by {reldiff(E, refE):.2e}")
    if no_soc:
        refU = np.array([sm.union_bands(k) for k in kpts])
        if reldiff(E, refU) > TOL:
            raise Violation("nosoc-union", f"E_K is not the union of the up/down spectra ({reldiff(E, refU):.2e})")
    # Wannier-gauge Hamiltonian: same assembly, with the code's own rotated Pauli matrices (their algebra is sub 'pauli')
    if sm.has_soc:
        P = np.array(SOC.get_pauli_rotated(theta=sm.theta, phi=sm.phi)).transpose(2, 0, 1)
        gauge_model = sm.merged(pauli=P)
    else:
        gauge_model = ref_model
    refH = np.array([herm(gauge_model.Hk(k)) for k in kpts])
    HH = np.array(dk.HH_K)
    if reldiff(HH, refH) > TOL:
        raise Violation("soc-HH_K", f"Data_K_soc.HH_K differs from the own assembly by {reldiff(HH, refH):.2e}")
    if reldiff(HH, np.conj(np.swapaxes(HH, 1, 2))) > 1e-13:
        raise Violation("soc-HH_K-hermiticity", "HH_K not Hermitian")
    refdH = np.array([herm(gauge_model.Xk("Ham", k, der=1)) for k in kpts])
    dH = _unrotate(dk, dk.Xbar("Ham", 1))
    # (one-sided lists: only the Hamiltonian itself is made Hermitian by the code, its k-derivative is not - the
    # derivative clauses are asserted for closed lists only)
    if not p["oneside"] and reldiff(dH, refdH) > TOL:
        raise Violation("soc-dH", f"Xbar('Ham',1) rotated back differs from the own derivative by {reldiff(dH, refdH):.2e}")
    labels = [f"nspin={sm.nspin}", "R-sets-differ" if sm.Rsets_differ else None,
              "R-counts-differ" if sm.Rcounts_differ else None, "rmode=" + p["rmode"],
              "no-soc-term" if not sm.has_soc else ("alpha=0" if sm.alpha == 0 else "soc"), f"nw={n}",
              "one-sided-R-lists" if p["oneside"] else None]
    # --- plain real-space system derived from the spin-orbit system
    generic_axis = False
    if sm.has_soc:
        generic_axis = not (_special(sm.theta) and _special(sm.phi))
        labels.append("generic-axis" if generic_axis else "special-axis")
        labels.append(p["soc"]["units"])
        plain = soc.get_system_R()
        if plain.num_wann != 2 * n:
            raise Violation("plain-num_wann", f"{plain.num_wann}")
        if reldiff(plain.wannier_centers_cart, sm.wcc_red @ sm.lattice) > 1e-13 or \
                reldiff(plain.rvec.shifts_left_red @ sm.lattice, sm.wcc_red @ sm.lattice) > 1e-13:
            raise Violation("plain-centres", "centres of get_system_R() differ from those of the spin-orbit system")
        pm = wbsys.model_of_system(plain)
        if len({tuple(R) for R in pm.iRvec.tolist()}) != len(pm.iRvec):
            raise Violation("plain-duplicate-R", "duplicate R-vectors in get_system_R()")
        for k in list(kpts[:4]) + [np.array(k) for k in case["kpts"]]:
            d = reldiff(herm(pm.Hk(k)), herm(gauge_model.Hk(k)))
            if d > TOL:
                raise Violation("plain-H", f"explicit Fourier sum of get_system_R().Ham at k={np.asarray(k).tolist()} "
                                f"differs from the spin-orbit Hamiltonian by {d:.2e}")
        gridp = Grid(plain, NKdiv=1, NKFFT=NKFFT, use_symmetry=False)
        dkp = get_data_k_class_from_system(plain)(plain, grid=gridp, dK=dK.copy())
        if reldiff(np.array(dkp.HH_K), HH) > TOL:
            raise Violation("plain-HH_K", f"Data_K_R.HH_K of get_system_R() differs from Data_K_soc.HH_K by "
                            f"{reldiff(np.array(dkp.HH_K), HH):.2e}")
        if reldiff(np.array(dkp.E_K), refE) > TOL:
            raise Violation("plain-spectrum", f"{reldiff(np.array(dkp.E_K), refE):.2e}")
        dHp = _unrotate(dkp, dkp.Xbar("Ham", 1))
        if not p["oneside"] and reldiff(dHp, refdH) > TOL:
            raise Violation("plain-dH", f"k-derivative of the plain Hamiltonian differs by {reldiff(dHp, refdH):.2e}")
    nontrivial = sm.Rsets_differ or (sm.has_soc and sm.alpha != 0 and generic_axis)
    return ok(nontrivial, *labels)


# ------------------------------------------------------------------------------------------------
# rotated Pauli matrices

pauli_st = st.fixed_dictionaries(dict(theta=st.one_of(spinsoc.theta_st, fl(-6.3, 12.6)), phi=spinsoc.phi_st))


def check_pauli(case):
    from wannierberri.w90files.soc import SOC
    theta, phi = float(case["theta"]), float(case["phi"])
    P = np.array(SOC.get_pauli_rotated(theta=theta, phi=phi))
    if P.shape != (2, 2, 3):
        raise Violation("pauli-shape", str(P.shape))
    S = P.transpose(2, 0, 1)  # S[c] = sigma'_c
    for a in range(3):
        if maxabs(S[a] - S[a].conj().T) > TOLP:
            raise Violation("pauli-hermitian", f"sigma'_{a} not Hermitian (theta={theta}, phi={phi})")
        if abs(np.trace(S[a])) > TOLP:
            raise Violation("pauli-traceless", f"tr sigma'_{a} = {np.trace(S[a])}")
        for b in range(3):
            rhs = (a == b) * np.eye(2) + 1j * sum(spinsoc.EPS[a, b, c] * S[c] for c in range(3))
            if maxabs(S[a] @ S[b] - rhs) > TOLP:
                raise Violation("pauli-algebra", f"sigma'_{a} sigma'_{b} != delta + i eps sigma' (theta={theta}, phi={phi})")
    nvec = spinsoc.axis_of(theta, phi)
    Sn = np.einsum("c,cij->ij", nvec, S)
    if maxabs(Sn - np.diag([1.0, -1.0])) > TOLP:
        raise Violation("pauli-axis", f"n.sigma' = {Sn.tolist()} is not diag(+1,-1) for theta={theta}, phi={phi}")
    C = np.array(SOC.get_C_ss(theta=theta, phi=phi))
    if maxabs(C.conj().T @ C - np.eye(2)) > TOLP:
        raise Violation("C_ss-unitary", f"theta={theta}, phi={phi}")
    # the columns of C_ss are the +/- spinors along n
    if maxabs(np.einsum("c,cij->ij", nvec, spinsoc.PAULI) @ C - C @ np.diag([1.0, -1.0])) > TOLP:
        raise Violation("C_ss-eigenvectors", f"columns of C_ss are not the spin eigenstates along n (theta={theta}, phi={phi})")
    # spectrum-level agreement with the harness' own rotation (gauge independent): sigma'_c have eigenvalues +-1
    own = spinsoc.own_rotated_pauli(theta, phi)
    for c in range(3):
        if maxabs(np.linalg.eigvalsh(S[c]) - np.linalg.eigvalsh(own[c])) > TOLP:
            raise Violation("pauli-eigenvalues", f"sigma'_{c}")
    generic = not _special(theta) and not _special(phi)
    return ok(generic, "generic" if generic else "special", "theta-outside[0,pi]" if not 0 <= theta <= np.pi else None,
              "phi-outside[0,2pi]" if not 0 <= phi <= 2 * np.pi else None)


SUBS = [
    Sub("double", double_st, check_double, quick=120, thorough=1600, budget_quick=75, budget_thorough=500),
    Sub("soc", soc_st, check_soc, quick=240, thorough=4000, budget_quick=75, budget_thorough=500),
    Sub("pauli", pauli_st, check_pauli, quick=400, thorough=6000, budget_quick=75, budget_thorough=500),
]
