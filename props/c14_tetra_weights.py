"""C14  Tetrahedron weights equal the exact linear-tetrahedron volume fractions  (DESIGN 4/C14)

Oracle: the fraction F(E) of the volume of a tetrahedron on which the linear interpolant of the four corner
energies is <= E, evaluated in exact rational arithmetic (fractions.Fraction) from the very floats handed to
the code.  Two independent closed forms are implemented here and cross-checked against each other on every case
with distinct corners (piecewise Bloechl form, valid for any degeneracy; truncated-power / divided-difference
form, distinct corners only).

Bracketing (soundness for coincident corners): weights_tetra lifts corners that are closer than 1e-12 so that
consecutive sorted corners differ by >= 1e-12.  Every lifted corner e'_i satisfies e_i <= e'_i <= e_i + delta with
delta = 3e-12 + rounding.  F is non-increasing in every corner energy and F_{e+delta}(E) = F_e(E-delta), hence a
correct implementation returns w with  F_e(E - delta) - tol <= w <= F_e(E) + tol.  When all gaps are >= 2e-12
nothing is lifted and delta = 0 (two-sided comparison to rounding).
"""
import itertools
from fractions import Fraction

import numpy as np
from hypothesis import strategies as st

from vlib.runner import Sub, Violation, ok
from vlib.util import fl
from vlib import wbsys

PROPERTY_ID = "C14"
RULE = ("four corner energies built from a base value (|E|<=1e3, optional +-1e4 offset) and three sorted gaps, each "
        "exactly 0, tiny (1e-13..1e-6) or normal (1e-3..3 times a scale 1e-3..1e2), in a drawn corner order; Fermi levels "
        "on corners, inside every piece, just beside corners and far outside; Fermi grids starting / ending exactly at a band top / bottom; der 0..3 and -1 (groups), accurate and "
        "polynomial branch; parallelepipeds (8 corners + centre) and TetraWeights band groups; small random "
        "tight-binding systems for CumDOS(tetra=True).  non-trivial = >=2 coincident / near-coincident corners or a "
        "Fermi level in the middle piece e2 <= E_F < e3")
ASSUMPTIONS = ["|corner energies| <= 1.2e4 eV (above 16384 the 1e-12 lifting is below the float spacing and the polynomial "
               "branch divides by zero for exactly coincident corners - unphysical magnitudes, not generated)",
               "polynomial branch (accurate=False or der>=1) is compared only where its own rounding-error bound "
               "64*u*sum|terms| is below 1e-3 (der=0) resp. 1e-6 of the natural scale (der>=1); der>=1 only when no corner is lifted",
               "third derivative at a corner energy is one-sided: either side accepted",
               "a parallelepiped is 6 centre-based pyramids, each split in two tetrahedra along either face diagonal "
               "(all 64 choices accepted; the code uses the (00)-(11) diagonal of each face)",
               "band energies are sorted at the centre and at every corner (eigvalsh output) in TetraWeights"]
MIN_NONTRIVIAL = {"quick": 200, "thorough": 2000}
U = 2.0 ** -53
TOL_ACC = 1e-13

# ------------------------------------------------------------------------------------------------
# exact reference


def F_piece(E, e):
    """exact occupied fraction; e = sorted Fractions, any degeneracy (Bloechl's piecewise form)"""
    e1, e2, e3, e4 = e
    if E >= e4:
        return Fraction(1)
    if E < e1:
        return Fraction(0)
    if E < e2:
        return (E - e1) ** 3 / ((e2 - e1) * (e3 - e1) * (e4 - e1))
    if E < e3:
        x = E - e2
        A = e2 - e1
        C = (e3 - e1) * (e4 - e1)
        B = ((e3 - e1) + (e4 - e2)) / ((e3 - e2) * (e4 - e2))
        return (A * A + 3 * A * x + 3 * x * x - B * x ** 3) / C
    return 1 - (e4 - E) ** 3 / ((e4 - e1) * (e4 - e2) * (e4 - e3))


_FALL = {0: 1, 1: 3, 2: 6, 3: 6}


def F_tp(E, e, der=0, right=True):
    """truncated-power form  sum_{e_i <= E} (E-e_i)^3 / prod_{j != i}(e_j - e_i)  and its derivatives, DISTINCT corners.
    right=True: right-continuous (terms with e_i <= E), False: left limit (e_i < E)"""
    tot = Fraction(0)
    for i in range(4):
        if (e[i] <= E) if right else (e[i] < E):
            den = Fraction(1)
            for j in range(4):
                if j != i:
                    den *= (e[j] - e[i])
            tot += _FALL[der] * (E - e[i]) ** (3 - der) / den
    return tot


def spacing(x):
    return float(np.spacing(abs(float(x)) + 1.0))


def lift_delta(ef_sorted):
    """(delta, lifted?) for exact sorted corner Fractions"""
    gaps = [ef_sorted[i + 1] - ef_sorted[i] for i in range(3)]
    if min(gaps) >= Fraction(2, 10 ** 12):
        return Fraction(0), False
    m = max(abs(ef_sorted[0]), abs(ef_sorted[3]))
    return Fraction(35, 10 ** 13) + 2 * Fraction(spacing(m)), True


def bracket(E, e, delta):
    hi = F_piece(E, e)
    lo = hi if delta == 0 else F_piece(E - delta, e)
    return lo, hi


def piece_index(E, e):
    if E >= e[3]:
        return 4
    if E < e[0]:
        return 0
    if E < e[1]:
        return 1
    if E < e[2]:
        return 2
    return 3


def poly_cond(Ef, ef, der):
    """upper bound of the sum of absolute values of all terms the polynomial branch adds up (float inputs)"""
    e1, e2, e3, e4 = ef
    M = max(abs(e1), abs(e4), abs(Ef))
    p = piece_index(Ef, ef)
    d = max(der, 0)
    if p == 1:
        D = (e2 - e1) * (e3 - e1) * (e4 - e1)
        return _FALL[d] * (2 * M) ** (3 - d) / D
    if p == 3:
        D = (e4 - e1) * (e4 - e2) * (e4 - e3)
        return _FALL[d] * (2 * M) ** (3 - d) / D + (1.0 if d == 0 else 0.0)
    if p == 2:
        D = (e3 - e1) * (e4 - e1) * (e3 - e2) * (e4 - e2)
        return (52.0 if d == 0 else 312.0) * M ** (4 - d) / D
    return 0.0


# ------------------------------------------------------------------------------------------------
# generators

_TINY = [1e-13, 3e-13, 9e-13, 1e-12, 1.5e-12, 2.5e-12, 5e-12, 1e-11, 1e-10, 1e-9, 1e-8, 1e-7, 1e-6]
gap_st = st.one_of(
    st.fixed_dictionaries(dict(k=st.just("zero"))),
    st.fixed_dictionaries(dict(k=st.just("tiny"), v=st.sampled_from(_TINY))),
    st.fixed_dictionaries(dict(k=st.just("normal"), v=fl(0.001, 3.0))),
    st.fixed_dictionaries(dict(k=st.just("normal"), v=fl(0.001, 3.0))),
    st.fixed_dictionaries(dict(k=st.just("normal"), v=fl(0.001, 3.0))),
    st.fixed_dictionaries(dict(k=st.just("normal"), v=st.sampled_from([0.5, 1.0, 2.0]))),
)

corners_st = st.fixed_dictionaries(dict(
    E0=st.one_of(fl(-3, 3), fl(-1000, 1000), st.sampled_from([0.0, 1.0, -0.5])),
    off=st.sampled_from([0.0, 0.0, 0.0, 1e4, -1e4]),
    scale=st.sampled_from([1e-3, 0.1, 1.0, 1.0, 1.0, 100.0]),
    gaps=st.lists(gap_st, min_size=3, max_size=3),
    perm=st.permutations([0, 1, 2, 3]),
))

ef_item_st = st.one_of(
    st.fixed_dictionaries(dict(k=st.just("corner"), i=st.integers(0, 3))),
    st.fixed_dictionaries(dict(k=st.just("piece"), i=st.integers(0, 2), f=st.sampled_from([0.5, 0.25, 0.75, 0.1, 0.9, 0.001, 0.999]))),
    st.fixed_dictionaries(dict(k=st.just("piece"), i=st.integers(0, 2), f=fl(0.0, 1.0))),
    st.fixed_dictionaries(dict(k=st.just("beside"), i=st.integers(0, 3), d=st.sampled_from([-1e-11, -3e-12, -1e-12, -1e-13, 1e-13, 1e-12, 3e-12, 1e-11, 1e-6, -1e-6]))),
    st.fixed_dictionaries(dict(k=st.just("out"), d=st.sampled_from([-1e3, -1.0, -1e-3, 1e-3, 1.0, 1e3]))),
)


def corner_values(c):
    """sorted float corners"""
    x = float(c["E0"]) + float(c["off"])
    e = [x]
    for g in c["gaps"]:
        if g["k"] == "zero":
            step = 0.0
        elif g["k"] == "tiny":
            step = g["v"]
        else:
            step = g["v"] * c["scale"]
        x = x + step
        e.append(x)
    return [float(v) for v in e]


def fermi_values(items, es):
    out = []
    for it in items:
        if it["k"] == "corner":
            v = es[it["i"]]
        elif it["k"] == "piece":
            a, b = es[it["i"]], es[it["i"] + 1]
            v = a + it["f"] * (b - a)
        elif it["k"] == "beside":
            v = es[it["i"]] + it["d"]
        else:
            v = (es[0] + it["d"]) if it["d"] < 0 else (es[3] + it["d"])
        out.append(float(v))
    return sorted(out)


weights_case_st = st.fixed_dictionaries(dict(
    c=corners_st,
    ef=st.lists(ef_item_st, min_size=1, max_size=8),
    der=st.sampled_from([0, 0, 0, 1, 2, 3]),
    accurate=st.sampled_from([True, True, False]),
    # the order in which the Fermi levels are handed over ("all Fermi-level arrays": not only ascending ones)
    eforder=st.sampled_from(["asc", "asc", "desc", "shuffle"]),
    efseed=st.integers(0, 2 ** 16),
))


# ------------------------------------------------------------------------------------------------
# sub: weights (single tetrahedron)

def _nontrivial_single(es, efs):
    close = any(es[i + 1] - es[i] < 1e-6 for i in range(3))
    middle = any(es[1] <= x < es[2] for x in efs)
    return close or middle


def check_weights(case):
    from wannierberri.grid.tetrahedron import weights_tetra
    es = corner_values(case["c"])
    perm = case["c"]["perm"]
    given = [es[i] for i in perm]
    efs = fermi_values(case["ef"], es)
    eford = case.get("eforder", "asc")
    order = np.arange(len(efs))
    if eford == "desc":
        order = order[::-1].copy()
    elif eford == "shuffle":
        order = np.random.default_rng(case.get("efseed", 0)).permutation(len(efs))
    efarr = np.array(efs, dtype=float)[order]     # the array as handed to the code; results are mapped back below
    der = case["der"]
    acc = case["accurate"]
    kw = dict(der=der) if acc else dict(der=der, accurate=False)  # accurate omitted = the call made by TetraWeights
    w_given = weights_tetra(efarr.copy(), given[0], given[1], given[2], given[3], **kw)
    w_given = np.array(w_given, dtype=float)
    if w_given.shape != efarr.shape:
        raise Violation("shape", f"{w_given.shape} != {efarr.shape}")
    w = np.empty_like(w_given)
    w[order] = w_given          # w[i] belongs to the i-th smallest Fermi level efs[i]
    # each Fermi level is treated on its own: the same values in ascending order give the same weights
    if eford != "asc":
        w_asc = np.array(weights_tetra(np.array(efs, dtype=float), given[0], given[1], given[2], given[3], **kw), dtype=float)
        if not np.array_equal(w_asc, w, equal_nan=True):
            raise Violation("fermi-level-order", f"corners={given} der={der} accurate={acc}: levels {efarr.tolist()} give "
                                                 f"{w_given.tolist()}, the same levels ascending give {w_asc.tolist()}")
    desc = f"corners={given} ef={efs} der={der} accurate={acc}"
    # --- bitwise independence of the corner order (the code sorts first: same arithmetic on same numbers)
    for p in itertools.permutations(range(4)):
        g2 = [es[i] for i in p]
        w2 = weights_tetra(efarr.copy(), g2[0], g2[1], g2[2], g2[3], **kw)
        if not np.array_equal(np.asarray(w2), w_given, equal_nan=True):
            raise Violation("corner-order", f"{desc}: order {g2} gives {np.asarray(w2).tolist()} instead of {w.tolist()}")
    eF = [Fraction(x) for x in es]
    delta, lifted = lift_delta(eF)
    distinct = eF[0] < eF[1] < eF[2] < eF[3]
    labels = [f"der={der}", "accurate" if acc else "poly", "lifted" if lifted else "no-lift",
              "fully-degenerate" if eF[0] == eF[3] else None,
              f"nequal={sum(1 for i in range(3) if eF[i] == eF[i + 1])}"]
    compared = 0
    illcond = 0
    usespoly = (not acc) or der > 0
    for x, wx in zip(efs, w):
        X = Fraction(x)
        p = piece_index(X, eF)
        if distinct:
            a, b = F_piece(X, eF), F_tp(X, eF)
            if a != b:
                raise RuntimeError(f"harness: the two exact forms disagree for {es} at {x}: {a} vs {b}")
        if not np.isfinite(wx):
            raise Violation("non-finite", f"{desc}: weight {wx} at ef={x}")
        if der == 0:
            lo, hi = bracket(X, eF, delta)
            if usespoly:
                # the polynomial branch works on the lifted corners; use them only for the conditioning bound
                ef_l = list(es)
                for i in range(3):
                    if ef_l[i + 1] - ef_l[i] < 1e-12:
                        ef_l[i + 1] = ef_l[i] + 1e-12
                if ef_l[0] == ef_l[1] or ef_l[1] == ef_l[2] or ef_l[2] == ef_l[3]:
                    illcond += 1
                    continue
                tol = 64 * U * poly_cond(x, ef_l, 0) + TOL_ACC
                if tol > 1e-3:
                    illcond += 1
                    continue
            else:
                tol = TOL_ACC
                if wx < -1e-14 or wx > 1 + 1e-14:
                    raise Violation("outside-[0,1]", f"{desc}: w={wx!r} at ef={x}")
            if wx < float(lo) - tol or wx > float(hi) + tol:
                kind = "accurate" if acc else "poly"
                raise Violation(f"der0-{kind}-piece{p}" + ("-lifted" if lifted else ""),
                                f"{desc}: w={wx!r} at ef={x!r}, exact fraction in [{float(lo)!r}, {float(hi)!r}] tol={tol:.1e}")
            compared += 1
        else:
            if p == 0 or X >= eF[3] + delta:
                # outside the (possibly lifted) corner range every derivative vanishes identically
                if wx != 0.0:
                    raise Violation(f"der{der}-outside-nonzero", f"{desc}: {wx!r} at ef={x!r} outside the corner range")
                compared += 1
                continue
            if lifted or not distinct:
                illcond += 1
                continue
            W = es[3] - es[0]
            exact_r = F_tp(X, eF, der=der, right=True)
            exact_l = F_tp(X, eF, der=der, right=False)
            tol = 64 * U * poly_cond(x, es, der)
            natural = max(abs(float(exact_r)), 1.0 / W ** der)
            if tol > 1e-6 * natural:
                illcond += 1
                continue
            cands = [float(exact_r)] + ([float(exact_l)] if (der == 3 and exact_l != exact_r) else [])
            if min(abs(wx - c) for c in cands) > tol + 4 * U * abs(cands[0]):
                raise Violation(f"der{der}-piece{p}", f"{desc}: got {wx!r} at ef={x!r}, exact derivative {cands} tol={tol:.1e}")
            compared += 1
    # --- monotone in the Fermi level (accurate branch; efs sorted)
    if der == 0 and acc and len(w) > 1:
        dw = np.diff(w)
        if dw.min() < -1e-15:
            raise Violation("not-monotone", f"{desc}: w={w.tolist()}")
    # --- integral of the first derivative over all pieces = 1 (3-point Gauss per piece, exact for quadratics)
    if der == 1 and distinct and not lifted:
        tol_int = 0.0
        nodes = []
        wts = []
        g = np.sqrt(0.6)
        for i in range(3):
            a, b = es[i], es[i + 1]
            c, h = 0.5 * (a + b), 0.5 * (b - a)
            for t, q in ((-g, 5 / 9), (0.0, 8 / 9), (g, 5 / 9)):
                xx = c + h * t
                if not (a < xx < b):
                    nodes = None
                    break
                nodes.append(xx)
                wts.append(q * h)
                tol_int += q * h * 64 * U * poly_cond(xx, es, 1)
            if nodes is None:
                break
        if nodes is not None and tol_int < 1e-6:
            vals = np.asarray(weights_tetra(np.array(nodes), given[0], given[1], given[2], given[3], der=1))
            tot = float(np.dot(vals, wts))
            if abs(tot - 1.0) > tol_int + 1e-12:
                raise Violation("integral-of-der1", f"{desc}: Gauss integral of dw/dE over the three pieces = {tot!r}")
            labels.append("integral-checked")
    labels.append("compared" if compared else "nothing-compared")
    if illcond:
        labels.append("some-illconditioned")
    pieces = {piece_index(Fraction(x), eF) for x in efs}
    labels += [f"piece{p}" for p in sorted(pieces)]
    return ok(_nontrivial_single(es, efs) and compared > 0, *labels)


# ------------------------------------------------------------------------------------------------
# sub: parallelepiped (TetraWeightsParal)

paral_st = st.fixed_dictionaries(dict(
    kind=st.sampled_from(["random", "random", "generic", "flat", "pairs", "layers", "near-flat"]),
    rs=st.integers(0, 2 ** 32),
    E0=fl(-5, 5), scale=st.sampled_from([1e-3, 1.0, 1.0, 30.0]),
    vals=st.lists(fl(-1, 1), min_size=9, max_size=9),
    tiny=st.sampled_from([1e-13, 1e-12, 1e-10, 1e-7]),
    ef=st.lists(st.one_of(
        st.fixed_dictionaries(dict(k=st.just("on"), i=st.integers(0, 8))),
        st.fixed_dictionaries(dict(k=st.just("mix"), i=st.integers(0, 8), j=st.integers(0, 8), f=fl(0, 1))),
        st.fixed_dictionaries(dict(k=st.just("out"), d=st.sampled_from([-1.0, -1e-9, 1e-9, 1.0]))),
    ), min_size=1, max_size=6),
    der=st.sampled_from([0, 0, 0, 1, 2]),
))


def paral_energies(case):
    v = np.array(case["vals"], dtype=float)
    k = case["kind"]
    if k == "random":
        from vlib.util import rng_of
        v = rng_of(case["rs"]).uniform(-1, 1, size=9)
    elif k == "flat":
        v = np.zeros(9)
    elif k == "pairs":
        v = np.round(v * 2) / 2
    elif k == "layers":
        # energy depends on one coordinate only: four corners share each of two values, centre in between
        v = np.array([v[0]] * 4 + [v[1]] * 4 + [0.5 * (v[0] + v[1])])
    elif k == "near-flat":
        v = np.round(v) * case["tiny"]
    e = case["E0"] + case["scale"] * v
    return e[:8].reshape(2, 2, 2).copy(), float(e[8])


def paral_tetrahedra(corner, centre):
    """own list: for each of the 6 faces the two ways (diagonals) to split it into two triangles, each triangle + centre"""
    faces = []
    for ax in range(3):
        for side in (0, 1):
            def E(a, b):
                idx = [a, b]
                idx.insert(ax, side)
                return float(corner[tuple(idx)])
            diag_a = [(centre, E(0, 0), E(1, 1), E(0, 1)), (centre, E(0, 0), E(1, 1), E(1, 0))]
            diag_b = [(centre, E(0, 1), E(1, 0), E(0, 0)), (centre, E(0, 1), E(1, 0), E(1, 1))]
            faces.append((diag_a, diag_b))
    return faces


def check_paral(case):
    from wannierberri.grid.tetrahedron import TetraWeightsParal
    corner, centre = paral_energies(case)
    allE = sorted(list(corner.reshape(-1)) + [centre])
    efs = []
    for it in case["ef"]:
        if it["k"] == "on":
            efs.append(allE[it["i"]])
        elif it["k"] == "mix":
            efs.append(allE[it["i"]] + it["f"] * (allE[it["j"]] - allE[it["i"]]))
        else:
            efs.append(allE[0] + it["d"] if it["d"] < 0 else allE[-1] + it["d"])
    efs = sorted(float(x) for x in efs)
    efarr = np.array(efs)
    der = case["der"]
    tw = TetraWeightsParal(eCenter=np.array([[centre]]), eCorners=corner.reshape(1, 2, 2, 2, 1).copy())
    w = np.asarray(tw.weight_1k1b_priv(efarr.copy(), 0, 0, der), dtype=float)
    desc = f"corners={corner.tolist()} centre={centre} ef={efs} der={der}"
    if w.shape != efarr.shape or not np.all(np.isfinite(w)):
        raise Violation("paral-shape-or-nan", f"{desc}: {w.tolist()}")
    faces = paral_tetrahedra(corner, centre)
    compared = 0
    any_lift = False
    for x, wx in zip(efs, w):
        X = Fraction(x)
        if x < allE[0] or x >= allE[-1]:
            if der == 0 and x >= allE[-1] + 1e-11 and wx != 1.0:
                raise Violation("paral-full", f"{desc}: w={wx!r} above all energies")
            if x < allE[0] and wx != 0.0:
                raise Violation("paral-empty", f"{desc}: w={wx!r} below all energies")
            if der > 0 and x >= allE[-1] + 1e-11 and wx != 0.0:
                raise Violation("paral-der-outside", f"{desc}: {wx!r} above all energies")
        if der != 0:
            continue
        opts = []
        for diag_a, diag_b in faces:
            fo = []
            for tets in (diag_a, diag_b):
                lo = hi = Fraction(0)
                for t in tets:
                    eF = sorted(Fraction(v) for v in t)
                    delta, lifted = lift_delta(eF)
                    any_lift = any_lift or lifted
                    l, h = bracket(X, eF, delta)
                    lo += l
                    hi += h
                fo.append((lo, hi))
            opts.append(fo)
        good = False
        for choice in itertools.product((0, 1), repeat=6):
            lo = sum(opts[f][c][0] for f, c in enumerate(choice)) / 12
            hi = sum(opts[f][c][1] for f, c in enumerate(choice)) / 12
            if float(lo) - 1e-12 <= wx <= float(hi) + 1e-12:
                good = True
                break
        if not good:
            lo = sum(opts[f][0][0] for f in range(6)) / 12
            hi = sum(opts[f][0][1] for f in range(6)) / 12
            raise Violation("paral-weight", f"{desc}: w={wx!r} at ef={x!r}; 12-tetrahedra mean (00-11 diagonals) in "
                                            f"[{float(lo)!r},{float(hi)!r}], no other face-diagonal choice matches either")
        compared += 1
    if der == 0 and len(w) > 1 and np.diff(w).min() < -1e-15:
        raise Violation("paral-not-monotone", f"{desc}: {w.tolist()}")
    inside = any(allE[0] <= x < allE[-1] for x in efs)
    return ok(inside and (der == 0), case["kind"], f"der={der}", "lifted" if any_lift else None,
              "compared" if compared else None)


# ------------------------------------------------------------------------------------------------
# sub: band groups, sea / anti-sea completion  (TetraWeights.weights_all_band_groups)

groups_st = st.fixed_dictionaries(dict(
    nk=st.integers(1, 2), nb=st.integers(1, 5),
    rs=st.integers(0, 2 ** 32),
    width=st.sampled_from([0.05, 0.5, 2.0]),
    sep=st.sampled_from([0.0, 0.3, 1.0, 3.0]),
    degpat=st.lists(st.sampled_from(["far", "far", "same", "close"]), min_size=4, max_size=4),
    thresh=st.sampled_from([-1, -1, 1e-4, 1e-2]),
    kramers=st.booleans(),
    der=st.sampled_from([0, 0, 0, -1, -1, 1, 2]),
    nef=st.integers(1, 7), ef0=fl(-4, 8), efstep=st.sampled_from([0.01, 0.3, 1.0, 4.0]),
    # Fermi grids that start exactly at the top of a band / end exactly at the bottom of a band (over centre and corners
    # of the first k-point): a grid that starts at the valence-band maximum is an everyday choice
    tie=st.sampled_from([None, None, None, "first=top", "last=bottom", "first=bottom", "last=top"]), tieband=st.integers(0, 4),
))


def build_groups(case):
    from vlib.util import rng_of
    rng = rng_of(case["rs"])
    nk, nb = case["nk"], case["nb"]
    if case["kramers"] and nb % 2:
        nb += 1
    centre = np.zeros((nk, nb))
    corners = np.zeros((nk, 4, nb))
    for ik in range(nk):
        base = 0.0
        for ib in range(nb):
            if ib > 0:
                pat = case["degpat"][(ib - 1) % 4]
                if pat == "same":
                    centre[ik, ib] = centre[ik, ib - 1]
                    corners[ik, :, ib] = corners[ik, :, ib - 1]
                    continue
                if pat == "close":
                    centre[ik, ib] = centre[ik, ib - 1] + 1e-5
                    corners[ik, :, ib] = corners[ik, :, ib - 1] + rng.uniform(0, 2e-5, size=4)
                    continue
                base = base + case["sep"] + rng.uniform(0.05, 0.5)
            c = base + rng.uniform(-1, 1, size=4) * case["width"]
            corners[ik, :, ib] = c
            centre[ik, ib] = c.mean() + rng.uniform(-0.2, 0.2) * case["width"]
        # enforce the precondition: sorted along the band axis at the centre and at each corner
        corners[ik] = np.sort(corners[ik], axis=1)
        centre[ik] = np.sort(centre[ik])
    ef = case["ef0"] + case["efstep"] * np.arange(case["nef"])
    if case.get("tie"):
        ib = case["tieband"] % nb
        top = max(float(corners[0, :, ib].max()), float(centre[0, ib]))
        bot = min(float(corners[0, :, ib].min()), float(centre[0, ib]))
        v = top if case["tie"].endswith("top") else bot
        if case["tie"].startswith("first"):
            ef = v + case["efstep"] * np.arange(case["nef"])
        else:
            ef = v - case["efstep"] * np.arange(case["nef"])[::-1]
    return centre, corners, ef


def check_groups(case):
    from wannierberri.grid.tetrahedron import TetraWeights
    centre, corners, ef = build_groups(case)
    nk, nb = centre.shape
    der = case["der"]
    thresh = case["thresh"]
    kram = case["kramers"]
    # tie guard for the grouping threshold on the centre energies
    if thresh > 0:
        gaps = np.diff(centre, axis=1)
        if gaps.size and np.min(np.abs(gaps - thresh)) < 1e-9:
            from vlib.runner import Inconclusive
            raise Inconclusive("centre gap ties with degen_thresh")
    tw = TetraWeights(eCenter=centre.copy(), eCorners=corners.copy())
    res = tw.weights_all_band_groups(ef, der=der, degen_thresh=thresh, degen_Kramers=kram)
    res2 = tw.weights_all_band_groups(ef, der=der, degen_thresh=thresh, degen_Kramers=kram)  # cached path
    # a second, DIFFERENT Fermi grid with the same length and end points requested from the same object (two
    # calculators of one run() share the weights object) must get its own weights: compare with a fresh object
    if len(ef) >= 3:
        ef_b = ef.copy()
        ef_b[1:-1] = ef[1:-1] + 0.37 * case["efstep"] * np.where(np.arange(len(ef) - 2) % 2 == 0, 1.0, -0.6)
        res_b = tw.weights_all_band_groups(ef_b, der=der, degen_thresh=thresh, degen_Kramers=kram)
        fresh = TetraWeights(eCenter=centre.copy(), eCorners=corners.copy()).weights_all_band_groups(
            ef_b, der=der, degen_thresh=thresh, degen_Kramers=kram)
        for ik in range(nk):
            if sorted(res_b[ik].keys()) != sorted(fresh[ik].keys()) or any(
                    not np.array_equal(np.asarray(res_b[ik][k]), np.asarray(fresh[ik][k])) for k in fresh[ik]):
                raise Violation("groups-second-grid", f"weights for a second Fermi grid {ef_b.tolist()} (after {ef.tolist()}) "
                                                      f"differ from those of a fresh object; der={der}")
    if len(res) != nk:
        raise Violation("groups-nk", f"{len(res)} != {nk}")
    desc = f"centre={centre.tolist()} corners={corners.tolist()} ef={ef.tolist()} der={der} thresh={thresh} kramers={kram}"
    n_sea = 0
    n_partial = 0
    compared = 0
    for ik in range(nk):
        g = res[ik]
        g2 = res2[ik]
        if sorted(g.keys()) != sorted(g2.keys()) or any(not np.array_equal(np.asarray(g[k]), np.asarray(g2[k])) for k in g):
            raise Violation("groups-cache", f"{desc}: second call differs")
        keys = sorted((int(a), int(b)) for a, b in g.keys())
        for (a, b) in keys:
            if not (0 <= a < b <= nb):
                raise Violation("groups-key-range", f"{desc}: key {(a, b)}")
        for (a, b), (c, d) in zip(keys, keys[1:]):
            if c < b:
                raise Violation("groups-overlap", f"{desc}: keys {keys}")
        covered = {}
        for (a, b) in keys:
            for ib in range(a, b):
                covered[ib] = (a, b)
        # expected per-band weights (exact brackets) and group means
        lo = np.zeros((nb, len(ef)))
        hi = np.zeros((nb, len(ef)))
        exact_ok = np.ones(nb, dtype=bool)
        tolb = np.zeros((nb, len(ef)))
        for ib in range(nb):
            es = sorted(float(x) for x in corners[ik, :, ib])
            eF = [Fraction(x) for x in es]
            delta, lifted = lift_delta(eF)
            for j, x in enumerate(ef):
                X = Fraction(float(x))
                if der in (0, -1):
                    l, h = bracket(X, eF, delta)
                    if der == -1:
                        l, h = 1 - h, 1 - l
                    lo[ib, j], hi[ib, j] = float(l), float(h)
                    tolb[ib, j] = 1e-12
                else:
                    p = piece_index(X, eF)
                    if p == 0 or X >= eF[3] + delta:
                        lo[ib, j] = hi[ib, j] = 0.0
                        continue
                    if lifted or not (eF[0] < eF[1] < eF[2] < eF[3]):
                        exact_ok[ib] = False
                        continue
                    t = 64 * U * poly_cond(float(x), es, der)
                    W = es[3] - es[0]
                    r = float(F_tp(X, eF, der=der, right=True))
                    if t > 1e-6 * max(abs(r), 1 / W ** der) or any(X == q for q in eF):
                        exact_ok[ib] = False
                        continue
                    lo[ib, j] = hi[ib, j] = r
                    tolb[ib, j] = t + 4 * U * abs(r)
        for ib in range(nb):
            if ib in covered:
                continue
            # a band that belongs to no group contributes nothing: its exact weight must vanish at every Fermi level
            if not exact_ok[ib]:
                continue
            if np.any(lo[ib] > tolb[ib] + 1e-12):
                j = int(np.argmax(lo[ib]))
                raise Violation(f"groups-band-lost(der={der})", f"{desc}: k={ik} band {ib} is in no group ({keys}) but its exact "
                                                              f"weight at ef={ef[j]} is >= {lo[ib, j]!r}")
        for (a, b) in keys:
            val = np.asarray(g[(a, b)], dtype=float)
            if val.shape != ef.shape:
                raise Violation("groups-shape", f"{desc}: key {(a, b)} value shape {val.shape}")
            if not all(exact_ok[a:b]):
                continue
            mlo = lo[a:b].mean(axis=0)
            mhi = hi[a:b].mean(axis=0)
            mt = tolb[a:b].mean(axis=0) + 1e-13
            bad = (val < mlo - mt) | (val > mhi + mt)
            if np.any(bad):
                j = int(np.argmax(bad))
                raise Violation(f"groups-weight(der={der})", f"{desc}: k={ik} group {(a, b)} weight {val[j]!r} at ef={ef[j]}, "
                                                            f"exact group mean in [{mlo[j]!r},{mhi[j]!r}]")
            compared += 1
            if np.all(mlo == 1.0):
                n_sea += 1
            elif np.any((mhi > 0) & (mlo < 1)):
                n_partial += 1
        # cumulative count: below all bands 0, above all bands nb  (statement, last sentence)
        if der == 0:
            tot = np.zeros(len(ef))
            for (a, b) in keys:
                tot += (b - a) * np.asarray(g[(a, b)], dtype=float)
            allmin = min(corners[ik].min(), centre[ik].min())
            allmax = max(corners[ik].max(), centre[ik].max())
            for j, x in enumerate(ef):
                if x < allmin - 1e-11 and tot[j] != 0:
                    raise Violation("cumulative-below", f"{desc}: total {tot[j]} below all bands")
                if x > allmax + 1e-11 and abs(tot[j] - nb) > 1e-12:
                    raise Violation("cumulative-above", f"{desc}: total {tot[j]} != {nb} above all bands")
    return ok(compared > 0 and (n_sea > 0 or n_partial > 0), f"der={der}", f"thresh={thresh}", f"kramers={kram}",
              "completed-block" if n_sea else None, "partial" if n_partial else None, f"nb={nb}",
              ("tie:" + case["tie"]) if case.get("tie") else None)


# ------------------------------------------------------------------------------------------------
# sub: CumDOS / DOS with tetra=True on random systems (parallelepiped and tetrahedron K-points)

def _cumdos_strategy():
    return st.fixed_dictionaries(dict(
        model=wbsys.model_params_st(max_wann=3, max_npairs=3, rmax=1),
        grid=st.sampled_from(["paral", "paral", "tetra"]),
        NKdiv=st.lists(st.integers(1, 2), min_size=3, max_size=3),
        NKFFT=st.lists(st.integers(1, 2), min_size=3, max_size=3),
        nef=st.integers(3, 9),
        spin=st.booleans(),
    ))


def check_cumdos(case):
    import wannierberri as wb
    from wannierberri.calculators import static
    from vlib.util import scratch_dir
    import os
    model = wbsys.make_model(case["model"])
    s = wbsys.to_system(model)
    if case["spin"]:
        s.double_spin()
    nw = s.num_wann
    # rigorous bound of the spectrum: |E_n(k)| <= sum_R ||H(R)||_2
    B = float(sum(np.linalg.norm(h, 2) for h in model.mats["Ham"])) + 1e-6
    inner = np.linspace(-B, B, case["nef"])
    Ef = np.concatenate([[-B - 1.0, -B - 1e-3], inner[1:-1], [B + 1e-3, B + 1.0]])
    with scratch_dir() as d:
        if case["grid"] == "paral":
            grid = wb.Grid(s, NKdiv=case["NKdiv"], NKFFT=case["NKFFT"])
        else:
            grid = wb.grid.GridTetra(s, length=1.0, NKFFT=case["NKFFT"])
        res = wb.run(s, grid=grid, parallel=False, use_irred_kpt=False, symmetrize=False, adpt_num_iter=0,
                     fout_name=os.path.join(d, "res"), file_Klist_path=os.path.join(d, "Klist"), dump_results=False,
                     calculators=dict(cum=static.CumDOS(Efermi=Ef, tetra=True, degen_Kramers=case["spin"]),
                                      dos=static.DOS(Efermi=Ef, tetra=True)),
                     print_progress_step_time=1e9)
    cum = np.array(res.results["cum"].data, dtype=float)
    dos = np.array(res.results["dos"].data, dtype=float)
    desc = f"nw={nw} B={B} Ef={Ef.tolist()} grid={case['grid']}"
    tol = 1e-10 * nw
    if np.max(np.abs(cum[:2])) > tol:
        raise Violation("cumdos-below-bands", f"{desc}: CumDOS below all bands {cum[:2].tolist()}")
    if np.max(np.abs(cum[-2:] - nw)) > tol:
        raise Violation("cumdos-above-bands", f"{desc}: CumDOS above all bands {cum[-2:].tolist()} != {nw}")
    if np.diff(cum).min() < -tol:
        raise Violation("cumdos-decreasing", f"{desc}: {cum.tolist()}")
    if cum.min() < -tol or cum.max() > nw + tol:
        raise Violation("cumdos-range", f"{desc}: {cum.tolist()}")
    if np.max(np.abs(dos[:2])) > 0 or np.max(np.abs(dos[-2:])) > 0:
        raise Violation("dos-outside-bands", f"{desc}: DOS outside the spectrum {dos[:2].tolist()} {dos[-2:].tolist()}")
    partial = bool(np.any((cum > 1e-6) & (cum < nw - 1e-6)))
    return ok(partial, case["grid"], f"nw={nw}", "spin-doubled" if case["spin"] else None)


# 'paral' first: its first case triggers the numba compilation of weights_tetra in the signature used by the
# production code (5 s on an idle machine, much longer on a loaded one), so that the compile time is charged to a
# sub with a generous budget and cheap cases and not to the run()-based 'cumdos' sub
SUBS = [
    Sub("paral", paral_st, check_paral, quick=320, thorough=10000, budget_quick=100, budget_thorough=420),
    Sub("cumdos", _cumdos_strategy(), check_cumdos, quick=40, thorough=640, budget_quick=60, budget_thorough=420),
    Sub("weights", weights_case_st, check_weights, quick=5000, thorough=160000, budget_quick=100, budget_thorough=420),
    Sub("groups", groups_st, check_groups, quick=640, thorough=24000, budget_quick=50, budget_thorough=420),
]
