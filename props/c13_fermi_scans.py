"""C13  Fermi-level scans have the documented sea and surface semantics (DESIGN 4/C13)

Reference model (harness side): band energies from the harness' own explicit Fourier sum H(k) (vlib.wbsys.Model),
band groups by the chain rule (gap <= degen_thresh), group energy = mean, a group is occupied at E_F iff
mean <= E_F.  The Fermi-sea value is (1/N_k V) sum_k trace_k(occupied bands); traces of the formula (which is not
under test here) are taken from `formula.trace` of a separately built Data_K holding all k-points, with a call
pattern different from the calculator's (one cumulative trace per occupation number; per-group traces for the
Fermi-surface model).  For the density of states the trace is the pure band count (no wannierberri input at all).
The Fermi grid is shifted (deterministically) until no group mean lies within 1e-7 of a (extended) grid value.
"""
import numpy as np
from hypothesis import strategies as st

from vlib.runner import Sub, Violation, Inconclusive, ok
from vlib.util import fl, scratch_dir
from vlib import bgrid

PROPERTY_ID = "C13"
RULE = ("random Hermitian models (1-3 WFs; Ham,AA,BB,CC,FF,GG,OO (+spin matrices)), spinless or double_spin() "
        "(exact two-fold degeneracy), grid <= 6^3 (<= 64 k-points) in a drawn factorisation, uniform Fermi grid "
        "(1..12 points, spacing 0.01..0.5, placed below / inside / above / spanning the band range, or starting inside a merged group), formula in "
        "{Identity, Omega, Spin, InvMass, DerOmega, VelVel, VelOmega, Morb_Hpm (non-additive)}, derivative order "
        "0..3, degen_thresh in {-1, 1e-4, 1e-2, 0.1, quantiles 25/50/75 % of the case's own band gaps} (the large ones merge bands into groups with a real spread), band selections, k-resolved variants; non-trivial = at least one "
        "band group changes occupation inside the (extended) Fermi grid, at least one degenerate group (double_spin "
        "pair or near-degenerate bands merged by the threshold) exists and the result is non-zero (sub cumdos: the "
        "cumulative DOS steps inside the grid); distinct = distinct generated case")
ASSUMPTIONS = ["tetra=False for the sea/surface semantics (tetrahedron weights are C14); CumDOS with tetra=True is "
               "only checked for monotonicity, range and its limits",
               "Fermi grid offset chosen so that no group mean lies within 1e-7 of an (extended) grid value; gaps "
               "within 1e-9 of degen_thresh make the case inconclusive",
               "degen_thresh=-1 is not combined with exactly degenerate (double_spin) systems: splitting an exactly "
               "degenerate multiplet makes per-band traces gauge dependent (subject of C04/C15)",
               "select_bands is passed as a numpy integer array (tuples/lists raise TypeError in weight_select_bands "
               "for the group starting at band 0 - noted, outside this property)",
               "tolerance 1e-8 of the array scale x (1e-3/gap)^4 for inter-group gaps below 1e-3, plus the rounding "
               "of the finite-difference stencil 1e-13*max|sea|*(2/dE)^n"]
MIN_NONTRIVIAL = {"quick": 12, "thorough": 400}
RTOL = 1e-8

FORMULAS = ["Identity", "Omega", "Spin", "InvMass", "DerOmega", "Morb_Hpm", "VelVel", "VelOmega"]
SEA_FORMULAS = ["Identity", "Omega", "Spin", "InvMass", "DerOmega", "Morb_Hpm"]   # trace over occupied set is covariant
STENCIL = {1: ([-1, 0, 1], [-0.5, 0.0, 0.5]), 2: ([-1, 0, 1], [1.0, -2.0, 1.0]),
           3: ([-2, -1, 0, 1, 2], [-0.5, 1.0, 0.0, -1.0, 0.5])}
EXTRA = {0: 0, 1: 1, 2: 1, 3: 2}
# Writing the default .npz of a TabulatorAll that holds a k-resolved static calculator indexes the Fermi-level axis
# with band numbers (finding of sub 'kres_save'); the other subs switch that file off so that they keep exploring.
SAVE_MODE = "none"


def get_formula(name):
    from wannierberri.formula import covariant as frml
    from wannierberri.formula.elementary import InvMass
    if name == "InvMass":
        return InvMass
    return getattr(frml, name)


# ------------------------------------------------------------------------------------------------
# strategies

egrid_st = st.fixed_dictionaries(dict(
    n=st.integers(1, 12),
    de=st.one_of(st.sampled_from([0.01, 0.05, 0.1, 0.5]), fl(0.01, 0.5)),
    mode=st.sampled_from(["inside", "inside", "inside", "split", "split", "span", "below", "above"]),
    u=fl(0.0, 1.0),
))


@st.composite
def base_st(draw):
    N = draw(bgrid.grid_total_st(nmax=6, maxpoints=64))
    spin = draw(st.sampled_from(["plain", "double", "double"]))
    thr = draw(st.sampled_from([1e-4, 1e-2, 0.1, "q25", "q50", "q75"] if spin == "double" else [-1, 1e-4, 1e-2, 0.1, "q25", "q50", "q75"]))
    model = draw(bgrid.model_st(max_wann=3, max_npairs=4, rmax=2))
    if not model["R"]:
        model["R"] = [[1, 0, 0], [0, 1, 1]]     # dispersive bands (an on-site-only model has flat bands)
    return dict(model=model, spin=spin, N=N,
                sel=[draw(st.integers(0, 3)) for _ in range(3)], egrid=draw(egrid_st), thr=thr)


@st.composite
def sea_case_st(draw):
    c = draw(base_st())
    c["formula"] = draw(st.sampled_from(SEA_FORMULAS))
    if c["formula"] == "Spin" and c["spin"] == "double":
        c["formula"] = "Omega"       # the spin of a spin-doubled system vanishes identically
    return c


@st.composite
def surf_case_st(draw):
    c = draw(base_st())
    c["formula"] = draw(st.sampled_from(FORMULAS))
    if c["formula"] == "Spin" and c["spin"] == "double":
        c["formula"] = "VelVel"
    c["fder"] = draw(st.integers(1, 3))
    c["select"] = draw(st.one_of(st.none(), st.lists(st.integers(0, 5), min_size=1, max_size=3, unique=True)))
    # how the extended Fermi grid of the reference Fermi-sea calculator is written down: from its own origin
    # (E0 + de*i) or by extending the surface grid with the code's own spacing rule (Ef[0] - i*(Ef[1]-Ef[0]), ...);
    # the two differ in the last bits, and only the second makes both calculators ask for bit-identical windows
    c["extmode"] = draw(st.sampled_from(["origin", "extend", "extend"]))
    c["order"] = draw(st.sampled_from(["surf-first", "sea-first"]))
    return c


@st.composite
def cumdos_case_st(draw):
    c = draw(base_st())
    c["egrid"]["mode"] = draw(st.sampled_from(["far", "far", "span", "inside", "split"]))
    return c


# ------------------------------------------------------------------------------------------------
# reference model


class Ref:
    """harness-side band groups on the full mesh"""

    def __init__(self, case):
        self.case = case
        self.N = [int(x) for x in case["N"]]
        self.system, self.model, self.deg = bgrid.build_system(case["model"], spin=case["spin"])
        self.kmesh = bgrid.mesh(self.N)
        self.E = np.array([np.repeat(self.model.bands(k), self.deg) for k in self.kmesh])
        self.nk, self.nb = self.E.shape
        self.thr = self._threshold(case["thr"])
        if bgrid.threshold_tie(self.E, self.thr):
            raise Inconclusive("tie: gap within 1e-9 of degen_thresh")
        self.groups = [bgrid.groups_of(E, self.thr) for E in self.E]
        self.means = [np.array([E[a:b].mean() for a, b in g]) for E, g in zip(self.E, self.groups)]
        self.V = abs(np.linalg.det(self.model.lattice))
        gap = bgrid.min_intergroup_gap(self.E, max(self.thr, 1e-12))
        self.cond = max(1.0, 1e-3 / gap) ** 4 if np.isfinite(gap) else 1.0
        self.ndegen = sum(1 for g in self.groups for a, b in g if b - a > 1)
        self.nmerged = sum(1 for E, g in zip(self.E, self.groups) for a, b in g if E[b - 1] - E[a] > 1e-6)

    def _threshold(self, spec):
        """numbers are used as they are; 'qNN' = a threshold in the middle between two consecutive values of the
        sorted list of all band gaps of this case (so that about NN % of the gaps merge their bands into groups with
        a real energy spread) - never closer than 5e-7 to any gap, hence tie-free"""
        if not isinstance(spec, str):
            return spec
        gaps = np.sort(np.concatenate([np.diff(E) for E in self.E]))
        gaps = gaps[gaps > 1e-9]
        i0 = int(int(spec[1:]) / 100 * len(gaps))
        for i in list(range(i0, len(gaps) - 1)) + list(range(min(i0, len(gaps) - 1) - 1, -1, -1)):
            if gaps[i + 1] - gaps[i] > 1e-6:
                return float(0.5 * (gaps[i] + gaps[i + 1]))
        return 1e-4

    def fermi_grid(self, extra, far=False):
        """returns (E0, dE, n): tie-free uniform grid; `extra` points are added on both sides for the tie test"""
        eg = self.case["egrid"]
        n, de, u = eg["n"], float(eg["de"]), eg["u"]
        if n == 1:
            de = 0.001   # the code's spacing for a single Fermi level
        lo, hi = float(self.E.min()), float(self.E.max())
        width = de * (n - 1)
        mode = eg["mode"]
        if mode == "split":
            # first Fermi level inside a merged (not exactly degenerate) group: the group straddles the grid edge
            cands = []
            for E, g in zip(self.E, self.groups):
                for a, b in g:
                    d = np.diff(E[a:b])
                    if b - a > 1 and d.max() > 1e-4:
                        j = a + int(np.argmax(d))
                        cands.append(0.5 * (E[j] + E[j + 1]))
            if cands:
                E0 = cands[min(len(cands) - 1, int(u * len(cands)))]
            else:
                mode = "inside"
        if mode == "split":
            pass
        elif mode == "inside":
            E0 = lo + u * max(hi - lo, 1e-3) - 0.5 * width * u
        elif mode == "below":
            E0 = lo - width - de * (3 + 5 * u)
        elif mode == "above":
            E0 = hi + de * (3 + 5 * u)
        elif mode == "span":
            n = max(n, 3)
            de = (hi - lo + 0.4) / (n - 1)
            E0 = lo - 0.2 + 0.01 * u
        elif mode == "far":
            B = bgrid.band_bound(self.model)
            n = max(n, 4)
            de = (2 * B + 1.0) / (n - 1)
            E0 = -B - 0.5 + 0.01 * u
        else:
            raise ValueError(mode)
        allm = np.concatenate(self.means)
        for t in range(2000):
            e0 = E0 + t * 1.3e-5
            G = e0 + de * np.arange(-extra - 1, n + extra + 1)
            if np.min(np.abs(allm[:, None] - G[None, :])) > 1e-7:
                return e0, de, n
        raise Inconclusive("no tie-free Fermi grid offset found")

    def reference_data_K(self):
        from wannierberri.grid import Grid
        from wannierberri.data_K import get_data_k_class_from_system
        g = Grid(self.system, NKdiv=1, NKFFT=self.N, use_symmetry=False)
        dk = get_data_k_class_from_system(self.system)(self.system, grid=g, dK=np.zeros(3))
        if np.max(np.abs(np.array(dk.kpoints_all) - self.kmesh)) > 1e-12 or \
                np.max(np.abs(np.array(dk.E_K) - self.E)) > 1e-8 * (1 + np.max(np.abs(self.E))):
            raise Inconclusive("reference Data_K (all-FFT grid) does not reproduce the harness bands (see C02/C03)")
        return dk

    def sea_per_k(self, formula, G, per_group=False, select=None):
        """S[k, j, ...] = sum over groups with mean <= G_j of the group's value (not divided by V or N_k).
        per_group=False: cumulative trace over all occupied bands (covariantly additive formulas / telescoping
        non-additive ones);  per_group=True: sum of per-group traces weighted with the selected fraction."""
        shape = (3,) * formula.ndim
        S = np.zeros((self.nk, len(G)) + shape)
        additive = bool(formula.additive) if not callable(formula.additive) else bool(formula.additive())
        for ik in range(self.nk):
            grp, mean = self.groups[ik], self.means[ik]
            if not per_group:
                cache = {}
                for j, Ef in enumerate(G):
                    occ = [g for g, m in zip(grp, mean) if m <= Ef]
                    nocc = occ[-1][1] if occ else 0
                    if nocc not in cache:
                        cache[nocc] = (formula.trace(ik, np.arange(nocc), np.arange(nocc, self.nb))
                                       if nocc > 0 else np.zeros(shape))
                    S[ik, j] = cache[nocc]
            else:
                for (a, b), m in zip(grp, mean):
                    if select is None:
                        w = 1.0
                    else:
                        w = sum(1 for x in select if a <= x < b) / (b - a)
                        if w == 0:
                            continue
                    if not np.any(m <= G):
                        continue
                    if additive:
                        val = formula.trace(ik, np.arange(a, b), np.concatenate((np.arange(0, a), np.arange(b, self.nb))))
                    else:
                        val = formula.trace(ik, np.arange(b), np.arange(b, self.nb))
                        if a > 0:
                            val = val - formula.trace(ik, np.arange(a), np.arange(a, self.nb))
                    S[ik, m <= G] += w * val
        return S


def _cmp(bucket, what, got, ref, rtol, floor):
    good, rel = bgrid.close(got, ref, rtol, floor)
    if not good:
        raise Violation(bucket, f"{what}: rel diff {rel:.2e} (shapes {np.shape(got)} {np.shape(ref)}, "
                                f"max|ref| {np.max(np.abs(ref), initial=0):.3e})")


def _fd(S, n, de, axis):
    """n-th central finite difference with the stencils of the statement; S carries EXTRA[n] extra points per side"""
    if n == 0:
        return S
    offs, coef = STENCIL[n]
    x = EXTRA[n]
    L = S.shape[axis] - 2 * x
    out = 0
    for o, c in zip(offs, coef):
        sl = [slice(None)] * S.ndim
        sl[axis] = slice(x + o, x + o + L)
        out = out + c * S[tuple(sl)]
    return out / de ** n


def _tabdata(res, key):
    tab = res.results["TAB"]
    return np.array(tab.results[key].data), np.array(tab.kpoints)


# ------------------------------------------------------------------------------------------------
# sub 1: Fermi-sea semantics + k-resolved


def check_sea(case):
    from wannierberri import calculators as calc
    ref = Ref(case)
    E0, de, n = ref.fermi_grid(0)
    Ef = E0 + de * np.arange(n)
    fname = case["formula"]
    F = get_formula(fname)
    div, fft = bgrid.factorisation(ref.N, case["sel"])

    def mk(**kw):
        if fname == "Identity":
            return calc.static.CumDOS(Efermi=Ef.copy(), degen_thresh=ref.thr, **kw)
        return calc.static.StaticCalculator(Efermi=Ef.copy(), Formula=F, fder=0, degen_thresh=ref.thr, **kw)
    with scratch_dir() as d:
        res, _ = bgrid.run_grid(ref.system, div, fft, {"sea": mk(), "TAB": calc.TabulatorAll(
            {"kres": mk(k_resolved=True)}, mode="grid", save_mode=SAVE_MODE)}, d)
    got = np.array(res.results["sea"].data)
    gotk, kp = _tabdata(res, "kres")
    if kp.shape != ref.kmesh.shape or np.max(np.abs(kp - ref.kmesh)) > 1e-9:
        raise Violation("kres-kpoints", "k-resolved result is not on the C-ordered mesh")
    # pure counting oracle / trace oracle
    if fname == "Identity":
        S = np.array([[float(sum(b - a for (a, b), m in zip(g, mn) if m <= e)) for e in Ef]
                      for g, mn in zip(ref.groups, ref.means)])
        norm = 1.0          # CumDOS is multiplied by the cell volume: states per cell
    else:
        dk = ref.reference_data_K()
        S = ref.sea_per_k(F(dk), Ef)
        norm = 1.0 / ref.V
    S = S * norm
    floor = 1e-10 * max(1.0, 1.0 / ref.V) * ref.cond
    rtol = RTOL * ref.cond
    _cmp("sea-vs-model", f"{fname} fder=0 thr={ref.thr}", got, S.mean(axis=0), rtol, floor)
    _cmp("kres-vs-model", f"{fname} k-resolved rows", gotk, S, rtol, floor)
    _cmp("kres-sum-vs-unresolved", f"{fname}", gotk.mean(axis=0), got, rtol, floor)
    if fname == "Identity":
        if np.any(np.diff(got) < -1e-12):
            raise Violation("cumdos-monotone", f"CumDOS decreases: {got}")
        if np.any(got[Ef < ref.E.min()] != 0) or np.any(np.abs(got[Ef > ref.E.max()] - ref.nb) > 1e-12):
            raise Violation("cumdos-limits", f"CumDOS {got} for bands in [{ref.E.min()},{ref.E.max()}] nb={ref.nb}")
    allm = np.concatenate(ref.means)
    crossing = bool(np.any((allm > Ef[0]) & (allm <= Ef[-1]))) or bool(np.any(allm <= Ef[-1]) and np.any(allm > Ef[-1]))
    nonzero = np.max(np.abs(got), initial=0) > 1e3 * floor
    return ok(crossing and nonzero and ref.ndegen > 0, fname, case["spin"], f"thr={case['thr']}", case["egrid"]["mode"],
              "degenerate-groups" if ref.ndegen else "no-degenerate-group", "merged-groups-with-spread" if ref.nmerged else None,
              "near-degenerate" if ref.cond > 1 else None, "crossing" if crossing else "no-crossing",
              f"nEf={'1' if n == 1 else '2-4' if n < 5 else '5+'}", "nonzero" if nonzero else "zero",
              "div>1&fft>1" if (np.prod(div) > 1 and np.prod(fft) > 1) else None)


# ------------------------------------------------------------------------------------------------
# sub 2: derivative of the Fermi distribution == finite difference of the sea


def check_surface(case):
    from wannierberri import calculators as calc
    ref = Ref(case)
    nder = case["fder"]
    x = EXTRA[nder]
    E0, de, n = ref.fermi_grid(x)
    Ef = E0 + de * np.arange(n)
    Eext = E0 + de * np.arange(-x, n + x)
    if case.get("extmode") == "extend" and n >= 2:
        dEF = Ef[1] - Ef[0]
        Eext = np.concatenate([[Ef[0] - i * dEF for i in range(x, 0, -1)], Ef, [Ef[-1] + i * dEF for i in range(1, x + 1)]])
    fname = case["formula"]
    F = get_formula(fname)
    div, fft = bgrid.factorisation(ref.N, case["sel"])
    select = None
    if case["select"] is not None:
        select = sorted({b % ref.nb for b in case["select"]})
        if len(select) == ref.nb:
            select = select[:-1] or None
    compl = None if select is None else [b for b in range(ref.nb) if b not in select]

    def surf(sel, **kw):
        return calc.static.StaticCalculator(Efermi=Ef.copy(), Formula=F, fder=nder, degen_thresh=ref.thr,
                                            select_bands=None if sel is None else np.array(sel, dtype=int), **kw)
    calcs = {"surf": surf(select), "sea": calc.static.StaticCalculator(Efermi=Eext.copy(), Formula=F, fder=0,
                                                                        degen_thresh=ref.thr)}
    if case.get("order") == "sea-first":     # all calculators of one run() share the per-K data object, in dict order
        calcs = {"sea": calcs["sea"], "surf": calcs["surf"]}
    calcs["TAB"] = calc.TabulatorAll({"kres": surf(select, k_resolved=True)}, mode="grid", save_mode=SAVE_MODE)
    if select is not None:
        calcs["all"] = surf(None)
        if compl:
            calcs["compl"] = surf(compl)
    with scratch_dir() as d:
        res, _ = bgrid.run_grid(ref.system, div, fft, calcs, d)
    got = np.array(res.results["surf"].data)
    sea = np.array(res.results["sea"].data)
    gotk, kp = _tabdata(res, "kres")
    if got.shape[0] != n or sea.shape[0] != n + 2 * x:
        raise Violation("shape", f"{got.shape} {sea.shape} for n={n} extra={x}")
    dk = ref.reference_data_K()
    formula = F(dk)
    Sk = ref.sea_per_k(formula, Eext, per_group=True, select=select) / ref.V
    model = _fd(Sk, nder, de, axis=1)
    amp = (2.0 / de) ** nder
    floor = (1e-10 * max(1.0, 1.0 / ref.V) + 1e-13 * amp * max(np.max(np.abs(Sk), initial=0),
                                                                 np.max(np.abs(sea), initial=0))) * ref.cond
    rtol = RTOL * ref.cond
    if select is None:
        _cmp("surface-vs-fd-of-sea", f"{fname} fder={nder} thr={ref.thr} dE={de}", got, _fd(sea, nder, de, axis=0),
             rtol, floor)
    _cmp("surface-vs-model", f"{fname} fder={nder} thr={ref.thr} select={select}", got, model.mean(axis=0), rtol, floor)
    # the Fermi-sea calculator evaluated in the SAME run (same per-K data objects as the surface calculators, in the
    # drawn order) must give what it gives when it is the only calculator of a run: its value is defined by the
    # formula and the occupied states alone (a constant offset would cancel in the finite differences above)
    with scratch_dir() as d2:
        res_alone, _ = bgrid.run_grid(ref.system, div, fft, {"sea": calc.static.StaticCalculator(
            Efermi=Eext.copy(), Formula=F, fder=0, degen_thresh=ref.thr)}, d2)
    _cmp("sea-in-shared-run-vs-alone", f"{fname} thr={ref.thr} order={case.get('order')} ext={case.get('extmode')}", sea,
         np.array(res_alone.results["sea"].data), 1e-12, 1e-13 * max(1.0, 1.0 / ref.V))
    _cmp("kres-vs-model", f"{fname} fder={nder} k-resolved rows select={select}", gotk, model, rtol, floor)
    _cmp("kres-sum-vs-unresolved", f"{fname} fder={nder}", gotk.mean(axis=0), got, rtol, floor)
    if select is not None:
        tot = np.array(res.results["all"].data)
        part = got + (np.array(res.results["compl"].data) if compl else 0)
        _cmp("select-partition", f"{fname} fder={nder} select={select}+{compl} vs all bands", part, tot, rtol, floor)
    allm = np.concatenate(ref.means)
    crossing = bool(np.any((allm > Eext[0]) & (allm <= Eext[-1])))
    nonzero = np.max(np.abs(got), initial=0) > 1e3 * floor
    return ok(crossing and nonzero and ref.ndegen > 0, fname, f"fder={nder}", case["spin"], f"thr={case['thr']}", case["egrid"]["mode"],
              "degenerate-groups" if ref.ndegen else "no-degenerate-group", "merged-groups-with-spread" if ref.nmerged else None,
              "select" if select is not None else "all-bands",
              "near-degenerate" if ref.cond > 1 else None, "crossing" if crossing else "no-crossing",
              "nEf=1" if n == 1 else None, "nonzero" if nonzero else "zero")


# ------------------------------------------------------------------------------------------------
# sub 3: cumulative DOS: monotone, 0 below all bands, num_wann above, with and without tetrahedra


def check_cumdos(case):
    from wannierberri import calculators as calc
    ref = Ref(case)
    E0, de, n = ref.fermi_grid(1, far=True)
    Ef = E0 + de * np.arange(n)
    div, fft = bgrid.factorisation(ref.N, case["sel"])
    with scratch_dir() as d:
        res, _ = bgrid.run_grid(ref.system, div, fft, {
            "cum": calc.static.CumDOS(Efermi=Ef.copy(), degen_thresh=ref.thr),
            "cumT": calc.static.CumDOS(Efermi=Ef.copy(), degen_thresh=ref.thr, tetra=True),
            "dos": calc.static.DOS(Efermi=Ef.copy(), degen_thresh=ref.thr)}, d)
    cum = np.array(res.results["cum"].data)
    cumT = np.array(res.results["cumT"].data)
    dos = np.array(res.results["dos"].data)
    count = np.array([np.mean([float(sum(b - a for (a, b), m in zip(g, mn) if m <= e))
                               for g, mn in zip(ref.groups, ref.means)]) for e in Ef])
    _cmp("cumdos-vs-count", f"thr={case['thr']}", cum, count, 1e-12, 1e-12)
    B = bgrid.band_bound(ref.model)
    for nm, c in (("cum", cum), ("cumT", cumT)):
        if np.any(np.diff(c) < -1e-10):
            raise Violation("cumdos-monotone", f"{nm} decreases: {c}")
        if np.any(np.abs(c[Ef < -B - 1e-6]) > 1e-12):
            raise Violation("cumdos-zero-below", f"{nm}={c} at Ef={Ef} with all bands above {-B}")
        if np.any(np.abs(c[Ef > B + 1e-6] - ref.nb) > 1e-10):
            raise Violation("cumdos-full-above", f"{nm}={c} at Ef={Ef} with all bands below {B}; num_wann={ref.nb}")
        if np.any(c < -1e-10) or np.any(c > ref.nb + 1e-10):
            raise Violation("cumdos-range", f"{nm}={c}")
    # DOS (fder=1) is the central difference of the counting model on the extended grid
    Eext = E0 + de * np.arange(-1, n + 1)
    cext = np.array([np.mean([float(sum(b - a for (a, b), m in zip(g, mn) if m <= e))
                              for g, mn in zip(ref.groups, ref.means)]) for e in Eext])
    _cmp("dos-vs-fd-of-count", f"dE={de}", dos, (cext[2:] - cext[:-2]) / (2 * de), 1e-10, 1e-12 / de)
    below = bool(np.any(Ef < -B)) and bool(np.any(Ef > B))
    stepping = bool(np.any(np.diff(cum) > 0))
    return ok(stepping, case["spin"], f"thr={case['thr']}", case["egrid"]["mode"], "covers-both-limits" if below else None,
              "degenerate-groups" if ref.ndegen else "no-degenerate-group", "merged-groups-with-spread" if ref.nmerged else None, "stepping" if stepping else "flat")


# ------------------------------------------------------------------------------------------------
# sub 4: the k-resolved calculation through run() with the default output settings of TabulatorAll


@st.composite
def kres_case_st(draw):
    c = draw(base_st())
    c["egrid"]["n"] = draw(st.integers(1, 4))
    c["formula"] = draw(st.sampled_from(["Identity", "Omega"]))
    return c


def check_kres_save(case):
    """run() is the only way to evaluate a k-resolved calculator on a grid (K__Result has no `max`, so it must sit
    inside a TabulatorAll); with the default save_mode the evaluation has to complete for every Fermi-grid size"""
    from wannierberri import calculators as calc
    ref = Ref(case)
    E0, de, n = ref.fermi_grid(0)
    Ef = E0 + de * np.arange(n)
    fname = case["formula"]
    div, fft = bgrid.factorisation(ref.N, case["sel"])

    def mk(**kw):
        if fname == "Identity":
            return calc.static.CumDOS(Efermi=Ef.copy(), degen_thresh=ref.thr, **kw)
        return calc.static.StaticCalculator(Efermi=Ef.copy(), Formula=get_formula(fname), fder=0,
                                            degen_thresh=ref.thr, **kw)
    with scratch_dir() as d:
        res, _ = bgrid.run_grid(ref.system, div, fft, {"sea": mk(), "TAB": calc.TabulatorAll(
            {"kres": mk(k_resolved=True)}, mode="grid")}, d)
    got = np.array(res.results["sea"].data)
    gotk, kp = _tabdata(res, "kres")
    floor = 1e-10 * max(1.0, 1.0 / ref.V) * ref.cond
    _cmp("kres-sum-vs-unresolved", f"{fname} default save_mode", gotk.mean(axis=0), got, RTOL * ref.cond, floor)
    return ok(n < ref.nb, fname, "nEf<nbands" if n < ref.nb else "nEf>=nbands", case["spin"])


# wall-clock budgets can be stretched on an overloaded machine (never changes which cases are generated)
import os as _os
_BS = float(_os.environ.get("VERIF_BUDGET_SCALE", "1") or 1)
SUBS = [Sub("sea", sea_case_st(), check_sea, quick=40, thorough=4000, budget_quick=60 * _BS, budget_thorough=420 * _BS),
        Sub("surface", surf_case_st(), check_surface, quick=48, thorough=4800, budget_quick=60 * _BS, budget_thorough=420 * _BS),
        Sub("cumdos", cumdos_case_st(), check_cumdos, quick=16, thorough=1600, budget_quick=50 * _BS, budget_thorough=300 * _BS),
        Sub("kres_save", kres_case_st(), check_kres_save, quick=16, thorough=480, budget_quick=40 * _BS, budget_thorough=200 * _BS)]
