"""C02  All Fourier-transform back ends give the same k-space matrices (DESIGN 4/C02)

Oracle: explicit sum  X(k) = sum_R exp(2 pi i k.R) X(R) (i(R+t_j-t_i))^der  written in vlib/wbsys.py
(no wannierberri code), compared with the FFTW, numpy, 'slow' and k_list ('slow_path') code paths of
Rvectors/FFT_R_to_k/Data_K_R, for der = 0..3, plus hermiticity of the results.
"""
import numpy as np
from hypothesis import strategies as st

from vlib.runner import Sub, Violation, ok
from vlib.util import fl, reldiff
from vlib import wbsys

PROPERTY_ID = "C02"
RULE = ("random Hermitian real-space models (1-4 WFs, <=13 R-vectors |R_i|<=3, centres inside/outside/coinciding, "
        "11 lattice families), FFT grids [1..4]^3 including grids smaller than the R range, dK in [0,1)^3, in (-1,1)^3, "
        "simple fractions of either sign (sums that cancel) or 0, derivative order 0..3, libs fftw/numpy/slow/k_list, "
        "hermitian=True/False, grid-shaped output, an earlier result held across later calls, a second shift on the same "
        "object; non-trivial = two R-vectors collide modulo the FFT grid, "
        "or der>=2, or dK != 0")
ASSUMPTIONS = ["reference = explicit O(N_k N_R) Fourier sum in numpy", "tolerance 1e-9 relative (DESIGN 2.3)"]
MIN_NONTRIVIAL = {"quick": 30, "thorough": 300}
TOL = 1e-9

case_st = st.fixed_dictionaries(dict(
    model=wbsys.model_params_st(max_wann=4, max_npairs=6, rmax=3, keys=("Ham", "AA")),
    NKFFT=st.lists(st.integers(1, 4), min_size=3, max_size=3),
    # grid shifts as run() produces them (K/NKFFT of grid, symmetry-mapped and refined K-points: components of either
    # sign, often simple fractions, sums that cancel exactly) or generic
    dK=st.one_of(st.just([0.0, 0.0, 0.0]), st.lists(fl(0, 0.999), min_size=3, max_size=3),
                 st.lists(fl(-0.999, 0.999), min_size=3, max_size=3),
                 st.lists(st.sampled_from([0.0, 0.0625, -0.0625, 0.25, -0.25, 0.125, -0.125, 0.5, -0.5, 1 / 3, -1 / 3]),
                          min_size=3, max_size=3)),
    der=st.integers(0, 3),
))


def check(case):
    from wannierberri.grid import Grid
    from wannierberri.data_K.data_K_R import Data_K_R
    model = wbsys.make_model(case["model"])
    s = wbsys.to_system(model)
    NKFFT = np.array(case["NKFFT"])
    dK = np.array(case["dK"], dtype=float)
    der = case["der"]
    grid = Grid(s, NKdiv=1, NKFFT=NKFFT, use_symmetry=False)
    kpts = (wbsys.mp_points(NKFFT) + dK[None, :])
    ref = {key: np.array([model.Xk(key, k, der=der) for k in kpts]) for key in ("Ham", "AA")}
    refH = np.array([model.Hk(k) for k in kpts])
    # oracle sanity (harness error if our own reference is not hermitian)
    if reldiff(ref["Ham"], np.conj(np.swapaxes(ref["Ham"], 1, 2))) > 1e-12:
        raise RuntimeError("oracle H derivative not hermitian - harness bug")
    results = {}
    for lib in ("fftw", "numpy", "slow", "klist"):
        if lib == "klist":
            dk = Data_K_R(s, grid=grid, k_list=kpts.copy())
        else:
            dk = Data_K_R(s, grid=grid, dK=dK.copy(), fftlib=lib)
        if lib != "klist" and np.max(np.abs((np.asarray(dk.kpoints_all) - kpts + 0.5) % 1 - 0.5)) > 1e-12:
            raise Violation("kpoints_all", f"{lib}: k-points of the FFT grid differ from points_FFT+dK")
        # a result obtained first and kept by the caller while further transforms are requested from the same object
        held = dk.rvec.R_to_k(np.array(dk.get_R_mat("Ham"), copy=True), der=0, hermitian=False)
        held_copy = np.array(held, copy=True)
        if reldiff(held, refH) > TOL:
            raise Violation(f"{lib}-vs-explicit-sum", f"Ham der=0 hermitian=False: rel diff {reldiff(held, refH):.2e}")
        for key in ("Ham", "AA"):
            XR = np.array(dk.get_R_mat(key), copy=True)
            got = dk.rvec.R_to_k(XR, der=der, hermitian=True)
            results[(lib, key)] = got
            d = reldiff(got, ref[key])
            if d > TOL:
                raise Violation(f"{lib}-vs-explicit-sum", f"{key} der={der}: rel diff {d:.2e} NKFFT={NKFFT.tolist()}")
            if reldiff(got, np.conj(np.swapaxes(got, 1, 2))) > TOL:
                raise Violation("hermiticity", f"{lib} {key} der={der} not Hermitian")
        HH = np.array(dk.HH_K)
        if reldiff(HH, refH) > TOL:
            raise Violation(f"{lib}-HH_K", f"HH_K differs from explicit sum by {reldiff(HH, refH):.2e}")
        if reldiff(HH, np.conj(np.swapaxes(HH, 1, 2))) > 1e-13:
            raise Violation("hermiticity", f"{lib} HH_K not Hermitian")
        # band-gauge derivative matrices: undo the rotation with the returned eigenvectors
        E = np.array(dk.E_K)
        refE = np.array([np.linalg.eigvalsh(h) for h in refH])
        if reldiff(E, refE) > TOL:
            raise Violation(f"{lib}-E_K", f"band energies differ by {reldiff(E, refE):.2e}")
        if der >= 1:
            Xb = np.array(dk.Xbar("Ham", der))
            U = np.array(dk.UU_K)
            back = np.einsum("kab,kbc...,kdc->kad...", U, Xb, U.conj())
            d = reldiff(back, ref["Ham"])
            if d > TOL:
                raise Violation(f"{lib}-Xbar", f"Xbar('Ham',{der}) un-rotated differs from explicit sum by {d:.2e}")
            if reldiff(Xb, np.conj(np.swapaxes(Xb, 1, 2))) > TOL:
                raise Violation("hermiticity", f"{lib} Xbar('Ham',{der}) not Hermitian")
        got_nh = dk.rvec.R_to_k(np.array(dk.get_R_mat("Ham"), copy=True), der=der, hermitian=False)
        if reldiff(got_nh, ref["Ham"]) > TOL:
            raise Violation(f"{lib}-vs-explicit-sum", f"Ham der={der} hermitian=False: rel diff {reldiff(got_nh, ref['Ham']):.2e}")
        if not np.array_equal(held, held_copy):
            raise Violation(f"{lib}-result-overwritten",
                            f"the der=0 result returned first was changed by later transforms of the same object (der={der}): "
                            f"max change {np.max(np.abs(held - held_copy)):.3e}")
        if lib != "klist":
            # documented option of the transform object: result kept in the shape of the FFT grid
            for herm in (True, False):
                g = dk.rvec.fft_R_to_k(np.array(dk.get_R_mat("Ham"), copy=True), hermitian=herm, reshapeKline=False)
                want = refH.reshape(tuple(int(x) for x in NKFFT) + refH.shape[1:])
                if g.shape != want.shape or reldiff(g, want) > TOL:
                    raise Violation(f"{lib}-grid-shaped", f"reshapeKline=False hermitian={herm}: shape {g.shape} vs {want.shape}"
                                    + (f", rel diff {reldiff(g, want):.2e}" if g.shape == want.shape else ""))
        # the same R-vector object re-used for a second grid shift (sequence of API calls on one object)
        if lib != "klist":
            dK2 = (dK + np.array(case.get("dK2", [0.31, 0.17, 0.43]))) % 1
            kpts2 = wbsys.mp_points(NKFFT) + dK2[None, :]
            rv = dk.rvec
            rv.set_fft_R_to_k(NK=NKFFT, num_wann=model.nw, fftlib=lib, dK=dK2.copy())
            got2 = rv.R_to_k(rv.apply_expdK(np.array(s.get_R_mat("Ham"), copy=True)), der=der, hermitian=True)
            ref2 = np.array([model.Xk("Ham", kk, der=der) for kk in kpts2])
            d = reldiff(got2, ref2)
            if d > TOL:
                raise Violation(f"{lib}-second-shift", f"Ham der={der} after re-setting dK on the same Rvectors object: "
                                                       f"rel diff {d:.2e}")
    for key in ("Ham", "AA"):
        for lib in ("numpy", "slow", "klist"):
            d = reldiff(results[("fftw", key)], results[(lib, key)])
            if d > TOL:
                raise Violation("backends-differ", f"fftw vs {lib} {key} der={der}: {d:.2e}")
    Rmod = {tuple(r) for r in (model.iRvec % NKFFT)}
    collide = len(Rmod) < len(model.iRvec)
    nz_dK = bool(np.any(dK != 0))
    return ok(collide or der >= 2 or nz_dK, "collide" if collide else None, f"der={der}", "dK!=0" if nz_dK else "dK=0",
              f"nw={model.nw}", case["model"]["ckind"], case["model"]["lat"]["kind"])


SUBS = [Sub("backends", case_st, check, quick=160, thorough=2400)]
