"""C19  Wannier90 files written by the code can be read back  (DESIGN 4/C19)

text : EIG / AMN / MMN objects built from generated numbers -> to_w90_file -> from_w90_file -> `equals` and an own
       element-wise comparison with the generated numbers at the printed precision of each writer
npz  : every file class (EIG, AMN, MMN, UHU, UIU, SIU, SHU, SPN, SOC, UNK, BKVectors, CheckPoint, WIN)
       -> to_npz -> from_npz -> `equals` (where the class has data) and an own attribute-by-attribute comparison
box  : a WannierData container holding several consistent files -> to_npz/from_npz (file by file) and
       write(files=[eig, amn, mmn]) -> the class readers

The oracle is the generated plain-numpy data itself (nothing is compared with a second run of the same code).
"""
import copy
import inspect
import os
import types
import contextlib

import numpy as np
from hypothesis import strategies as st

from vlib.runner import Sub, Violation, Reject, ok
from vlib.util import rng_of, scratch_dir
from vlib import wbsys

PROPERTY_ID = "C19"
RULE = ("NK 1..6 (text) / mp grids with 1..12 points (MMN, container), NB 1..6, NW 1..NB, NNB from a real "
        "BKVectors.from_kpoints of a generated lattice (6..12) or free 1..8 for npz, values O(1) complex mixed with exact "
        "0, +-1e-10 and 1e3, optionally only a subset of the k-points present (irreducible storage) or read back; "
        "non-trivial = NK>=2 and (NB != NW for AMN / NB>=2 otherwise), or NNB>=6")
ASSUMPTIONS = [
    "printed precision: %17.12f -> 5e-13 absolute (EIG, AMN); MMN writes repr(float) -> exact to 1 ulp; npz -> exact",
    "the multiprocessing.Pool used by the AMN/MMN text readers is replaced by an in-process serial map (the runner's "
    "workers are daemonic and may not fork; also avoids leaking pools) - pooling is not part of the property",
    "MMN.to_w90_file is called with bkvec=<BKVectors> when its signature offers that parameter, else with the seedname only",
    "WannierData.write is called with the explicit list of files that offer writing (eig, amn, mmn)",
    "classes without a usable `equals` (BKVectors, CheckPoint, WIN) are compared attribute by attribute by the harness",
]
MIN_NONTRIVIAL = {"quick": 300, "thorough": 8000}

TOL_F12 = 5.01e-13


# ------------------------------------------------------------------------------------------------
# helpers


class _SerialPool:
    def __init__(self, *a, **k):
        pass

    def map(self, f, it, chunksize=None):
        return [f(x) for x in it]

    def close(self):
        pass

    def join(self):
        pass

    def terminate(self):
        pass

    def __enter__(self):
        return self

    def __exit__(self, *a):
        return False


@contextlib.contextmanager
def serial_pool():
    import multiprocessing
    import wannierberri.w90files.amn as amn_mod
    import wannierberri.w90files.mmn as mmn_mod
    shim = types.SimpleNamespace(Pool=_SerialPool, cpu_count=lambda: 1)
    old = (amn_mod.multiprocessing, mmn_mod.multiprocessing)
    amn_mod.multiprocessing = shim
    mmn_mod.multiprocessing = shim
    try:
        yield
    finally:
        amn_mod.multiprocessing, mmn_mod.multiprocessing = old
        assert old[0] is multiprocessing


def values(rng, shape, mode, cplx=True):
    """generated numbers; 'mixed' sprinkles exact zeros, +-1e-10, ~1e3, purely real / purely imaginary entries"""
    a = rng.uniform(-1, 1, size=shape)
    if cplx:
        a = a + 1j * rng.uniform(-1, 1, size=shape)
    if mode == "mixed":
        sel = rng.integers(0, 8, size=shape)
        a = np.where(sel == 0, 0.0, a)
        a = np.where(sel == 1, 1e-10 * np.sign(a.real), a)
        a = np.where(sel == 2, 1e3 * a, a)
        if cplx:
            a = np.where(sel == 3, a.real, a)
            a = np.where(sel == 4, 1j * a.imag, a)                  # purely imaginary (odd-parity projections at TRIM)
            a = np.where(sel == 5, 1e-14 * a.real + 1j * a.imag, a)  # real part below the printed precision
    return a if cplx else a.real.astype(float)


def present_kpoints(NK, sparse, rng):
    if not sparse or NK == 1:
        return list(range(NK))
    n = int(rng.integers(1, NK))
    return sorted(int(x) for x in rng.choice(NK, size=n, replace=False))


def must_equal(a, b, what):
    """`a.equals(b)` of the code under test must say True"""
    r = a.equals(b)
    flag = r[0] if isinstance(r, tuple) else r
    if not flag:
        raise Violation(f"{what}:equals-false", f"equals() -> {r}")
    r = b.equals(a)
    flag = r[0] if isinstance(r, tuple) else r
    if not flag:
        raise Violation(f"{what}:equals-false", f"reverse equals() -> {r}")
    # negative control (guards the oracle): an O(1) relative change of one k-point must not compare equal
    b2 = copy.deepcopy(b)
    k0 = sorted(b2.data.keys())[0]
    b2.data[k0] = b2.data[k0] + (1.0 + np.abs(b2.data[k0]))
    r = a.equals(b2)
    flag = r[0] if isinstance(r, tuple) else r
    if flag:
        raise Violation(f"{what}:equals-vacuous", "equals() says True for data changed by more than 100%")


def same_array(x, y, what, name, tol_abs=0.0, tol_rel=0.0):
    x = np.asarray(x)
    y = np.asarray(y)
    if x.shape != y.shape:
        raise Violation(f"{what}:shape", f"{name}: {x.shape} != {y.shape}")
    if x.size == 0:
        return
    if x.dtype.kind in "US" or y.dtype.kind in "US":
        if not np.array_equal(x.astype(str), y.astype(str)):
            raise Violation(f"{what}:value", f"{name}: {x.tolist()} != {y.tolist()}")
        return
    if x.dtype.kind == "c" or y.dtype.kind == "c":
        parts = [(x.real, y.real), (x.imag, y.imag)]
    else:
        parts = [(x, y)]
    for g, w in parts:
        g = g.astype(float)
        w = w.astype(float)
        bad = np.abs(g - w) > tol_abs + tol_rel * np.abs(w)
        if np.any(bad):
            i = tuple(int(t) for t in np.argwhere(bad)[0])
            raise Violation(f"{what}:value", f"{name}{list(i)}: read {g[i]!r} written {w[i]!r} (diff {abs(g[i] - w[i]):.3e})")


def same_kdict(got, want, what, name, **tol):
    """dict {ik: array}: same keys (both directions), same arrays"""
    if not isinstance(got, dict):
        raise Violation(f"{what}:type", f"{name} is {type(got).__name__}, not a dict")
    kg = sorted(int(k) for k in got.keys())
    kw = sorted(int(k) for k in want.keys())
    if kg != kw:
        raise Violation(f"{what}:kpoints", f"{name}: k-points read {kg} written {kw}")
    for k in kw:
        same_array(got[k], want[k], what, f"{name}[{k}]", **tol)


def same_scalar(got, want, what, name):
    if isinstance(want, bool) or want is None:
        good = (got is not None) == (want is not None) and bool(got) == bool(want)
    else:
        good = np.ndim(got) == 0 and got == want
    if not good:
        raise Violation(f"{what}:attribute", f"{name}: {got!r} != {want!r}")


# attribute tables written from the class docstrings (independent of as_dict): scalars, arrays, k-dicts
ATTRS = {
    "EIG": (("NK", "NB"), (), ("data",)),
    "AMN": (("NK", "NB", "NW"), (), ("data",)),
    "MMN": (("NK", "NB", "NNB"), (), ("data", "bk_reorder")),
    "UHU": (("NK", "NB", "NNB"), (), ("data",)),
    "UIU": (("NK", "NB", "NNB"), (), ("data",)),
    "SIU": (("NK", "NB", "NNB"), (), ("data",)),
    "SHU": (("NK", "NB", "NNB"), (), ("data",)),
    "SPN": (("NK", "NB"), (), ("data",)),
    "SOC": (("NK", "NB", "nspin"), (), ("data", "overlap")),
    "UNK": (("NK", "NB", "spinor"), ("grid_size",), ("data",)),
    "BKVectors": (("NK", "NNB"), ("recip_lattice", "mp_grid", "wk", "bk_grid", "bk_cart", "bk_red", "kpt_grid", "kptirr"),
                  ("G", "neighbours")),
    "CheckPoint": (("num_wann", "num_bands", "num_kpts"), ("mp_grid", "real_lattice", "recip_lattice", "kpt_red"), ()),
}
AMN_OPTIONAL = ("positions", "orbitals", "radial_nodes_list", "basis_list", "spread_list")
CHK_OPTIONAL = ("wannier_centers_cart", "wannier_spreads", "selected_bands")


def compare_objects(a, b, what):
    """b (read back) must carry the same content as a (original): own attribute comparison, exact"""
    if type(a) is not type(b):
        raise Violation(f"{what}:type", f"{type(b).__name__} != {type(a).__name__}")
    name = type(a).__name__
    scalars, arrays, kdicts = ATTRS[name]
    for s in scalars:
        same_scalar(getattr(b, s), getattr(a, s), what, s)
    for s in arrays:
        same_array(getattr(b, s), getattr(a, s), what, s)
    for s in kdicts:
        same_kdict(getattr(b, s), getattr(a, s), what, s)
    optional = AMN_OPTIONAL if name == "AMN" else CHK_OPTIONAL if name == "CheckPoint" else ()
    for s in optional:
        va = getattr(a, s, None)
        vb = getattr(b, s, None)
        if (va is None) != (vb is None):
            raise Violation(f"{what}:optional-attribute", f"{s}: written {va is not None}, read {vb is not None}")
        if va is not None:
            same_array(vb, va, what, s)
    if name == "AMN":
        same_scalar(b.spinor, a.spinor, what, "spinor")
    if name == "CheckPoint":
        va = getattr(a, "v_matrix", None)
        vb = getattr(b, "v_matrix", None)
        if (va is None) != (vb is None):
            raise Violation(f"{what}:optional-attribute", "v_matrix presence differs")
        if va is not None:
            same_kdict(vb, va, what, "v_matrix")
        if bool(a.wannierised) != bool(b.wannierised):
            raise Violation(f"{what}:attribute", "wannierised flag differs")


def make_bkvec(lat, mp_grid, rng, kptirr=None):
    """a real BKVectors for the generated lattice; (bkvec, kpoints_red)"""
    from wannierberri.w90files.bkvectors import BKVectors
    L = wbsys.lattice_matrix(lat)
    recip = 2 * np.pi * np.linalg.inv(L).T
    kpts = wbsys.mp_points(mp_grid)
    kpts = kpts[rng.permutation(len(kpts))]
    try:
        bk = BKVectors.from_kpoints(recip_lattice=recip, mp_grid=np.array(mp_grid), kpoints_red=kpts, kptirr=kptirr)
    except RuntimeError as e:  # shell search is the subject of C22, not of this property
        raise Reject("no complete b-vector shell set found: " + str(e)[:40])
    return bk, kpts


def write_mmn(mmn, seed, bkvec):
    if "bkvec" in inspect.signature(mmn.to_w90_file).parameters:
        mmn.to_w90_file(seed, bkvec=bkvec)
    else:
        mmn.to_w90_file(seed)


# ------------------------------------------------------------------------------------------------
# text: EIG

_vals = st.sampled_from(["O1", "mixed"])
_rs = st.integers(0, 2 ** 32)

eig_st = st.fixed_dictionaries(dict(NK=st.integers(1, 6), NB=st.integers(1, 6), vals=_vals, rs=_rs,
                                    select=st.booleans(), scale=st.sampled_from([1.0, 1.0, 30.0, 1e3])))


def check_eig(case):
    from wannierberri.w90files.eig import EIG
    rng = rng_of(case["rs"])
    NK, NB = case["NK"], case["NB"]
    E = values(rng, (NK, NB), case["vals"], cplx=False) * case["scale"]
    eig = EIG(data={ik: E[ik].copy() for ik in range(NK)}, NK=NK)
    sel = present_kpoints(NK, case["select"], rng)
    with scratch_dir() as d:
        seed = os.path.join(d, "w90")
        eig.to_w90_file(seed)
        if not os.path.exists(seed + ".eig"):
            raise Violation("eig:file-missing", "no .eig written")
        back = EIG.from_w90_file(seed, selected_kpoints=sel) if case["select"] else EIG.from_w90_file(seed)
    same_scalar(back.NK, NK, "eig", "NK")
    same_scalar(back.NB, NB, "eig", "NB")
    same_kdict(back.data, {ik: E[ik] for ik in sel}, "eig", "data", tol_abs=TOL_F12, tol_rel=1e-15)
    if not case["select"]:
        must_equal(eig, back, "eig")
    return ok(NK >= 2 and NB >= 2, "eig", f"NK={NK}", f"NB={NB}", case["vals"], "subset-read" if case["select"] else None,
              "NK=NB=1" if NK == 1 and NB == 1 else None)


# ------------------------------------------------------------------------------------------------
# text: AMN

amn_st = st.fixed_dictionaries(dict(NK=st.integers(1, 6), NB=st.integers(1, 6), NWr=st.sampled_from(range(6)), vals=_vals, rs=_rs))


def check_amn(case):
    from wannierberri.w90files.amn import AMN
    rng = rng_of(case["rs"])
    NK, NB = case["NK"], case["NB"]
    NW = 1 + case["NWr"] % NB
    A = values(rng, (NK, NB, NW), case["vals"])
    amn = AMN(data={ik: A[ik].copy() for ik in range(NK)}, NK=NK)
    with scratch_dir() as d:
        seed = os.path.join(d, "w90")
        amn.to_w90_file(seed)
        if not os.path.exists(seed + ".amn"):
            raise Violation("amn:file-missing", "no .amn written")
        with serial_pool():
            back = AMN.from_w90_file(seed, npar=1)
    for n, v in (("NK", NK), ("NB", NB), ("NW", NW)):
        same_scalar(getattr(back, n), v, "amn", n)
    same_kdict(back.data, {ik: A[ik] for ik in range(NK)}, "amn", "data", tol_abs=TOL_F12, tol_rel=1e-15)
    must_equal(amn, back, "amn")
    return ok(NK >= 2 and NB != NW, "amn", f"NK={NK}", f"NB={NB}", f"NW={NW}", "NB!=NW" if NB != NW else "NB==NW", case["vals"])


# ------------------------------------------------------------------------------------------------
# text: MMN (with a real BKVectors)

MP_GRIDS = [[1, 1, 1], [2, 1, 1], [1, 2, 1], [2, 2, 1], [1, 1, 3], [3, 2, 1], [2, 2, 2], [1, 3, 2], [3, 2, 2], [4, 1, 1]]
# lattices for which BKVectors.from_kpoints finds its shells (rhombohedral cells and bcc with anisotropic meshes are
# refused by find_bk_vectors - subject of C22; a refusal is counted as Reject here)
BK_LATTICES = ["generic", "sc", "fcc", "bcc", "tetragonal", "orthorhombic", "hexagonal", "monoclinic"]


def _bk_ok(c):
    return c["lat"]["kind"] != "bcc" or len(set(c["mp"])) == 1


mmn_st = st.fixed_dictionaries(dict(lat=wbsys.lattice_st(kinds=BK_LATTICES), mp=st.sampled_from(MP_GRIDS),
                                    NB=st.integers(1, 4), vals=_vals, rs=_rs, select=st.booleans(),
                                    via=st.sampled_from(["direct", "direct", "container"]),
                                    # the written object was read from a file with another neighbour order (1 in 3)
                                    foreign=st.sampled_from([False, True, False]))).filter(_bk_ok)


def check_mmn(case):
    from wannierberri.w90files.mmn import MMN
    rng = rng_of(case["rs"])
    bkvec, _ = make_bkvec(case["lat"], case["mp"], rng)
    NK, NNB, NB = bkvec.NK, bkvec.NNB, case["NB"]
    M = values(rng, (NK, NNB, NB, NB), case["vals"])
    mmn = MMN(data={ik: M[ik].copy() for ik in range(NK)}, NK=NK)
    sel = present_kpoints(NK, case["select"], rng)
    with scratch_dir() as d:
        seed = os.path.join(d, "w90")
        if case.get("foreign"):
            # a legal .mmn of another program: the harness' own writer lists the neighbours of every k-point in a drawn order;
            # the reader sorts them into the order of `bkvec` (bk_reorder is then not the identity), and THAT object is written
            fseed = os.path.join(d, "foreign")
            perms = {ik: rng.permutation(NNB) for ik in range(NK)}
            with open(fseed + ".mmn", "w") as f:
                f.write("written by the harness\n")
                f.write(f"{NB} {NK} {NNB}\n")
                for ik in range(NK):
                    for ib in perms[ik]:
                        f.write(f"{ik + 1} {int(bkvec.neighbours[ik][ib]) + 1} {' '.join(str(int(g)) for g in bkvec.G[ik][ib])}\n")
                        for m_ in range(NB):
                            for n_ in range(NB):
                                z = M[ik][ib, n_, m_]
                                f.write(f"{float(z.real)!r} {float(z.imag)!r}\n")
            with serial_pool():
                mmn = MMN.from_w90_file(fseed, bkvec=bkvec, npar=1)
            same_kdict(mmn.data, {ik: M[ik] for ik in range(NK)}, "mmn-foreign-read", "data", tol_rel=4e-16)
        if case["via"] == "container":
            from wannierberri.w90files.wandata import WannierData
            box = WannierData()
            box.set_file("bkvec", bkvec)
            box.set_file("mmn", mmn)
            box.write(seed, files=["mmn"])
        else:
            write_mmn(mmn, seed, bkvec)
        if not os.path.exists(seed + ".mmn"):
            raise Violation("mmn:file-missing", "no .mmn written")
        with serial_pool():
            if case["select"]:
                back = MMN.from_w90_file(seed, bkvec=bkvec, npar=1, selected_kpoints=sel)
            else:
                back = MMN.from_w90_file(seed, bkvec=bkvec, npar=1)
    for n, v in (("NK", NK), ("NB", NB), ("NNB", NNB)):
        same_scalar(getattr(back, n), v, "mmn", n)
    same_kdict(back.data, {ik: M[ik] for ik in sel}, "mmn", "data", tol_rel=4e-16)
    same_kdict(back.bk_reorder, {ik: np.arange(NNB) for ik in sel}, "mmn", "bk_reorder")
    if not case["select"] and not case.get("foreign"):
        must_equal(mmn, back, "mmn")
    return ok(NNB >= 6 and (NK >= 2 or NB >= 2), "mmn", f"NK={NK}", f"NB={NB}", f"NNB={NNB}", case["lat"]["kind"], case["vals"],
              f"via={case['via']}", "subset-read" if case["select"] else None,
              "read-from-foreign-neighbour-order" if case.get("foreign") else "built-in-bkvec-order")


# ------------------------------------------------------------------------------------------------
# npz of every file class

NPZ_KINDS = ["EIG", "AMN", "MMN", "UHU", "UIU", "SIU", "SHU", "SPN", "SOC", "UNK", "BKVectors", "CheckPoint", "WIN"]

npz_st = st.fixed_dictionaries(dict(kind=st.sampled_from(NPZ_KINDS), NK=st.integers(1, 6), NB=st.integers(1, 5),
                                    NWr=st.sampled_from(range(6)), NNB=st.integers(1, 8), sparse=st.booleans(), vals=_vals,
                                    rs=_rs, optbits=st.sampled_from(range(16)),
                                    lat=wbsys.lattice_st(kinds=BK_LATTICES), mp=st.sampled_from(MP_GRIDS))).filter(_bk_ok)


def build_object(case, rng):
    """(object, label list); data dictionaries hold only the 'present' k-points"""
    import wannierberri.w90files as W
    from wannierberri.w90files.soc import SOC
    from wannierberri.w90files.chk import CheckPoint
    from wannierberri.w90files.win import WIN
    kind = case["kind"]
    NK, NB, NNB = case["NK"], case["NB"], case["NNB"]
    NW = 1 + case["NWr"] % NB
    ks = present_kpoints(NK, case["sparse"], rng)
    mode = case["vals"]
    opt = [bool(case["optbits"] >> i & 1) for i in range(4)]

    def kd(shape):
        return {ik: values(rng, shape, mode) for ik in ks}
    if kind == "EIG":
        return W.EIG(data={ik: values(rng, (NB,), mode, cplx=False) for ik in ks}, NK=NK), []
    if kind == "AMN":
        kw = {}
        if opt[0]:
            kw = dict(positions=rng.uniform(0, 1, (NW, 3)), orbitals=np.array([["s", "pz", "dxy"][i % 3] for i in range(NW)]),
                      radial_nodes_list=rng.integers(0, 3, NW), basis_list=rng.uniform(-1, 1, (NW, 3, 3)),
                      spread_list=rng.uniform(0.5, 2, NW))
        if opt[1]:
            kw["spinor"] = bool(opt[2])
        return W.AMN(data=kd((NB, NW)), NK=NK, **kw), ["amn-optional-tags" if opt[0] else None]
    if kind == "MMN":
        reorder = {ik: rng.permutation(NNB) for ik in ks} if opt[0] else None
        return W.MMN(data=kd((NNB, NB, NB)), NK=NK, bk_reorder=reorder), ["bk_reorder-given" if opt[0] else None]
    if kind in ("UHU", "UIU"):
        return getattr(W, kind)(data=kd((NNB, NNB, NB, NB)), NK=NK), []
    if kind in ("SIU", "SHU"):
        return getattr(W, kind)(data=kd((NNB, NB, NB, 3)), NK=NK), []
    if kind == "SPN":
        return W.SPN(data=kd((NB, NB, 3)), NK=NK), []
    if kind == "SOC":
        nspin = 2 if opt[0] else 1
        return SOC(data=kd((nspin, nspin, 3, NB, NB)), NK=NK, overlap=kd((NB, NB))), [f"nspin={nspin}"]
    if kind == "UNK":
        nsp = 2 if opt[0] else 1
        g = (1 + int(opt[1]), 2, 1 + 2 * int(opt[2]))
        return W.UNK(data=kd((NB,) + g + (nsp,)), NK=NK), [f"nspinor={nsp}"]
    if kind == "BKVectors":
        nk = int(np.prod(case["mp"]))
        kptirr = present_kpoints(nk, case["sparse"], rng)
        bk, _ = make_bkvec(case["lat"], case["mp"], rng, kptirr=kptirr if case["sparse"] else None)
        return bk, [f"bk-NNB={bk.NNB}", "kptirr-subset" if case["sparse"] and len(kptirr) < nk else None]
    if kind == "CheckPoint":
        mp = case["mp"]
        nk = int(np.prod(mp))
        kw = dict(real_lattice=wbsys.lattice_matrix(case["lat"]), num_wann=NW, num_bands=NB, num_kpts=nk,
                  kpt_red=wbsys.mp_points(mp), mp_grid=np.array(mp))
        if opt[0]:
            kk = present_kpoints(nk, case["sparse"], rng)
            kw["v_matrix"] = {ik: values(rng, (NB, NW), mode) for ik in kk}
        if opt[1]:
            kw["wannier_centers_cart"] = rng.uniform(-2, 2, (NW, 3))
        if opt[2]:
            kw["wannier_spreads"] = rng.uniform(0.1, 3, NW)
        if opt[3]:
            kw["selected_bands"] = np.arange(NB) + 2
        return CheckPoint(**kw), ["chk-v_matrix" if opt[0] else "chk-bare"]
    if kind == "WIN":
        w = WIN(seedname="verif_seed")
        mp = case["mp"]
        w["num_wann"] = NW
        w["num_bands"] = NB
        w["mp_grid"] = np.array(mp)
        w["unit_cell_cart"] = wbsys.lattice_matrix(case["lat"])
        w["kpoints"] = wbsys.mp_points(mp)
        if opt[0]:
            w["projections"] = ["Fe:d", "Fe:sp3"][:1 + int(opt[1])]
        if opt[2]:
            w["dis_froz_max"] = float(rng.uniform(-5, 5))
        return w, []
    raise RuntimeError(kind)


def check_npz(case):
    rng = rng_of(case["rs"])
    obj, labels = build_object(case, rng)
    cls = type(obj)
    kind = case["kind"]
    with scratch_dir() as d:
        fn = os.path.join(d, "w90." + str(getattr(cls, "extension", "x")) + ".npz")
        ret = obj.to_npz(fn)
        if not os.path.exists(fn):
            raise Violation(f"npz-{kind}:file-missing", "to_npz wrote no file of the given name")
        back = cls.from_npz(fn)
    if ret is not None and ret is not obj:
        raise Violation(f"npz-{kind}:to_npz-return", "to_npz returns another object")
    what = f"npz-{kind}"
    if kind == "WIN":
        if type(back) is not cls:
            raise Violation(f"{what}:type", type(back).__name__)
        da, db = obj.as_dict(), back.as_dict()
        if sorted(da) != sorted(db):
            raise Violation(f"{what}:keys", f"{sorted(db)} != {sorted(da)}")
        for k in da:
            same_array(db[k], da[k], what, k)
    else:
        compare_objects(obj, back, what)
        if hasattr(obj, "data"):
            must_equal(obj, back, what)
    NK = case["NK"]
    nt = (NK >= 2 and case["NB"] >= 2) or (kind in ("MMN", "UHU", "UIU", "SIU", "SHU") and case["NNB"] >= 6) or \
        (kind == "BKVectors" and obj.NNB >= 6)
    return ok(nt, kind, "sparse-k" if case["sparse"] else "all-k", case["vals"], *labels)


# ------------------------------------------------------------------------------------------------
# container

BOX_OPTIONAL = ["spn", "uhu", "uiu", "siu", "shu", "amn", "eig"]

box_st = st.fixed_dictionaries(dict(lat=wbsys.lattice_st(kinds=BK_LATTICES), mp=st.sampled_from(MP_GRIDS[:9]),
                                    NB=st.integers(1, 4), NWr=st.sampled_from(range(4)), vals=_vals, rs=_rs, sparse=st.booleans(),
                                    files=st.lists(st.sampled_from(BOX_OPTIONAL), unique=True, max_size=5),
                                    chk_v=st.booleans(),
                                    # an irreducible container that is already wannierised: v_matrix for ALL k-points
                                    chk_full=st.booleans(),
                                    # order in which the files are loaded (None = the loader's default list)
                                    load_order=st.sampled_from(["sorted", "reversed", "chk-last", "default"]))).filter(_bk_ok)


def check_box(case):
    import wannierberri.w90files as W
    from wannierberri.w90files.wandata import WannierData
    from wannierberri.w90files.chk import CheckPoint
    rng = rng_of(case["rs"])
    mp = case["mp"]
    nk = int(np.prod(mp))
    ks = present_kpoints(nk, case["sparse"], rng)
    sparse = len(ks) < nk
    bkvec, kpts = make_bkvec(case["lat"], mp, rng, kptirr=ks if sparse else None)
    NK, NNB, NB = bkvec.NK, bkvec.NNB, case["NB"]
    NW = 1 + case["NWr"] % NB
    mode = case["vals"]

    def kd(shape, cplx=True):
        return {ik: values(rng, shape, mode, cplx=cplx) for ik in ks}
    chk_kw = dict(real_lattice=wbsys.lattice_matrix(case["lat"]), num_wann=NW, num_bands=NB, num_kpts=NK, kpt_red=kpts,
                  mp_grid=np.array(mp))
    if case["chk_v"]:
        chk_kw["v_matrix"] = ({ik: values(rng, (NB, NW), mode) for ik in range(NK)} if case.get("chk_full") else kd((NB, NW)))
        chk_kw["wannier_centers_cart"] = rng.uniform(-2, 2, (NW, 3))
    files = {"chk": CheckPoint(**chk_kw), "bkvec": bkvec, "mmn": W.MMN(data=kd((NNB, NB, NB)), NK=NK)}
    shapes = dict(spn=(NB, NB, 3), uhu=(NNB, NNB, NB, NB), uiu=(NNB, NNB, NB, NB), siu=(NNB, NB, NB, 3),
                  shu=(NNB, NB, NB, 3), amn=(NB, NW))
    classes = dict(spn=W.SPN, uhu=W.UHU, uiu=W.UIU, siu=W.SIU, shu=W.SHU, amn=W.AMN)
    for f in case["files"]:
        if f == "eig":
            files["eig"] = W.EIG(data=kd((NB,), cplx=False), NK=NK)
        else:
            files[f] = classes[f](data=kd(shapes[f]), NK=NK)
    box = WannierData()
    for k in sorted(files):
        box.set_file(k, files[k])
    names = sorted(files)
    text = [f for f in ("eig", "amn", "mmn") if f in files] if not sparse else []
    with scratch_dir() as d:
        seed = os.path.join(d, "sub", "w90")
        box.to_npz(seed)
        order = case.get("load_order", "sorted")
        if order == "default":
            box2 = WannierData.from_npz(seed)          # default file list, missing files are skipped
        else:
            lst = list(names) if order == "sorted" else list(names)[::-1] if order == "reversed" else \
                [n for n in names if n != "chk"] + ["chk"]
            box2 = WannierData.from_npz(seed, files=lst, ignore_missing_files=False)
        back_text = {}
        if text:
            tseed = os.path.join(d, "txt")
            box.write(tseed, files=list(text))
            with serial_pool():
                if "eig" in text:
                    back_text["eig"] = W.EIG.from_w90_file(tseed)
                if "amn" in text:
                    back_text["amn"] = W.AMN.from_w90_file(tseed, npar=1)
                if "mmn" in text:
                    back_text["mmn"] = W.MMN.from_w90_file(tseed, bkvec=bkvec, npar=1)
    got = sorted(box2._files)
    if got != names:
        raise Violation("box:files", f"container read back holds {got}, written {names}")
    for k in names:
        compare_objects(files[k], box2.get_file(k), f"box-npz-{k}")
        if hasattr(files[k], "data"):
            must_equal(files[k], box2.get_file(k), f"box-npz-{k}")
    if bool(box2.irreducible) != sparse:
        raise Violation("box:irreducible-flag", f"irreducible={box2.irreducible} for {len(ks)} of {NK} k-points stored")
    if bool(box2.wannierised) != bool(case["chk_v"]):
        raise Violation("box:wannierised-flag", f"wannierised={box2.wannierised}, v_matrix given: {case['chk_v']}")
    for k, b in back_text.items():
        tol = dict(tol_rel=4e-16) if k == "mmn" else dict(tol_abs=TOL_F12, tol_rel=1e-15)
        same_kdict(b.data, files[k].data, f"box-text-{k}", "data", **tol)
        must_equal(files[k], b, f"box-text-{k}")
    nt = NNB >= 6 and (NK >= 2 or NB >= 2)
    return ok(nt, "box", f"NK={NK}", f"NNB={NNB}", f"nfiles={len(names)}", "sparse-k" if sparse else "all-k",
              "text:" + "+".join(text) if text else "text:none", "chk-wannierised" if case["chk_v"] else None)



# ------------------------------------------------------------------------------------------------
# socbox: WannierDataSOC container (two spin channels + SOC file + cell) -> to_npz -> from_npz

SOCBOX_OPTIONAL = ["spn", "amn", "eig", "uhu"]

socbox_st = st.fixed_dictionaries(dict(lat=wbsys.lattice_st(kinds=BK_LATTICES), mp=st.sampled_from(MP_GRIDS[:6]),
                                       NB=st.integers(1, 4), NWr=st.sampled_from(range(4)), vals=_vals, rs=_rs,
                                       sparse=st.booleans(), nspin=st.sampled_from([1, 2, 2]),
                                       files=st.lists(st.sampled_from(SOCBOX_OPTIONAL), unique=True, max_size=4),
                                       has_soc=st.booleans(), has_cell=st.booleans(), chk_v=st.booleans(),
                                       # which files are written / asked back: everything, or an explicit list
                                       explicit=st.booleans())).filter(_bk_ok)


def check_socbox(case):
    import wannierberri.w90files as W
    from wannierberri.w90files.wandata import WannierData
    from wannierberri.w90files.wandata_soc import WannierDataSOC
    from wannierberri.w90files.chk import CheckPoint
    from wannierberri.w90files.soc import SOC
    rng = rng_of(case["rs"])
    mp = case["mp"]
    nk = int(np.prod(mp))
    ks = present_kpoints(nk, case["sparse"], rng)
    sparse = len(ks) < nk
    nspin = case["nspin"]
    NB = case["NB"]
    NW = 1 + case["NWr"] % NB
    mode = case["vals"]
    channels = []
    for ispin in range(nspin):
        bkvec, kpts = make_bkvec(case["lat"], mp, rng, kptirr=ks if sparse else None)
        NK, NNB = bkvec.NK, bkvec.NNB

        def kd(shape, cplx=True):
            return {ik: values(rng, shape, mode, cplx=cplx) for ik in ks}
        chk_kw = dict(real_lattice=wbsys.lattice_matrix(case["lat"]), num_wann=NW, num_bands=NB, num_kpts=NK, kpt_red=kpts,
                      mp_grid=np.array(mp))
        if case["chk_v"]:
            chk_kw["v_matrix"] = kd((NB, NW))
            chk_kw["wannier_centers_cart"] = rng.uniform(-2, 2, (NW, 3))
        files = {"chk": CheckPoint(**chk_kw), "bkvec": bkvec, "mmn": W.MMN(data=kd((NNB, NB, NB)), NK=NK)}
        shapes = dict(spn=(NB, NB, 3), uhu=(NNB, NNB, NB, NB), amn=(NB, NW))
        classes = dict(spn=W.SPN, uhu=W.UHU, amn=W.AMN)
        for f in case["files"]:
            if f == "eig":
                files["eig"] = W.EIG(data=kd((NB,), cplx=False), NK=NK)
            else:
                files[f] = classes[f](data=kd(shapes[f]), NK=NK)
        box = WannierData()
        for k in sorted(files):
            box.set_file(k, files[k])
        channels.append((box, files))
    soc = None
    if case["has_soc"]:
        soc = SOC(data={ik: values(rng, (nspin, nspin, 3, NB, NB), mode) for ik in ks}, NK=NK,
                  overlap={ik: values(rng, (NB, NB), mode) for ik in ks})
    cell = None
    if case["has_cell"]:
        nat = 1 + case["rs"] % 3
        cell = dict(magmoms_on_axis=rng.uniform(-2, 2, nat), typat=rng.integers(1, 5, nat),
                    positions=rng.uniform(0, 1, (nat, 3)))
    names = sorted(channels[0][1])
    whole = WannierDataSOC(data_up=channels[0][0], data_down=channels[1][0] if nspin == 2 else None, soc=soc, cell=cell)
    lst = None
    if case["explicit"]:
        lst = list(names) + (["soc"] if soc is not None else [])
    with scratch_dir() as d:
        seed = os.path.join(d, "sub", "w90soc")
        whole.to_npz(seed, files=lst)
        back = WannierDataSOC.from_npz(seed, nspin=nspin, files=None if lst is None else list(lst), irreducible=sparse)
    if back.nspin != nspin:
        raise Violation("socbox:nspin", f"read back nspin={back.nspin}, written {nspin}")
    if (back.data_down is None) != (nspin == 1):
        raise Violation("socbox:data_down", f"data_down present: {back.data_down is not None} for nspin={nspin}")
    for ispin, (box, files) in enumerate(channels):
        b2 = back.data_up if ispin == 0 else back.data_down
        got = sorted(b2._files)
        if got != names:
            raise Violation("socbox:files", f"spin {ispin}: container read back holds {got}, written {names}")
        for k in names:
            compare_objects(files[k], b2.get_file(k), f"socbox-npz-spin{ispin}-{k}")
            if hasattr(files[k], "data"):
                must_equal(files[k], b2.get_file(k), f"socbox-npz-spin{ispin}-{k}")
        if bool(b2.irreducible) != sparse:
            raise Violation("socbox:irreducible-flag", f"spin {ispin}: irreducible={b2.irreducible}, {len(ks)} of {NK} stored")
    if bool(back.irreducible) != sparse:
        raise Violation("socbox:irreducible-flag", f"container irreducible={back.irreducible}, {len(ks)} of {NK} stored")
    if soc is None:
        if back.has_file("soc"):
            raise Violation("socbox:soc-invented", "a SOC file was read back although none was written")
    else:
        if not back.has_file("soc"):
            raise Violation("socbox:soc-lost", "the SOC file written with the container was not read back")
        compare_objects(soc, back.get_file("soc"), "socbox-npz-soc")
        must_equal(soc, back.get_file("soc"), "socbox-npz-soc")
    if cell is None:
        if back.cell is not None:
            raise Violation("socbox:cell-invented", f"cell read back: {back.cell}")
    else:
        if back.cell is None or sorted(back.cell) != sorted(cell):
            raise Violation("socbox:cell-keys", f"cell read back {None if back.cell is None else sorted(back.cell)}, written {sorted(cell)}")
        for k in cell:
            same_array(np.asarray(back.cell[k]), np.asarray(cell[k]), "socbox-cell", k)
    nt = nspin == 2 or soc is not None
    return ok(nt, "socbox", f"nspin={nspin}", "soc" if soc is not None else "no-soc", "cell" if cell is not None else "no-cell",
              "sparse-k" if sparse else "all-k", "explicit-list" if lst is not None else "all-files", f"nfiles={len(names)}")


SUBS = [
    Sub("eig_text", eig_st, check_eig, quick=480, thorough=10000),
    Sub("amn_text", amn_st, check_amn, quick=480, thorough=10000),
    Sub("mmn_text", mmn_st, check_mmn, quick=400, thorough=8000),
    Sub("npz", npz_st, check_npz, quick=1200, thorough=24000),
    Sub("box", box_st, check_box, quick=320, thorough=8000),
    Sub("socbox", socbox_st, check_socbox, quick=200, thorough=5000),
]
