"""C24  Wannierisation produces a valid gauge that honours the windows  (DESIGN 4/C24)

Code under test: wannierberri.wannierisation.wannierise.wannierise (+ Wannierizer, Kpoint_and_neighbours,
utility.get_max_eig / orthogonalize / select_window_degen) on a synthetic WannierData assembled by hand:
  parent tight-binding model (vlib.wbsys) -> eigenvectors U(k) on a small Monkhorst-Pack mesh, optionally spin-multiplied
  (every parent band m-fold, internal splitting 0 / 1e-3 / 3e-3 eV, random unitary mixing inside each multiplet)
  eig = bands,  mmn[k][b] = U(k)^+ diag(e^{-i b.t}) U(k+b)  with the b-vectors of BKVectors.from_kpoints,
  amn = U(k)^+ g  for NW random trial orbitals g   (variant 'random': mmn and amn are arbitrary complex matrices).
Windows are built from the band structure (edges = midpoints between two consecutive bands at some k-point, so they fall
between or inside multiplets), ordered outer_min <= froz_min <= froz_max <= outer_max, and NW is chosen such that at
every k   #states in the frozen window <= NW <= #states in the outer window   (precondition of disentanglement).

Oracle (own arithmetic on the returned matrices V(k), shape NB x NW):
  V^+ V = 1;  |row b|^2 = 1 for every frozen state b;  row b = 0 for every band outside the outer window.
The masks are recomputed here with the property's own multiplet rule (C15): multiplet = maximal chain of bands with
consecutive gaps < 1e-2 eV (the documented threshold of select_window_degen); frozen = multiplets lying completely inside
[froz_min, froz_max]; outer = multiplets with at least one member inside [outer_min, outer_max].
"""
import numpy as np
from hypothesis import strategies as st

from vlib.runner import Sub, Violation, Inconclusive, Reject, ok
from vlib.util import rng_of, numpy_seed
from vlib import wbsys

PROPERTY_ID = "C24"
RULE = ("parent model with 3..8 orbitals x multiplicity 1..3 (NB = 3..9 bands), mesh <= 3x3x2, data 'tb' (overlaps of the "
        "parent eigenvectors) or 'random'; four window edges drawn in units of parent bands as midpoints above a band at a drawn "
        "k-point (between two multiplets or inside one) or infinite, then ordered; NW between "
        "max_k #frozen and min_k #outer; init in {amn, random}; num_iter in {0,1,5,30}; localise in {True, False}; "
        "mix_ratio_z in {1, 0.5}; optionally a second call with init='restart' (0, 1 or 6 more iterations, same windows); parallel=False, sitesym=False.  non-trivial = at some k the frozen set is non-empty and "
        "smaller than the selected set, and at some k the outer window excludes a band; distinct = distinct generated case")
ASSUMPTIONS = [
    "frozen window inside the outer window; at every k  #(E in frozen window) <= NW <= #(E in outer window)  "
    "(the code asserts / needs this; cases where no NW satisfies it shrink the frozen window)",
    "degeneracy threshold = 1e-2 eV, the default of select_window_degen used by wannierise; band gaps within 1e-7 of the "
    "threshold or energies within 1e-9 of a window edge (but not equal to it) are ties -> inconclusive",
    "the frozen mask follows the property's multiplet rule (a multiplet cut by the frozen edge is left out entirely), "
    "which is a subset of the code's frozen set whether or not defect D4 of select_window_degen is repaired",
    "BKVectors.from_kpoints failing to find b-vectors is C22's subject: such cases are rejected here",
    "numpy's global RNG (init='random') is seeded from the case",
]
MIN_NONTRIVIAL = {"quick": 12, "thorough": 250}
THRESH = 1e-2
# lattices on which BKVectors.from_kpoints usually succeeds come first (its failures belong to C22)
LATTICES = ["orthorhombic", "sc", "fcc", "bcc", "tetragonal", "hexagonal", "hexagonal60", "rhombohedral",
            "monoclinic", "generic"]
TOL = 1e-8

def _windows(mult):
    """window edges in units of parent bands (= multiplets of `mult` bands): an edge is the midpoint above band
    p*mult + j at a drawn k-point; j = mult-1 puts it between two multiplets, j < mult-1 inside one.
    (the preferred = non-trivial choice comes first in every sampled_from: Hypothesis favours early elements)"""
    off = st.sampled_from([mult - 1] + list(range(mult - 1)) + [mult - 1])
    return st.fixed_dictionaries(dict(
        olo=st.sampled_from([-1, None, None, -1, 0]),                 # parent band below the outer window (None: -inf)
        fd=st.sampled_from([1.0, 0.5, 0.0, 0.25, 0.75, 1.0, None]),  # top parent band of the outer window (None: +inf)
        fc=st.sampled_from([0.5, 0.25, 0.75, 0.5, 0.75, 1.0, 0.0]),   # top parent band of the frozen window
        fb=st.sampled_from([None, 0.0, None, 0.5, None]),       # parent band below the frozen window (None: -inf)
        off=st.lists(off, min_size=4, max_size=4),
        iks=st.lists(st.sampled_from(list(range(18))), min_size=4, max_size=4)))


@st.composite
def case_st(draw):
    mult = draw(st.sampled_from([2, 1, 3, 1, 2]))
    lo, hi = {1: (3, 8), 2: (3, 4), 3: (3, 3)}[mult]
    model = draw(wbsys.model_params_st(min_wann=lo, max_wann=hi, max_npairs=5, rmax=1, lattice_kinds=LATTICES))
    mp = draw(st.lists(st.sampled_from([2, 3, 1]), min_size=3, max_size=3).filter(lambda m: m[0] * m[1] * m[2] <= 18))
    win = draw(_windows(mult))
    return dict(model=model, mult=mult, delta=draw(st.sampled_from([1e-3, 0.0, 3e-3])), mp=mp,
                data=draw(st.sampled_from(["tb", "tb", "tb", "random"])),
                win=win, nofrozen=draw(st.sampled_from([False] * 7 + [True])),
                nwf=draw(st.sampled_from([0.0, 0.25, 0.5, 0.75, 1.0])), init=draw(st.sampled_from(["amn", "amn", "random"])),
                num_iter=draw(st.sampled_from([5, 0, 1, 30])), localise=draw(st.booleans()),
                mix=draw(st.sampled_from([1.0, 0.5])), rs=draw(st.integers(0, 2 ** 32)),
                # rank-deficient projections ("any overlaps, projections"): a trial orbital repeated, or the projection
                # onto one band removed at one k-point
                deficient=draw(st.sampled_from(["no", "no", "duplicate", "zero-row"])),
                # explicit `frozen_states` (dict per k-point / list for all k) naming bands that the frozen window freezes
                # anyway: redundant by construction, so the expected masks do not change; and the gauge-mixing option
                fstates=draw(st.sampled_from(["no", "no", "dict", "list"])), mixu=draw(st.sampled_from([1, 1, 0.5, 0.8])),
                # 0 = one call; n>0 = a second call with init='restart' and n-1 iterations (0, 1 or 6 more iterations)
                restart=draw(st.sampled_from([0, 0, 1, 2, 7])),
                nps=draw(st.integers(0, 2 ** 32 - 2)))


def random_unitary(rng, n):
    a = rng.normal(size=(n, n)) + 1j * rng.normal(size=(n, n))
    q, r = np.linalg.qr(a)
    return q * (np.diag(r) / np.abs(np.diag(r)))[None, :]


def build_bands(case, model, kpts, rng):
    """E (NK,NB) ascending, U (NK,NBorb,NB) orthonormal columns = Bloch eigenvectors in the orbital basis"""
    m = case["mult"]
    nbp = model.nw
    E = []
    U = []
    for k in kpts:
        H = model.Hk(k)
        H = 0.5 * (H + H.conj().T)
        e, u = np.linalg.eigh(H)
        ef = np.repeat(e, m) + case["delta"] * np.tile(np.arange(m), nbp)
        uf = np.kron(u, np.eye(m))
        mix = np.zeros((nbp * m, nbp * m), dtype=complex)
        for b in range(nbp):
            mix[b * m:(b + 1) * m, b * m:(b + 1) * m] = random_unitary(rng, m) if m > 1 else 1.0
        uf = uf @ mix
        order = np.argsort(ef, kind="stable")
        E.append(ef[order])
        U.append(uf[:, order])
    return np.array(E), np.array(U)


def multiplets(e):
    groups = [[0]]
    for i in range(1, len(e)):
        if e[i] - e[i - 1] < THRESH:
            groups[-1].append(i)
        else:
            groups.append([i])
    return groups


def own_masks(e, fmin, fmax, omin, omax):
    frozen = np.zeros(len(e), dtype=bool)
    outer = np.zeros(len(e), dtype=bool)
    cut = False
    for g in multiplets(e):
        inf = [(fmin <= e[i] <= fmax) for i in g]
        ino = [(omin <= e[i] <= omax) for i in g]
        if all(inf):
            frozen[g] = True
        elif any(inf):
            cut = True
        if any(ino):
            outer[g] = True
            if not all(ino):
                cut = True
    return frozen, outer, cut


def edge_value(ib, ik, E):
    NK, NB = E.shape
    ik = ik % NK
    if ib < 0:
        return float(E[ik, 0] - 0.5)
    if ib >= NB - 1:
        return float(E[ik, -1] + 0.5)
    return float(0.5 * (E[ik, ib] + E[ik, ib + 1]))


def _rnd(x):
    return int(np.floor(x + 0.5))


def window_edges(win, E, mult):
    """four ordered edges omin <= fmin <= fmax <= omax from the drawn parent-band indices"""
    NB = E.shape[1]
    nbp = NB // mult
    a = -1 if win["olo"] is None else win["olo"]
    d = nbp - 1 if win["fd"] is None else a + 1 + max(0, _rnd(win["fd"] * (nbp - 3 - a)))
    c = a + _rnd(win["fc"] * (d - a))
    b = a if win["fb"] is None else a + _rnd(win["fb"] * (c - a))
    iks, off = win["iks"], win["off"]

    def edge(p, n):
        return edge_value(-1 if p < 0 else p * mult + off[n], iks[n], E)
    vals = [-np.inf if win["olo"] is None else edge(a, 0),
            -np.inf if win["fb"] is None else edge(b, 1),
            edge(c, 2),
            np.inf if win["fd"] is None else edge(d, 3)]
    return sorted(vals)


def check(case):
    from wannierberri.w90files.bkvectors import BKVectors
    from wannierberri.w90files.eig import EIG
    from wannierberri.w90files.amn import AMN
    from wannierberri.w90files.mmn import MMN
    from wannierberri.w90files.wandata import WannierData
    from wannierberri.wannierisation.wannierise import wannierise
    model = wbsys.make_model(case["model"])
    rng = rng_of(case["rs"])
    mp = np.array(case["mp"], dtype=int)
    kpts = wbsys.mp_points(mp)
    NK = len(kpts)
    E, U = build_bands(case, model, kpts, rng)
    NB = E.shape[1]
    norb = U.shape[1]
    wcc = np.repeat(model.wcc_red, case["mult"], axis=0)
    try:
        bk = BKVectors.from_kpoints(recip_lattice=model.recip.copy(), mp_grid=mp.copy(), kpoints_red=kpts.copy())
    except RuntimeError as e:
        if "Could not find a complete set of bk vectors" in str(e):
            raise Reject("BKVectors.from_kpoints found no b-vectors (subject of C22)")
        raise
    NNB = bk.NNB
    # ---- windows ------------------------------------------------------------------------------------------
    omin, fmin, fmax, omax = window_edges(case["win"], E, case["mult"])
    if case["nofrozen"]:
        fmin, fmax = np.inf, -np.inf
    raw_o = ((E >= omin) & (E <= omax)).sum(axis=1)
    no_min = int(raw_o.min())
    if no_min < 1:
        raise Reject("outer window empty at some k-point")
    raw_f = ((E >= fmin) & (E <= fmax)).sum(axis=1)
    shrunk = False
    if raw_f.max() > no_min:
        # no admissible NW: lower the upper frozen edge to the highest admissible band midpoint (deterministic)
        cands = sorted({float(0.5 * (E[ik, ib] + E[ik, ib + 1])) for ik in range(NK) for ib in range(NB - 1)}, reverse=True)
        for c in cands:
            if c < fmax and ((E >= fmin) & (E <= c)).sum(axis=1).max() <= no_min:
                fmax = c
                break
        else:
            fmin, fmax = np.inf, -np.inf
        raw_f = ((E >= fmin) & (E <= fmax)).sum(axis=1)
        shrunk = True
    nf_max = int(raw_f.max())
    lo = max(1, nf_max)
    hi = no_min
    NW = lo + int(round(case["nwf"] * (hi - lo)))
    # ties
    gaps = np.diff(E, axis=1)
    if gaps.size and np.any(np.abs(gaps - THRESH) < 1e-7):
        raise Inconclusive("a band gap within 1e-7 of the degeneracy threshold")
    for edge in (omin, fmin, fmax, omax):
        if np.isfinite(edge):
            d = np.abs(E - edge)
            if np.any((d > 0) & (d < 1e-9)):
                raise Inconclusive("an energy within 1e-9 of a window edge")
    masks = [own_masks(E[ik], fmin, fmax, omin, omax) for ik in range(NK)]
    frozen = np.array([m[0] for m in masks])
    outer = np.array([m[1] for m in masks])
    cuts = any(m[2] for m in masks)
    # ---- overlaps and projections -----------------------------------------------------------------------------
    if case["data"] == "tb":
        mmn = {}
        for ik in range(NK):
            M = np.zeros((NNB, NB, NB), dtype=complex)
            for ib in range(NNB):
                ik2 = int(bk.neighbours[ik][ib])
                b_red = kpts[ik2] + np.array(bk.G[ik][ib]) - kpts[ik]
                ph = np.exp(-2j * np.pi * (wcc @ b_red))
                M[ib] = U[ik].conj().T @ (ph[:, None] * U[ik2])
            mmn[ik] = M
        g = rng.normal(size=(norb, NW)) + 1j * rng.normal(size=(norb, NW))
        amn = {ik: U[ik].conj().T @ g for ik in range(NK)}
        if case.get("deficient") == "duplicate" and NW >= 2:
            for ik in range(NK):
                amn[ik][:, -1] = amn[ik][:, 0]
        elif case.get("deficient") == "zero-row":
            ib0 = int(rng.integers(0, NB))
            amn[int(rng.integers(0, NK))][ib0, :] = 0
    else:
        mmn = {ik: rng.normal(size=(NNB, NB, NB)) + 1j * rng.normal(size=(NNB, NB, NB)) for ik in range(NK)}
        amn = {ik: rng.normal(size=(NB, NW)) + 1j * rng.normal(size=(NB, NW)) for ik in range(NK)}
    wd = WannierData()
    wd.set_file("bkvec", bk)
    wd.set_file("eig", EIG(data={ik: E[ik].copy() for ik in range(NK)}, NK=NK))
    wd.set_file("mmn", MMN(data=mmn, NK=NK))
    wd.set_file("amn", AMN(data=amn, NK=NK))
    kw = dict(froz_min=fmin, froz_max=fmax, outer_min=omin, outer_max=omax, num_iter=case["num_iter"],
              init=case["init"], localise=case["localise"], mix_ratio_z=case["mix"], parallel=False, sitesym=False,
              savechk=False, print_progress_every=7)
    if case["init"] == "random":
        kw["num_wann"] = NW
    if case.get("mixu", 1) != 1:
        kw["mix_ratio_u"] = case["mixu"]
    if case.get("fstates") == "dict":
        fs = {int(ik): [int(np.where(frozen[ik])[0][0])] for ik in range(NK) if frozen[ik].any() and (ik % 2 == 0)}
        if fs:
            kw["frozen_states"] = fs
    elif case.get("fstates") == "list":
        everywhere = [int(b) for b in range(NB) if frozen[:, b].all()]
        if everywhere:
            kw["frozen_states"] = everywhere[:1]
    def verify(ret, stage):
        V = wd.chk.v_matrix
        if ret is not V:
            raise Violation("return-value", "wannierise does not return wandata.chk.v_matrix")
        if not wd.wannierised:
            raise Violation("return-value", "wandata.wannierised not set")
        if sorted(V.keys()) != list(range(NK)):
            raise Violation("kpoints", f"v_matrix defined on k-points {sorted(V.keys())}, expected 0..{NK - 1}")
        ctx = (f"NB={NB} NW={NW} mesh={case['mp']} windows frozen=[{fmin:.6g},{fmax:.6g}] outer=[{omin:.6g},{omax:.6g}] "
               f"init={case['init']} stage={stage} num_iter={case['num_iter']} localise={case['localise']}")
        for ik in range(NK):
            v = np.asarray(V[ik])
            if v.shape != (NB, NW):
                raise Violation("shape", f"k-point {ik}: v_matrix shape {v.shape}, expected {(NB, NW)}; {ctx}")
            if not np.all(np.isfinite(v)):
                raise Violation("not-finite", f"k-point {ik}; {ctx}")
            e = float(np.abs(v.conj().T @ v - np.eye(NW)).max())
            if e > TOL:
                raise Violation("orthonormal-columns", f"k-point {ik}: |V^+V - 1| = {e:.2e}; {ctx}")
            w = (np.abs(v) ** 2).sum(axis=1)
            for b in np.where(frozen[ik])[0]:
                if abs(w[b] - 1) > TOL:
                    raise Violation("frozen-state-in-span", f"k-point {ik}: frozen band {b} (E={E[ik, b]:.6f}) has weight "
                                    f"{w[b]:.8f} in the Wannier subspace; E(k)={np.round(E[ik], 5).tolist()}; {ctx}")
            for b in np.where(~outer[ik])[0]:
                if np.abs(v[b]).max() > TOL:
                    raise Violation("weight-outside-outer-window", f"k-point {ik}: band {b} (E={E[ik, b]:.6f}) outside the outer "
                                    f"window has weight {w[b]:.3e}; E(k)={np.round(E[ik], 5).tolist()}; {ctx}")

    with numpy_seed(case["nps"]):
        ret = wannierise(wd, **kw)
    verify(ret, "first")
    if case.get("restart"):
        # continue from the stored gauge (documented init='restart'): same windows, a second number of iterations
        kw2 = dict(kw, init="restart", num_iter=case["restart"] - 1)
        kw2.pop("num_wann", None)
        with numpy_seed(case["nps"] + 1):
            ret = wannierise(wd, **kw2)
        verify(ret, "restart")
    nsel = outer.sum(axis=1)
    nfr = frozen.sum(axis=1)
    cutting = bool(np.any((nfr > 0) & (nfr < nsel)))
    excl = bool(np.any(nsel < NB))
    labels = ["restarted" if case.get("restart") else "single-call", f"data={case['data']}", f"mult={case['mult']}", f"init={case['init']}", f"num_iter={case['num_iter']}",
              "localise" if case["localise"] else "disentangle-only", f"mix={case['mix']}",
              "frozen-none" if nfr.max() == 0 else ("frozen-cutting" if cutting else "frozen-all-selected"),
              "outer-excludes" if excl else "outer-all", "edge-cuts-multiplet" if cuts else None,
              "frozen-window-shrunk" if shrunk else None, "NW=NB" if NW == NB else None,
              "NW=nfrozen-somewhere" if np.any(nfr == NW) else None, "NK=1" if NK == 1 else None,
              "nfrozen-varies-with-k" if nfr.min() != nfr.max() else None,
              "nselected-varies-with-k" if nsel.min() != nsel.max() else None]
    return ok(cutting and excl, *labels)


SUBS = [Sub("gauge", case_st(), check, quick=96, thorough=2400, budget_quick=60, budget_thorough=420)]
