"""C23  Monkhorst-Pack mesh detection recovers the mesh  (DESIGN 4/C23)

The harness builds the points of a Gamma-centred N1 x N2 x N3 mesh itself (integer indices are the ground truth),
writes every coordinate as a float in [0,1) in one of several realistic representations (exact i/N, an integer
shifted or negative representative reduced with % 1, a decimal text representation with 8..15 digits), permutes
them, optionally duplicates / removes points and (only where the documentation allows it: explicit grid given)
adds foreign points, and compares

  get_mp_grid(points)                 == (N1,N2,N3)                              [complete meshes, any order, duplicates]
  grid_from_kpoints(points)           == (N1,N2,N3)                              [complete meshes, any order, duplicates]
  grid_from_kpoints(points, grid=N)   selects each mesh point exactly once (any one of identical copies), no foreign point
  incomplete mesh                     -> ValueError (grid_from_kpoints); get_mp_grid never returns a grid that
                                         does not contain all given points / is not the coarsest such mesh
with the bookkeeping done on the integer indices.
"""
import math

import numpy as np
from hypothesis import strategies as st

from vlib.runner import Sub, Violation, ok

PROPERTY_ID = "C23"
RULE = ("Gamma-centred meshes N_i in 1..100 with prod(N) <= 1500, random order, coordinates as exact i/N, as (i/N +- m) % 1 "
        "or rounded to 8..15 decimals, always inside [0,1); optional duplicates, removed points, foreign points "
        "(only with an explicit grid); non-trivial = some N_i is a prime >= 7 or >= 50, or duplicates / foreign / "
        "removed points are present")
ASSUMPTIONS = ["decimal representations with 9..15 digits are only generated for N <= 90 (9 digits) / N <= 98 (10..15 digits): "
               "for larger N get_mp_grid's internal rounding to 8 decimals plus the representation error can exceed its own "
               "5e-7 on-mesh test (observed: 97x1x1 mesh written with 9 decimals is rejected with AssertionError); exact "
               "i/N floats are accepted for every N <= 100",
               "coordinates are inside [0,1) (statement) - a coordinate like 0.9999999999 standing for 0 is not generated",
               "decimal representations carry >= 8 digits (Wannier90 .win/.nnkp precision); error*N stays below the 5e-7 "
               "rounding tie of get_mp_grid's own check",
               "grid_from_kpoints(grid=None) documents that all points are assumed to lie on the mesh: foreign points are "
               "only generated together with an explicit grid",
               "foreign points are at least 0.05/N_i away from the mesh in one coordinate (tolerance of the code 1e-5)",
               "get_mp_grid on an incomplete mesh may raise AssertionError (clean rejection)"]
MIN_NONTRIVIAL = {"quick": 50, "thorough": 500}

PRIMES = [7, 11, 13, 17, 19, 23, 29, 31, 37, 41, 43, 47, 53, 59, 61, 67, 71, 73, 79, 83, 89, 97]


@st.composite
def dims_st(draw):
    kind = draw(st.sampled_from(["small", "small", "one-large", "prime", "flat", "any"]))
    if kind == "small":
        d = [draw(st.integers(1, 8)) for _ in range(3)]
    elif kind == "one-large":
        d = [draw(st.integers(50, 100)), draw(st.integers(1, 4)), draw(st.integers(1, 3))]
    elif kind == "prime":
        d = [draw(st.sampled_from(PRIMES)), draw(st.integers(1, 5)), draw(st.integers(1, 3))]
    elif kind == "flat":
        d = [draw(st.integers(1, 38)), draw(st.integers(1, 38)), 1]
    else:
        d = [draw(st.integers(1, 100)) for _ in range(3)]
    # keep the number of points bounded by shrinking the largest dimensions
    while d[0] * d[1] * d[2] > 1500:
        j = int(np.argmax(d))
        d[j] = max(1, d[j] // 2)
    perm = draw(st.permutations([0, 1, 2]))
    return [d[i] for i in perm]


case_st = st.fixed_dictionaries(dict(
    dims=dims_st(),
    rep=st.sampled_from(["exact", "exact", "shift", "dec8", "dec9", "dec10", "dec12", "dec15", "mixed"]),
    rs=st.integers(0, 2 ** 32),
    ndup=st.sampled_from([0, 0, 0, 1, 2, 7]),
    nrem=st.sampled_from([0, 0, 0, 0, 1, 2, 5]),
    rem_mode=st.sampled_from(["random", "generator", "plane", "sublattice", "coprime"]),
    nforeign=st.sampled_from([0, 0, 0, 1, 3]),
))


def dec_allowed(d, N):
    """get_mp_grid first rounds to 8 decimals (error <= 5e-9) and then requires |k*N - integer| < 5e-7; a decimal
    representation with d > 8 digits adds its own 0.5e-d (double rounding).  Representations whose worst-case total
    error times N comes within 1% of that tie are not generated (they are approximations of the mesh points, the
    statement is about the mesh points themselves)."""
    own = 0.0 if d <= 8 else 0.5 * 10.0 ** (-d)
    return (5e-9 + own) * N <= 4.96e-7 or (d <= 8 and N <= 100)


def represent(i, N, rep, rng):
    """float in [0,1) standing for the mesh coordinate i/N"""
    if rep == "mixed":
        rep = ["exact", "shift", "dec8", "dec10", "dec12", "dec15"][int(rng.integers(0, 6))]
    if rep.startswith("dec") and not dec_allowed(int(rep[3:]), N):
        rep = "exact"
    if rep == "exact":
        x = i / N
    elif rep == "shift":
        m = int(rng.integers(-3, 4))
        x = (i / N + m) % 1
        if rng.integers(0, 2):
            x = (-(N - i) / N) % 1 if i > 0 else 0.0
    else:
        x = round(i / N, int(rep[3:]))
    if not (0.0 <= x < 1.0):
        x = i / N
    return float(x)


def build(case):
    from vlib.util import rng_of
    rng = rng_of(case["rs"])
    dims = [int(n) for n in case["dims"]]
    idx = [(i, j, l) for i in range(dims[0]) for j in range(dims[1]) for l in range(dims[2])]
    NK = len(idx)
    keep = np.ones(NK, dtype=bool)
    nrem = min(case["nrem"], NK - 1)
    if nrem > 0:
        mode = case["rem_mode"]
        arr = np.array(idx)
        if mode == "random":
            keep[rng.choice(NK, size=nrem, replace=False)] = False
        elif mode == "generator":
            # remove every point whose coordinate along one axis is the generator 1/N (or N-1/N)
            ax = int(rng.integers(0, 3))
            which = 1 if rng.integers(0, 2) else dims[ax] - 1
            keep[arr[:, ax] == which] = False
        elif mode == "plane":
            ax = int(rng.integers(0, 3))
            keep[arr[:, ax] == int(rng.integers(0, dims[ax]))] = False
        elif mode == "coprime":
            # remove every point whose index along one axis is coprime to N: only coordinates with smaller
            # denominators survive, their lcm may still be N although no single coordinate has denominator N
            ax = int(np.argmax(dims)) if rng.integers(0, 2) else int(rng.integers(0, 3))
            keep[np.array([math.gcd(int(i), dims[ax]) == 1 and dims[ax] > 1 for i in arr[:, ax]])] = False
        else:
            # keep only a sublattice along one axis (a complete coarser mesh when the step divides N)
            ax = int(rng.integers(0, 3))
            step = int(rng.integers(2, 5))
            keep[arr[:, ax] % step != 0] = False
        if not keep.any():
            keep[0] = True
    pts_idx = [idx[i] for i in range(NK) if keep[i]]
    for _ in range(case["ndup"]):
        pts_idx.append(pts_idx[int(rng.integers(0, len(pts_idx)))])
    entries = [("mesh", p) for p in pts_idx]
    for _ in range(case["nforeign"]):
        base = idx[int(rng.integers(0, NK))]
        off = [0.0, 0.0, 0.0]
        ax = int(rng.integers(0, 3))
        off[ax] = float(rng.uniform(0.05, 0.95))
        for a in range(3):
            if a != ax and rng.integers(0, 2):
                off[a] = float(rng.uniform(0.0, 0.95))
        entries.append(("foreign", tuple((base[a] + off[a]) / dims[a] for a in range(3))))
    order = rng.permutation(len(entries))
    entries = [entries[i] for i in order]
    pts = []
    for kind, p in entries:
        if kind == "mesh":
            pts.append([represent(p[a], dims[a], case["rep"], rng) for a in range(3)])
        else:
            pts.append([min(float(x), 0.999999) for x in p])
    return dims, entries, np.array(pts, dtype=float).reshape(-1, 3)


def lcm_grid(mesh_idx, dims):
    """coarsest Gamma-centred mesh containing all the given mesh points (exact, from the integer indices)"""
    out = []
    for a in range(3):
        N = dims[a]
        dens = [N // math.gcd(N, p[a]) for p in mesh_idx]
        out.append(int(np.lcm.reduce(dens)) if dens else 1)
    return out


def check(case):
    from wannierberri.w90files.utility import get_mp_grid, grid_from_kpoints
    dims, entries, pts = build(case)
    if pts.min() < 0 or pts.max() >= 1:
        raise RuntimeError("harness: coordinate outside [0,1)")
    tdims = tuple(dims)
    mesh_entries = [(n, p) for n, (kind, p) in enumerate(entries) if kind == "mesh"]
    mesh_idx = [p for _, p in mesh_entries]
    distinct = set(mesh_idx)
    NK = dims[0] * dims[1] * dims[2]
    complete = len(distinct) == NK
    has_foreign = any(kind == "foreign" for kind, _ in entries)
    has_dup = len(distinct) < len(mesh_idx)
    pts_in = pts.copy()

    # ---- explicit grid: selection of each mesh point exactly once (first occurrence), foreign points ignored
    first = {}
    for n, p in mesh_entries:
        first.setdefault(p, n)
    want_sel = sorted(first.values())
    try:
        sel = grid_from_kpoints(pts_in, grid=tdims)
    except ValueError as e:
        if complete:
            raise Violation("complete-mesh-rejected", f"dims={dims} rep={case['rep']} dup={has_dup} foreign={has_foreign}: {e}")
        sel = None
    else:
        if not complete:
            raise Violation("incomplete-mesh-accepted", f"dims={dims}: {len(distinct)} of {NK} mesh points present, no ValueError")
        sel = [int(i) for i in sel]
        if any(i < 0 or i >= len(entries) for i in sel):
            raise Violation("selection-index-range", f"dims={dims}: {sel[:12]}")
        picked = [entries[i] for i in sel]
        if any(kind == "foreign" for kind, _ in picked):
            raise Violation("foreign-point-selected", f"dims={dims} selected {sel[:10]}...")
        if sorted(p for _, p in picked) != sorted(distinct):
            raise Violation("selection-not-each-point-once", f"dims={dims} rep={case['rep']} selected {len(sel)} points for {NK} mesh points")
        # which of several identical copies is taken is not promised by the statement (the code takes the first)
        first_kept = sel == want_sel
    if not np.array_equal(pts_in, pts):
        raise Violation("mutates-input", "grid_from_kpoints changed the k-points")

    # ---- detection without a grid (documented precondition: all points on the mesh)
    if not has_foreign:
        G = lcm_grid(mesh_idx, dims)
        on_G = {tuple(p[a] * G[a] // dims[a] for a in range(3)) for p in distinct}
        G_complete = len(on_G) == G[0] * G[1] * G[2]
        try:
            g = grid_from_kpoints(pts_in)
        except ValueError as e:
            if G_complete:
                raise Violation("detect-complete-mesh-rejected", f"dims={dims} coarsest mesh {G} is complete but: {e}")
        else:
            g = tuple(int(x) for x in g)
            if not G_complete:
                raise Violation("detect-incomplete-mesh-accepted", f"dims={dims} removed -> coarsest mesh {G} incomplete, returned {g}")
            if g != tuple(G):
                raise Violation("grid_from_kpoints-wrong-grid", f"dims={dims} rep={case['rep']}: returned {g}, expected {tuple(G)}")
        try:
            mp = get_mp_grid(pts_in)
        except AssertionError as e:
            if complete:
                raise Violation("get_mp_grid-rejects-complete-mesh", f"dims={dims} rep={case['rep']}: {str(e)[:200]}")
            # an incomplete mesh may be rejected - but only if it really is not a (coarser) complete description
            if G_complete and tuple(G) != tdims:
                # all points of the coarser mesh G present, incl. its generators: detection must succeed
                raise Violation("get_mp_grid-rejects-complete-coarser-mesh", f"dims={dims} -> G={G}: {str(e)[:200]}")
            mp = None
        else:
            mp = tuple(int(x) for x in mp)
            if mp != tuple(G):
                raise Violation("get_mp_grid-wrong-grid" if complete else "get_mp_grid-wrong-grid-incomplete",
                                f"dims={dims} rep={case['rep']} complete={complete}: returned {mp}, coarsest mesh containing all points {tuple(G)}")
        if not np.array_equal(pts_in, pts):
            raise Violation("mutates-input", "detection changed the k-points")
    big = any((n >= 7 and n in PRIMES) or n >= 50 for n in dims)
    nt = big or has_dup or has_foreign or not complete
    return ok(nt, "prime>=7" if any(n in PRIMES for n in dims) else None, "N>=50" if max(dims) >= 50 else None,
              f"rep={case['rep']}", "dup" if has_dup else None, "foreign" if has_foreign else None,
              "complete" if complete else f"incomplete-{case['rem_mode']}",
              "coarser-complete" if (not complete and not has_foreign and G_complete) else None,
              "get_mp_grid-asserted" if (not has_foreign and mp is None) else None,
              "first-copy-selected" if (has_dup and sel is not None and first_kept) else None,
              f"NK<={10 ** len(str(NK))}")


SUBS = [Sub("mesh", case_st, check, quick=400, thorough=16000, budget_quick=70, budget_thorough=420)]
