"""C20  Real-space symmetrisation yields a symmetric, Hermitian model (DESIGN 4/C20)

A random, non symmetric start model (vlib.symlib.build_start) on a structure of the library (23 structures, 3
families, several consistent projection sets each, scalar / spin-orbit / magnetic variants) is symmetrised by the
real System_R.symmetrize().  The harness then decides, with its own transformation rules,
  covariance   for EVERY element g of the resulting point group and 2 generic k: E(gk) = E(k), and the band
               resolved total Berry curvature and spin at gk equal the values at k transformed as axial,
               time-reversal-odd vectors  V(gk) = (-1)^TR det(g) g V(k),  gk = (-1)^TR g k ;
  hermitian    X(-R) = X(R)^dagger for Ham, AA, SS, CC (OO, GG when present), the R list is closed under negation;
  centres      the set of Wannier centres is mapped onto itself (mod lattice) by every space-group operation
               {W|t} of the group the code determined;
  idempotent   a second symmetrisation (symmetrize2 with the symmetriser returned by the first) changes no matrix
               element and no centre (an R list that grows by all-zero blocks is not a change; it is labelled);
  onsite-trace nothing is lost: sum_i Ham_ii(R=0) of the start model is preserved (invariant of a group average).
"""
import numpy as np
from hypothesis import strategies as st

from vlib.runner import Sub, Violation, Inconclusive, ok, read_known
from vlib.util import fl
from vlib import wbsys, symlib

PROPERTY_ID = "C20"
RULE = ("structure library of vlib/symlib.py (cubic: sc, CsCl, zincblende, diamond, fcc, bcc, AFM CsCl; hexagonal: "
        "graphene (120 and 60 degree cells), hBN, 1-atom, kagome, Te-like screw chain, wurtzite, rhombohedral; low symmetry: "
        "tetragonal, polar C4v, AFM tetragonal, orthorhombic, polar C2v, orthorhombic with one species on two interleaved Wyckoff orbits (reordering), monoclinic, triclinic P-1) x consistent projection "
        "set (s, p, d, sp, sp2, sp3, sp3d2, pz, pxy, p2, t2g, eg, several species) x {scalar, spin-orbit, ferro/antiferro/"
        "non-collinear magnetic moments} x free lattice/internal parameters x random Hermitian start model (Ham, AA, SS "
        "with spin, optional BB CC SH SA SHA OO GG FF SR SHR, <= 4 R pairs) with centres displaced from the atoms "
        "(per Wannier function / per site / not at all); non-trivial = group order >= 4 and the start model was not "
        "symmetric (symmetrisation changed some matrix element by > 1e-3) and at least one k-point was compared")
ASSUMPTIONS = ["the group is the one the code determines (irrep/spglib) from the given structure; the oracle quantifies over "
               "all its elements", "Berry curvature = internal + external terms when the model has AA, internal terms otherwise",
               "tolerances: energies 1e-9(1+|E|), Berry curvature 1e-7*scale + max(1e-9, 1e-14 (L/gap)^2) (rounding noise of a curvature that vanishes by symmetry), spin 1e-9(1+scale), "
               "Hermiticity / idempotence 1e-10(1+scale), centres 1e-8 (reduced coordinates)",
               "k-points whose spectrum has a gap within [0.5e-4, 2e-4] (ambiguous for the 1e-4 degeneracy threshold of the "
               "tabulators) are skipped; band values are averages over degenerate groups, as the tabulators define them",
               "projection sets are closed under the group (hybrids only where the operations keep their span)",
               "clause 'onsite-trace' (sum of on-site energies preserved) is the nothing-lost direction; it is an exact "
               "invariant of any group average"]
MIN_NONTRIVIAL = {"quick": 4, "thorough": 100}

OPT_KEYS = ["BB", "CC", "OO", "GG", "FF"]
OPT_SPIN_KEYS = ["SH", "SA", "SHA", "SR", "SHR"]
HERM_KEYS = ("Ham", "AA", "SS", "CC", "OO", "GG")
CENTRE_CLAUSES = ("covariance:berry", "centres-orbit", "idempotent:centres")

_small = st.tuples(st.integers(-1, 1), st.integers(-1, 1), st.integers(-1, 1)).filter(lambda r: any(r))


def case_st(family):
    @st.composite
    def _st(draw):
        s = draw(symlib.struct_st(names=symlib.FAMILIES[family]))
        keys = ["Ham"] + (["AA"] if draw(st.integers(0, 3)) > 0 else [])
        if s["soc"]:
            keys.append("SS")
        opt = OPT_KEYS + (OPT_SPIN_KEYS if s["soc"] else [])
        keys += draw(st.lists(st.sampled_from(opt), max_size=2, unique=True))
        return dict(struct=s, rs=draw(st.integers(0, 2 ** 32)),
                    R=[list(r) for r in draw(st.lists(_small, min_size=2, max_size=4, unique=True))],
                    keys=keys, cmode=draw(st.sampled_from(["site", "wf", "exact", "site", "wf"])),
                    disp=draw(st.sampled_from([0.01, 0.03, 0.06])), decay=draw(st.sampled_from([0.5, 1.0, 2.0])),
                    ks=[[draw(fl(0.03, 0.47)) for _ in range(3)] for _ in range(2)],
                    reorder_back=draw(st.sampled_from([False, False, False, True])))
    return _st()


def herm_error(byR, key):
    worst, scale = 0.0, 0.0
    for R, X in byR.items():
        scale = max(scale, float(np.max(np.abs(X))))
        Y = byR.get(tuple(-x for x in R))
        if Y is None:
            worst = max(worst, float(np.max(np.abs(X))))
        else:
            worst = max(worst, float(np.max(np.abs(X - np.conj(np.swapaxes(Y, 0, 1))))))
    return worst, scale


def centres_orbit_error(cen_red, spacegroup):
    """max over operations and centres of the distance (reduced, mod 1) from the image to the nearest centre"""
    worst = 0.0
    c = np.asarray(cen_red, dtype=float)
    for op in spacegroup.symmetries:
        W = np.array(op.rotation, dtype=float)
        t = np.array(op.translation, dtype=float)
        img = c @ W.T + t
        d = img[:, None, :] - c[None, :, :]
        d -= np.round(d)
        worst = max(worst, float(np.max(np.min(np.max(np.abs(d), axis=2), axis=1))))
    return worst


def check(case):
    s = case["struct"]
    mode = case["cmode"]
    known = read_known(PROPERTY_ID)
    model, rs = symlib.build_start(s, case["rs"], case["R"], case["keys"], decay=case["decay"], disp=case["disp"],
                                   cmode=mode)
    system = wbsys.to_system(model, spinor=rs["soc"])
    start = symlib.matrices_by_R(system)
    i0 = tuple((0, 0, 0))
    trace0 = complex(np.trace(start["Ham"][i0]))
    rb = bool(case.get("reorder_back", False))
    symmetrizer = symlib.symmetrize(system, rs, reorder_back=rb)
    if symmetrizer is None and not rb:
        raise Violation("no-symmetrizer", "symmetrize() returned None with reorder_back=False")
    if not getattr(system, "symmetrized", False):
        raise Violation("flag", "system.symmetrized is not set after symmetrize()")
    ngroup = len(system.pointgroup.symmetries)
    first = symlib.matrices_by_R(system)
    cen1 = np.array(system.wannier_centers_red)
    changed = max(symlib.max_diff_by_R(start[k], first[k]) for k in start)
    found = []   # (clause, detail)

    # --- covariance under every group element
    worst, scale, info = symlib.covariance_errors(system, case["ks"])
    for q, (r, detail) in sorted(worst.items()):
        if r > 1.0:
            found.append((f"covariance:{q}", f"{symlib.label(s)} (group order {ngroup}): {detail}"))

    # --- Hermiticity
    for key in HERM_KEYS:
        if key in first:
            e, sc = herm_error(first[key], key)
            if e > 1e-10 * (1 + sc):
                found.append((f"hermitian:{key}", f"{symlib.label(s)}: max |X(-R) - X(R)^dagger| = {e:.3e} for {key}"))

    # --- nothing lost
    trace1 = complex(np.trace(first["Ham"].get(i0, np.zeros((1, 1)))))
    if abs(trace1 - trace0) > 1e-10 * (1 + abs(trace0)) * model.nw:
        found.append(("onsite-trace", f"{symlib.label(s)}: sum of on-site energies {trace0:.12g} -> {trace1:.12g}"))

    # --- centres map onto each other
    e = centres_orbit_error(cen1, symmetrizer.spacegroup) if symmetrizer is not None else 0.0
    if e > 1e-8:
        found.append(("centres-orbit", f"{symlib.label(s)}: the image of a Wannier centre under a space-group operation is "
                                       f"{e:.3e} (reduced units) away from every centre; centres {np.round(cen1, 6).tolist()}"))

    # --- idempotence
    if symmetrizer is not None:
        system.symmetrize2(symmetrizer)
    else:   # reorder_back=True with a changed order: the documented return value is None; symmetrise again from scratch
        symlib.symmetrize(system, rs, reorder_back=True)
    second = symlib.matrices_by_R(system)
    cen2 = np.array(system.wannier_centers_red)
    for key in sorted(first):
        sc = max(float(np.max(np.abs(X))) for X in first[key].values())
        d = symlib.max_diff_by_R(first[key], second.get(key, {}))
        if d > 1e-10 * (1 + sc):
            found.append((f"idempotent:{key}", f"{symlib.label(s)}: second symmetrisation changes {key} by {d:.3e}"))
    dc = float(np.max(np.abs(cen2 - cen1)))
    if dc > 1e-10:
        found.append(("idempotent:centres", f"{symlib.label(s)}: second symmetrisation moves a Wannier centre by {dc:.3e} "
                                            f"(reduced units), start centres displaced per '{mode}' by {case['disp']}"))
    grows = len(second["Ham"]) > len(first["Ham"])

    # --- a model symmetric under the whole group is symmetric under every subgroup: symmetrising it with the
    #     documented `use_symmetries_index` option restricted to the proper, unitary operations changes nothing
    if symmetrizer is not None and mode != "wf":
        syms = symmetrizer.spacegroup.symmetries
        sub = [i for i, g in enumerate(syms)
               if np.linalg.det(np.asarray(g.rotation, dtype=float)) > 0 and not getattr(g, "time_reversal", False)]
        if 0 < len(sub) < len(syms):
            system.symmetrize2(symmetrizer, use_symmetries_index=sub)
            third = symlib.matrices_by_R(system)
            for key in sorted(second):
                sc = max(float(np.max(np.abs(X))) for X in second[key].values())
                d = symlib.max_diff_by_R(second[key], third.get(key, {}))
                if d > 1e-10 * (1 + sc):
                    found.append((f"idempotent-subgroup:{key}", f"{symlib.label(s)}: symmetrising the symmetric model with "
                                                                f"the subgroup of {len(sub)} proper operations (of {len(syms)}) "
                                                                f"changes {key} by {d:.3e}"))

    # violations of the centre-dependent clauses in the 'independent displacement per Wannier function' mode get their own
    # bucket names: one root cause (see KNOWN_FINDINGS.txt once listed) must not hide other violations
    named = [((c + "|independent-centres") if (mode == "wf" and c in CENTRE_CLAUSES) else c, d) for c, d in found]
    new = [f for f in named if f"sym:{f[0]}" not in known]
    if new:
        raise Violation(new[0][0], new[0][1] + (f" [also: {[f[0] for f in named if f is not new[0]]}]" if len(named) > 1 else ""))
    if info["used"] == 0:
        raise Inconclusive("all k-points have gaps ambiguously close to the degeneracy threshold")
    triv = [q for q in ("berry", "spin") if q in scale and scale[q] < 1e-8]
    nontrivial = ngroup >= 4 and changed > 1e-3
    return ok(nontrivial, f"struct={s['name']}", f"variant={'mag:' + s['mag'] if s['mag'] else ('soc' if s['soc'] else 'scalar')}",
              f"group={ngroup}", f"centres={mode}", f"nw={model.nw}", "AA" if "AA" in case["keys"] else "noAA",
              *[f"key:{k}" for k in case["keys"] if k not in ("Ham", "AA", "SS")],
              *[f"zero-by-symmetry:{q}" for q in triv], "Rlist-grows-on-2nd" if grows else "Rlist-stable",
              f"proj={'+'.join(rs['proj'])}", "reorder_back" if rb else "",
              "no-symmetrizer-returned(centres-orbit skipped)" if symmetrizer is None else "", known=[f[0] for f in named])


SUBS = [Sub(f, case_st(f), check, quick=4, thorough=64, budget_quick=80, budget_thorough=800, per_shard_min=1, group="sym")
        for f in ("cubic", "hexagonal", "lowsym")]
