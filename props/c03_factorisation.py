"""C03  Integrals depend only on the k-point set, not on its FFT factorisation (DESIGN 4/C03)

Differential oracle: the same regular grid N = NKdiv x NKFFT is evaluated by wannierberri.run() in two drawn
factorisations (including NKFFT smaller than the recommended size, NKFFT = 1, NKdiv = 1) with two drawn FFT
libraries; every calculator of a drawn calculator dict (static with/without tetrahedra, dynamic, tabulating,
k-resolved) must return the same numbers, and the tabulated k-points must be the same C-ordered mesh, which is
also compared with the harness' own mesh and with the harness' own band energies (explicit Fourier sum).
"""
import numpy as np
from hypothesis import strategies as st

from vlib.runner import Sub, Violation, Inconclusive, ok
from vlib.util import fl, scratch_dir, rng_of
from vlib import bgrid

PROPERTY_ID = "C03"
RULE = ("random Hermitian real-space models (1-3 WFs, <=9 R-vectors, 11 lattice families; all matrices "
        "Ham,AA,BB,CC,FF,GG,OO (+SS,SA,SHA,SR,SH,SHR) present; spinless / double_spin() with exact two-fold "
        "degeneracy / explicit time-reversal symmetric with use_irred_kpt) or polynomial k.p models; total grid "
        "N in [1..8]^3 (<=96 points), one long axis up to 256, or 1100-2050 points with a pure-FFT factorisation (> 1024 FFT points); two drawn factorisations N=NKdiv*NKFFT and two drawn FFT libraries "
        "(fftw/numpy/slow); 2-4 calculators drawn from a registry of 61 static/dynamic/sdct/tabulating calculators "
        "(static ones with and without tetrahedra); non-trivial = the two factorisations differ in NKdiv and in "
        "NKFFT and at least one compared result is non-zero; distinct = distinct generated case")
ASSUMPTIONS = ["adaptive refinement is excluded (adpt_num_iter=0): it legitimately depends on the K partition",
               "tolerance 1e-8 of the array scale (x (1e-3/gap)^4 when some inter-group gap is below 1e-3 eV) plus "
               "an absolute floor 1e-10*|constant_factor|*max(1,1/V) for results that vanish by cancellation",
               "calculators that are not invariant under a gauge change inside an exactly degenerate multiplet "
               "(ShiftCurrent, InjectionCurrent) are only drawn for non-degenerate systems (gauge is C04's subject)",
               "k.p systems: odd grid sizes and no tetrahedra, so that no k-point or corner lies on the k-box boundary",
               "a mismatch is re-classified 'tie' (inconclusive) if a band energy lies within 1e-9 of a Fermi level "
               "or a band gap within 1e-9 of the degeneracy threshold"]
MIN_NONTRIVIAL = {"quick": 8, "thorough": 150}
RTOL = 1e-8

LIBS = ["fftw", "numpy", "slow"]

# ------------------------------------------------------------------------------------------------
# calculator registry:  name -> (kind, class name, kwargs, flags)
#   flags: "tetra" static calculator that may also be run with tetra=True
#          "plain" needs the spin matrices that only the spinless-built systems carry
#          "spin"  needs SS (plain non-TR systems or double_spin systems)
#          "nodeg" only for systems without exact degeneracies
#          "slow"  >0.3 s per run on 48 k-points: at most one per case
#          "kp"    works with internal terms only (k.p systems)
REG = {}


def _reg(name, kind, cls, kwargs=None, flags=()):
    REG[name] = (kind, cls, dict(kwargs or {}), frozenset(flags))


for _n in ["AHC", "DOS", "CumDOS", "Ohmic_FermiSea", "Ohmic_FermiSurf", "Hall_classic_FermiSurf",
           "Hall_classic_FermiSea", "BerryDipole_FermiSurf", "NLDrude_FermiSea", "NLDrude_FermiSurf",
           "NLDrude_Fermider2"]:
    _reg("s:" + _n, "static", _n, flags=("tetra", "kp"))
for _n in ["AHC_test", "Morb", "BerryDipole_FermiSea", "BerryDipole_FermiSea_test", "NLAHC_FermiSea",
           "GME_orb_FermiSurf", "AHC_Zeeman_orb", "QuantumMetric_FermiSea", "QuantumMetric_Vel_DQ"]:
    _reg("s:" + _n, "static", _n, flags=("tetra",))
for _n in ["Spin", "GME_spin_FermiSea", "GME_spin_FermiSurf", "NLDrude_Zeeman_spin", "AHC_Zeeman_spin"]:
    _reg("s:" + _n, "static", _n, flags=("tetra", "spin"))
for _n in ["GME_orb_FermiSea", "eMChA_FermiSurf"]:
    _reg("s:" + _n, "static", _n, flags=("tetra", "slow"))
_reg("s:AHC_internal", "static", "AHC", dict(kwargs_formula={"external_terms": False}), ("tetra", "kp"))
_reg("s:SHC_simple", "static", "SHC", dict(kwargs_formula={"spin_current_type": "simple"}), ("tetra", "spin"))
_reg("s:SHC_ryoo", "static", "SHC", dict(kwargs_formula={"spin_current_type": "ryoo"}), ("tetra", "plain"))
_reg("s:SHC_qiao", "static", "SHC", dict(kwargs_formula={"spin_current_type": "qiao"}), ("tetra", "plain"))
_reg("s:AHC_thresh", "static", "AHC", dict(degen_thresh=1e-2), ("tetra", "kp"))
_reg("s:Ohmic_select", "static", "Ohmic_FermiSurf", dict(select_bands=[0]), ("kp",))
_reg("d:JDOS", "dynamic", "JDOS", flags=("kp",))
_reg("d:OpticalConductivity", "dynamic", "OpticalConductivity", flags=("kp",))
_reg("d:OpticalConductivity_Gauss", "dynamic", "OpticalConductivity", dict(smr_type="Gaussian", kBT=0.05), ("kp",))
_reg("d:SHC_simple", "dynamic", "SHC", dict(SHC_type="simple"), ("spin",))
_reg("d:SHC_ryoo", "dynamic", "SHC", dict(SHC_type="ryoo"), ("plain",))
_reg("d:SHC_qiao", "dynamic", "SHC", dict(SHC_type="qiao"), ("plain",))
_reg("d:ShiftCurrent", "dynamic", "ShiftCurrent", dict(sc_eta=0.1), ("nodeg", "kp"))
_reg("d:InjectionCurrent", "dynamic", "InjectionCurrent", flags=("nodeg", "kp"))
_reg("d:SDCT_kBT", "sdct", "SDCT", dict(kBT=0.05), ("slow",))          # kBT=0 with Fermi-surface terms gives NaN
_reg("d:SDCT_sea", "sdct", "SDCT", dict(fermi_surf=False), ("slow",))
_reg("d:SDCT_asym_kBT", "sdct", "SDCT_asym", dict(kBT=0.05), ("slow",))
for _n in ["Energy", "Velocity", "InvMass", "Der3E", "BerryCurvature"]:
    _reg("t:" + _n, "tab", _n, flags=("kp",))
for _n in ["DerBerryCurvature", "OrbitalMoment"]:
    _reg("t:" + _n, "tab", _n)
for _n in ["Spin", "DerSpin", "Der2Spin"]:
    _reg("t:" + _n, "tab", _n, flags=("spin",))
_reg("t:SpinBerry", "tab", "SpinBerry", flags=("plain",))
_reg("t:DerOrbitalMoment", "tab", "DerOrbitalMoment", flags=("slow",))
_reg("t:BerryCurvature_internal", "tab", "BerryCurvature", dict(kwargs_formula={"external_terms": False}), ("kp",))
_reg("k:AHC", "kres", "AHC", flags=("kp",))
_reg("k:Morb", "kres", "Morb")
_reg("k:Ohmic_FermiSurf", "kres", "Ohmic_FermiSurf", flags=("kp",))
_reg("k:CumDOS_tetra", "kres", "CumDOS", dict(tetra=True), flags=("kp",))
NAMES = sorted(REG)
# not constructible on these systems (need 'CCab'): static.Morb_test, static.GME_orb_FermiSea_test;
# left out for cost (> 2 s per run): static.NLDrude_Zeeman_orb, tabulate.Der2BerryCurvature, tabulate.Der2OrbitalMoment


def allowed(name, syskind):
    """syskind in plain / double / tr_plain / tr_double / kp"""
    fl_ = REG[name][3]
    if syskind == "kp":
        return "kp" in fl_
    if "plain" in fl_ and syskind != "plain":
        return False
    if "spin" in fl_ and syskind == "tr_plain":
        return False
    if "nodeg" in fl_ and syskind in ("double", "tr_double"):
        return False
    return True


def build_calculators(entries, Ef, omega, ibands):
    """entries: list of [name, tetra]; returns dict for run(); tabulators and k-resolved ones are packed into one
    TabulatorAll (fresh objects for every run)"""
    from wannierberri import calculators as calc
    out = {}
    tabs = {}
    cf = {}
    for name, tetra in entries:
        kind, cls, kwargs, flags = REG[name]
        kwargs = dict(kwargs)
        if "select_bands" in kwargs:
            kwargs["select_bands"] = np.array(kwargs["select_bands"])
        if kind == "static":
            c = getattr(calc.static, cls)(Efermi=Ef.copy(), tetra=bool(tetra and "tetra" in flags), **kwargs)
            out[name] = c
            cf[name] = abs(c.constant_factor)
        elif kind == "dynamic":
            c = getattr(calc.dynamic, cls)(Efermi=Ef.copy(), omega=omega.copy(), **kwargs)
            out[name] = c
            cf[name] = abs(c.constant_factor)
        elif kind == "sdct":
            out[name] = getattr(calc.sdct, cls)(Efermi=Ef.copy(), omega=omega.copy(), **kwargs)
            cf[name] = 1.0
        elif kind == "tab":
            c = getattr(calc.tabulate, cls)(**kwargs)
            tabs[name] = c
            cf[name] = abs(c.constant_factor)
        elif kind == "kres":
            c = getattr(calc.static, cls)(Efermi=Ef.copy(), k_resolved=True, **kwargs)
            tabs[name] = c
            cf[name] = abs(c.constant_factor)
    if tabs:
        # default output (.npz) unless a k-resolved static calculator is inside: writing that file indexes the Fermi
        # axis with band numbers (finding of C13/kres_save), which is not this property's subject
        kres = any(REG[n][0] == "kres" for n in tabs)
        out["TAB"] = calc.TabulatorAll(tabs, mode="grid", ibands=ibands, **({"save_mode": "none"} if kres else {}))
    return out, cf


# ------------------------------------------------------------------------------------------------
# strategies


@st.composite
def calcs_st(draw, syskind):
    names = [n for n in NAMES if allowed(n, syskind)]
    fast = [n for n in names if "slow" not in REG[n][3]]
    slow = [n for n in names if "slow" in REG[n][3]]
    chosen = draw(st.lists(st.sampled_from(fast), min_size=2, max_size=4, unique=True))
    if slow and draw(st.integers(0, 5)) == 0:
        chosen.append(draw(st.sampled_from(slow)))
    return [[n, bool(draw(st.booleans())) and syskind != "kp"] for n in chosen]


def _common(draw, N):
    return dict(N=N, selA=[draw(st.integers(0, 3)) for _ in range(3)], selB=[draw(st.integers(0, 3)) for _ in range(3)],
                libA=draw(st.sampled_from(LIBS)), libB=draw(st.sampled_from(LIBS)),
                e0=draw(fl(-1.5, 1.0)), de=draw(st.sampled_from([0.013, 0.05, 0.17, 0.41])), ne=draw(st.integers(1, 6)),
                ibands=draw(st.sampled_from([None, None, [0], "last", "all_rev"])))


@st.composite
def case_st(draw):
    syskind = draw(st.sampled_from(["plain", "plain", "double", "double", "tr_plain", "tr_double"]))
    N = draw(bgrid.grid_total_st(nmax=8, maxpoints=96))
    c = _common(draw, N)
    c.update(syskind=syskind, model=draw(bgrid.model_st(max_wann=3, max_npairs=4, rmax=2)),
             irred=bool(draw(st.booleans())) if syskind.startswith("tr") else False,
             calcs=draw(calcs_st(syskind)))
    return c


# long grids: one axis with up to 256 points.  Half of the cases take the length from the numbers n whose
# reciprocal is not exactly invertible in floating point ((1/n)*n != 1: 49, 98, 103, 107, ...), the classic place
# where a grid built from a float step gains or loses a point.
FLOAT_PITFALL_N = [n for n in range(2, 257) if (1.0 / n) * n != 1.0]


@st.composite
def long_case_st(draw):
    n = draw(st.one_of(st.sampled_from(FLOAT_PITFALL_N), st.integers(2, 256)))
    ax = draw(st.integers(0, 2))
    N = [1, 1, 1]
    N[ax] = n
    c = _common(draw, N)
    c["ne"] = min(c["ne"], 3)
    c.update(syskind="plain", model=draw(bgrid.model_st(max_wann=2, max_npairs=3, rmax=1)), irred=False,
             calcs=[["s:CumDOS", False], ["s:AHC_internal", False]] if draw(st.booleans()) else [["s:Ohmic_FermiSea", False], ["s:DOS", False]])
    return c


KP_ALPHAS = [(0, 0, 0), (1, 0, 0), (0, 1, 0), (0, 0, 1), (2, 0, 0), (0, 2, 0), (0, 0, 2), (1, 1, 0), (1, 0, 1), (0, 1, 1),
             (3, 0, 0), (1, 1, 1), (0, 2, 1)]


# SystemKP.__init__ needs finite-difference shells (find_shells) even when analytic derivatives are given; for
# strongly skewed cells that search fails with a TypeError (subject of C22, observed with the 'generic' family),
# so the k.p systems here live on rectangular cells (or the default cubic k-box of size 2*kmax)
KP_LATTICES = ["sc", "tetragonal", "orthorhombic"]


@st.composite
def kp_case_st(draw):
    N = [draw(st.sampled_from([1, 3, 5, 9])) for _ in range(3)]
    while N[0] * N[1] * N[2] > 81:
        N[int(np.argmax(N))] = 3 if max(N) > 3 else 1
    c = _common(draw, N)
    c.update(syskind="kp", nw=draw(st.integers(1, 3)),
             alphas=draw(st.lists(st.sampled_from(KP_ALPHAS[1:]), min_size=1, max_size=5, unique=True)),
             rs=draw(st.integers(0, 2 ** 32)), cart=draw(st.booleans()),
             lat=draw(st.one_of(st.none(), bgrid.wbsys.lattice_st(kinds=KP_LATTICES))), kmax=draw(st.sampled_from([0.5, 1.0, 2.0])),
             calcs=draw(calcs_st("kp")))
    c["ibands"] = None if c["ibands"] in ("last", "all_rev") else c["ibands"]
    return c


def make_kp_system(case):
    """polynomial H(k) = sum_alpha k^alpha M_alpha with analytic derivatives up to third order"""
    from wannierberri.system import SystemKP
    nw = case["nw"]
    rng = rng_of(case["rs"])
    alphas = [(0, 0, 0)] + [tuple(a) for a in case["alphas"]]
    mats = []
    for _ in alphas:
        A = rng.uniform(-1, 1, (nw, nw)) + 1j * rng.uniform(-1, 1, (nw, nw))
        mats.append(0.5 * (A + A.conj().T))

    def mono(k, a, der):
        """derivative `der` (tuple of directions) of k^a"""
        a = list(a)
        c = 1.0
        for d in der:
            c *= a[d]
            a[d] -= 1
            if a[d] < 0:
                return 0.0
        return c * np.prod([k[i] ** a[i] for i in range(3)])

    def ham(k):
        return sum(mono(k, a, ()) * M for a, M in zip(alphas, mats))

    def der1(k):
        return np.stack([sum(mono(k, a, (i,)) * M for a, M in zip(alphas, mats)) for i in range(3)], axis=-1)

    def der2(k):
        return np.stack([np.stack([sum(mono(k, a, (i, j)) * M for a, M in zip(alphas, mats)) for j in range(3)],
                                  axis=-1) for i in range(3)], axis=-2)

    def der3(k):
        return np.stack([np.stack([np.stack([sum(mono(k, a, (i, j, l)) * M for a, M in zip(alphas, mats))
                                             for l in range(3)], axis=-1) for j in range(3)], axis=-2)
                         for i in range(3)], axis=-3)

    if case["cart"]:
        kw = dict(k_vector_cartesian=True, derHam=der1, der2Ham=der2, der3Ham=der3)
    else:
        # derivatives are always w.r.t. cartesian k; with reduced argument let the code differentiate numerically
        kw = dict(k_vector_cartesian=False)
    if case["lat"] is None:
        s = SystemKP(Ham=ham, kmax=case["kmax"], **kw)
    else:
        s = SystemKP(Ham=ham, kmax=None, real_lattice=bgrid.wbsys.lattice_matrix(case["lat"]), **kw)
    return s, ham


# ------------------------------------------------------------------------------------------------


def _ibands(spec, nb):
    if spec is None:
        return None
    if spec == "last":
        return [nb - 1]
    if spec == "all_rev":
        return list(range(nb))[::-1]
    return [b for b in spec if b < nb] or [0]


def _arrays(res):
    """flatten a ResultDict into {label: array}"""
    from wannierberri.result.tabresult import TABresult
    out = {}
    for name, r in res.results.items():
        if isinstance(r, TABresult):
            out["TAB/kpoints"] = np.array(r.kpoints)
            for q in r.results:
                # k-resolved static results have no band axis: TABresult.get_data would slice their Fermi axis
                out["TAB/" + q] = np.array(r.get_data(q)) if hasattr(r.results[q], "nband") else \
                    np.array(r.results[q].data)
        else:
            out[name] = np.array(r.data)
    return out


# big FFT grids (more than 1024 points in one FFT, where block-wise processing of the k-points of one K-point would
# start): factorisation A is the pure FFT one (NKdiv=1), B is drawn
BIG_N = [[12, 12, 12], [11, 11, 11], [36, 36, 1], [1, 48, 24], [1100, 1, 1], [35, 1, 33], [16, 16, 5], [13, 10, 9],
         [1, 1, 2050], [10, 10, 11], [45, 25, 1], [6, 15, 14]]


@st.composite
def big_case_st(draw):
    N = list(draw(st.sampled_from(BIG_N)))
    c = _common(draw, N)
    c["selA"] = [-1, -1, -1]
    c["selB"] = [draw(st.integers(0, 5)) for _ in range(3)]
    c["ne"] = min(c["ne"], 3)
    c.update(syskind="plain", model=draw(bgrid.model_st(max_wann=2, max_npairs=3, rmax=1)), irred=False,
             calcs=draw(st.sampled_from([[["s:CumDOS", False], ["s:AHC_internal", False]],
                                         [["s:Ohmic_FermiSea", False], ["s:DOS", False]],
                                         [["s:AHC", False], ["s:Ohmic_FermiSurf", False]]])))
    return c


def check(case):
    syskind = case["syskind"]
    N = [int(x) for x in case["N"]]
    divA, fftA = bgrid.factorisation(N, case["selA"])
    divB, fftB = bgrid.factorisation(N, case["selB"])
    Ef = case["e0"] + 3.14159e-7 + case["de"] * np.arange(case["ne"])
    omega = 0.07 + 0.45 * np.arange(3)
    if syskind == "kp":
        s, ham = make_kp_system(case)
        model, deg = None, 1
    else:
        s, model, deg = bgrid.build_system(case["model"], spin="double" if syskind.endswith("double") else "plain",
                                           tr=syskind.startswith("tr"))
    nb = s.num_wann
    ibands = _ibands(case["ibands"], nb)
    entries = [e for e in case["calcs"]]
    irred = bool(case.get("irred", False))
    with scratch_dir() as d:
        calcsA, cf = build_calculators(entries, Ef, omega, ibands)
        rA, gA = bgrid.run_grid(s, divA, fftA, calcsA, d, tag="A", fftlib=case["libA"], use_irred_kpt=irred)
        calcsB, _ = build_calculators(entries, Ef, omega, ibands)
        rB, gB = bgrid.run_grid(s, divB, fftB, calcsB, d, tag="B", fftlib=case["libB"], use_irred_kpt=irred)
    if not (np.all(gA.div * gA.FFT == N) and np.all(gB.div * gB.FFT == N)):
        raise Violation("grid-size", f"requested N={N}: got {gA.div}x{gA.FFT} and {gB.div}x{gB.FFT}")
    A, B = _arrays(rA), _arrays(rB)
    if sorted(A) != sorted(B):
        raise Violation("result-keys", f"{sorted(A)} vs {sorted(B)}")
    # reference energies from the harness' own Hamiltonian (for conditioning, tie witnesses and the tabulated mesh)
    kmesh = bgrid.mesh(N)
    if model is not None:
        Eall = np.array([np.repeat(model.bands(k), deg) for k in kmesh])
    else:
        k1 = (kmesh + 0.5) % 1 - 0.5
        Eall = np.array([np.linalg.eigvalsh(ham(k @ s.recip_lattice if case["cart"] else k)) for k in k1])
    gap = bgrid.min_intergroup_gap(Eall, 1e-4)
    gap0 = bgrid.min_intergroup_gap(Eall, 1e-9)
    cond = max(1.0, 1e-3 / gap) ** 4 if np.isfinite(gap) else 1.0
    V = abs(np.linalg.det(s.real_lattice))
    vfac = max(1.0, 1.0 / V, V)
    worst = None
    nonzero = False
    for key in sorted(A):
        a, b = A[key], B[key]
        if key == "TAB/kpoints":
            for nm, x in (("A", a), ("B", b)):
                if x.shape != kmesh.shape or np.max(np.abs(x - kmesh)) > 1e-9:
                    raise Violation("tab-kpoints", f"run {nm}: tabulated k-points are not the C-ordered {N} mesh")
            continue
        name = key.split("/", 1)[1] if key.startswith("TAB/") else key
        c = cf.get(name, 1.0)
        floor = 1e-10 * c * vfac
        good, rel = bgrid.close(a, b, RTOL * cond, floor * cond)
        if max(np.max(np.abs(a), initial=0), np.max(np.abs(b), initial=0)) > 1e3 * floor:
            nonzero = True
        if not good and (worst is None or rel > worst[1]):
            worst = (key, rel, a.shape, b.shape)
    # the tabulated energies must be the harness' own bands at the C-ordered mesh points (slot <-> k-point mapping)
    if "TAB/Energy" in A and worst is None:
        sel = list(range(nb)) if ibands is None else ibands
        ref = Eall[:, sel].reshape(tuple(N) + (len(sel),))
        # degenerate groups are averaged by the tabulator: exact pairs here, so the mean equals the member
        if gap0 > 1e-3:
            for nm, x in (("A", A["TAB/Energy"]), ("B", B["TAB/Energy"])):
                if x.shape != ref.shape or np.max(np.abs(x - ref)) > 1e-8 * (1 + np.max(np.abs(ref))):
                    raise Violation("tab-energy-vs-own-bands",
                                    f"run {nm}: tabulated energies differ from the harness' bands on the mesh "
                                    f"(max {np.max(np.abs(x - ref)) if x.shape == ref.shape else 'shape'})")
    if worst is not None:
        de = case["de"] if case["ne"] > 1 else 0.001
        ext = np.concatenate([Ef[0] - de * np.arange(1, 3), Ef, Ef[-1] + de * np.arange(1, 3)])
        if np.min(np.abs(Eall[:, :, None] - ext[None, None, :])) < 1e-9 or bgrid.threshold_tie(Eall, 1e-4) \
                or bgrid.threshold_tie(Eall, 1e-2):
            raise Inconclusive("tie: band energy at a Fermi level / gap at the degeneracy threshold")
        raise Violation("factorisations-differ:" + worst[0].split(":")[0].split("/")[0],
                        f"{worst[0]}: rel diff {worst[1]:.2e} shapes {worst[2]} {worst[3]}; N={N} "
                        f"A=div{divA}xfft{fftA}/{case['libA']} B=div{divB}xfft{fftB}/{case['libB']} cond={cond:.1e}")
    differ = (divA != divB) and (fftA != fftB)
    rec = np.array(s.NKFFT_recommended)
    small = bool(np.any(np.array(fftA) < rec) or np.any(np.array(fftB) < rec)) and syskind != "kp"
    labels = [syskind, "irred" if irred else None, "differ" if differ else "same-factorisation",
              "FFT<recommended" if small else None, f"libs={case['libA']}/{case['libB']}",
              "near-degenerate" if cond > 1 else None, "nonzero" if nonzero else "all-zero",
              "div=1" if (np.prod(divA) == 1 or np.prod(divB) == 1) else None,
              "fft=1" if (np.prod(fftA) == 1 or np.prod(fftB) == 1) else None]
    labels += ["calc=" + e[0] + ("+tetra" if e[1] and "tetra" in REG[e[0]][3] else "") for e in entries]
    return ok(differ and nonzero, *labels)


# wall-clock budgets can be stretched on an overloaded machine (never changes which cases are generated)
import os as _os
_BS = float(_os.environ.get("VERIF_BUDGET_SCALE", "1") or 1)
SUBS = [Sub("run", case_st(), check, quick=48, thorough=4800, budget_quick=70 * _BS, budget_thorough=500 * _BS),
        Sub("long", long_case_st(), check, quick=24, thorough=480, budget_quick=60 * _BS, budget_thorough=300 * _BS),
        Sub("big", big_case_st(), check, quick=8, thorough=96, budget_quick=60 * _BS, budget_thorough=300 * _BS, per_shard_min=1),
        Sub("kp", kp_case_st(), check, quick=8, thorough=640, budget_quick=40 * _BS, budget_thorough=300 * _BS)]
