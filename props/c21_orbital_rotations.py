"""C21  Orbital rotation matrices form an orthogonal representation  (DESIGN 4/C21)

Code under test: wannierberri.symmetry.orbitals.OrbitalRotator (Orbitals.rot_orb_basis / rot_orb, cache, local bases)
and wannierberri.symmetry.Dwann.Dwann (+ Projection which supplies positions / local bases).

Oracle (vlib/orbref.py, nothing shared with the code): orthonormal real harmonics written as cartesian polynomials and the
Wannier90 hybrid tables, evaluated at random points:   phi_j(B1 R^-1 r) = sum_i phi_i(B2 r) D_ij   (B = local axes as
rows).  Orthogonality, D(1)=1 and D(g1 g2)=D(g1)D(g2) are asserted on top of that.  For hybrids these laws are asserted
only when the harness' OWN computation shows that the span of the hybrid set is invariant under the (effective) rotation;
otherwise only the always-true contraction law (singular values <= 1) is asserted.
"""
import numpy as np
from hypothesis import strategies as st

from vlib.runner import Sub, Violation, Inconclusive, Reject, ok
from vlib.util import fl, rng_of
from vlib import orbref, wbsys

PROPERTY_ID = "C21"
RULE = ("sub 'shells': ';'-joined lists of full shells s,p,d,f, two O(3) elements g1,g2 (random Euler x optional "
        "inversion, the 48 cubic and 24 hexagonal operations, optionally conjugated by a global rotation; g2 may also be a "
        "neighbour of g1 0.03..0.3 rad away, well outside the cache tolerance), optional random "
        "orthonormal local bases B1,B2,B3 (proper or improper); sub 'hybrids': hybrid sets (optionally joined with full "
        "shells) with effective rotations from the invariance group of the span (axial groups, Oh, O(3)) or arbitrary; "
        "sub 'dwann': crystal = wbsys lattice + 1..3 atoms, space group found by irrep/spglib, 1..2 projections (site, "
        "orbital, rotate_basis, local axes), random k and G, every symmetry operation.  non-trivial = an improper "
        "rotation is involved or an orbital with l>=2 or a hybrid; distinct = distinct generated case")
ASSUMPTIONS = [
    "orbital order inside a shell and hybrid definitions are those of the Wannier90 user guide (documented in orbitals.py)",
    "D(R) is defined by phi_j(R^-1 r) = sum_i phi_i(r) D_ij (docstring of rot_orb_basis); local bases hold the axes as rows",
    "for a hybrid set orthogonality / composition / the transformation law are promised only for rotations under which "
    "the span of the set is invariant (decided by the harness' own harmonics); otherwise only singular values <= 1",
    "OrbitalRotator caches rotations with tolerance 1e-4: one fresh rotator per case, distinct effective rotations of a "
    "case are >= 1e-2 apart (cases violating this are counted inconclusive)",
    "Dwann phases follow the Bloch-sum convention |k> = sum_R e^{ik.R}|R>: block(j<-i) = exp(2 pi i (gk).T) x D_orb with "
    "T = tau_j - g tau_i (integer), as documented in Dwann.T / get_on_points",
    "irrep/spglib (space-group detection, spinor matrices) are dependencies, not under test",
]
MIN_NONTRIVIAL = {"quick": 40, "thorough": 800}
TOL = 1e-9
CACHE_SEP = 1e-2

_ang = st.one_of(fl(0, 6.283185), st.sampled_from([0.0, np.pi / 2, np.pi, np.pi / 3, 2 * np.pi / 3, np.pi / 4]))
_euler = st.lists(_ang, min_size=3, max_size=3)

rot_spec = st.one_of(
    st.fixed_dictionaries(dict(kind=st.just("euler"), e=_euler, inv=st.booleans())),
    st.fixed_dictionaries(dict(kind=st.just("cubic"), i=st.integers(0, 47))),
    st.fixed_dictionaries(dict(kind=st.just("hex"), i=st.integers(0, 23))),
    st.fixed_dictionaries(dict(kind=st.just("id"), inv=st.booleans())),
)
# g2 = g1 x (rotation by a small angle >= 0.03 about a random axis): a neighbour of g1 well outside the documented
# cache tolerance 1e-4 (and outside the 1e-2 exclusion zone) -- a cache that merges them returns a wrong matrix
near_spec = st.fixed_dictionaries(dict(kind=st.just("near"), e=_euler, angle=fl(0.03, 0.3), inv=st.booleans()))
basis_spec = st.fixed_dictionaries(dict(e=_euler, inv=st.booleans()))


def rot_matrix(spec, conj=None, ref=None):
    k = spec["kind"]
    if k == "near":
        axis = orbref.rot_euler(spec["e"])[:, 2]
        R = ref @ orbref.rot_axis(axis, spec["angle"])
        return -R if spec["inv"] else R
    if k == "euler":
        R = orbref.rot_euler(spec["e"])
        if spec["inv"]:
            R = -R
        return R
    if k == "id":
        return -np.eye(3) if spec["inv"] else np.eye(3)
    R = orbref.cubic_ops()[spec["i"]] if k == "cubic" else orbref.hex_ops()[spec["i"]]
    if conj is not None:
        Q = orbref.rot_euler(conj)
        R = Q @ R @ Q.T
    return R


def basis_matrix(spec):
    B = orbref.rot_euler(spec["e"])
    return -B if spec["inv"] else B


def maxdiff(a, b):
    return float(np.abs(np.asarray(a) - np.asarray(b)).max())


def require_cache_separation(mats):
    for i in range(len(mats)):
        for j in range(i):
            d = maxdiff(mats[i], mats[j])
            if 1e-12 < d < CACHE_SEP:
                raise Inconclusive("two effective rotations of the case closer than 1e-2 (cache tolerance domain)")


def check_matrix_shape(D, n, what):
    D = np.asarray(D)
    if D.shape != (n, n):
        raise Violation("shape", f"{what}: shape {D.shape}, expected {(n, n)}")
    if np.iscomplexobj(D) and np.abs(D.imag).max() > 0:
        raise Violation("not-real", f"{what}: complex entries")
    if not np.all(np.isfinite(D)):
        raise Violation("not-finite", what)
    return np.array(D.real, dtype=float)


# ------------------------------------------------------------------------------------------------
# sub 'shells'

_shell = st.sampled_from(["d", "p", "s", "d", "p"])


@st.composite
def shells_case(draw):
    sym = draw(st.lists(_shell, min_size=1, max_size=3))
    if draw(st.sampled_from([False, False, False, True])):      # the sympy evaluation of an f matrix costs ~0.5 s
        sym[draw(st.integers(0, len(sym) - 1))] = "f"
    pad = draw(st.booleans())
    symbol = (" ; " if pad else ";").join(sym)
    g1 = draw(rot_spec)
    g2 = draw(st.one_of(rot_spec, near_spec))
    conj = draw(st.one_of(st.none(), _euler))
    bases = draw(st.one_of(st.none(), st.lists(basis_spec, min_size=3, max_size=3)))
    order = draw(st.permutations([0, 1, 2, 3]))
    return dict(symbol=symbol, g1=g1, g2=g2, conj=conj, bases=bases, order=list(order), repeat=draw(st.integers(0, 3)),
                rs=draw(st.integers(0, 2 ** 32)))


def _run_four(rot, symbol, R1, R2, R12, B, order, repeat):
    """the four calls  D(1;B1->B1), D(g2;B1->B2), D(g1;B2->B3), D(g1g2;B1->B3)  in the drawn order; one of them repeated"""
    calls = [(np.eye(3), 0, 0), (R2, 0, 1), (R1, 1, 2), (R12, 0, 2)]
    out = [None] * 4
    seq = list(order) + [order[repeat]]
    for n, ic in enumerate(seq):
        R, i1, i2 = calls[ic]
        Rin = R.copy()
        if B is None:
            D = rot(symbol, rot_cart=Rin)
        else:
            b1, b2 = B[i1].copy(), B[i2].copy()
            D = rot(symbol, rot_cart=Rin, basis1=b1, basis2=b2)
            if not (np.array_equal(b1, B[i1]) and np.array_equal(b2, B[i2])):
                raise Violation("mutates-input", "a local basis passed to OrbitalRotator was modified")
        if not np.array_equal(Rin, R):
            raise Violation("mutates-input", "rot_cart passed to OrbitalRotator was modified")
        D = np.array(D, copy=True)
        if out[ic] is not None and not np.array_equal(out[ic], D):
            raise Violation("repeat-call", f"second call with the same arguments differs by {maxdiff(out[ic], D):.2e}")
        out[ic] = D
    return calls, out


def check_shells(case):
    from wannierberri.symmetry.orbitals import OrbitalRotator
    orbref.selfcheck()
    symbol = case["symbol"]
    clean = ";".join(s.strip() for s in symbol.split(";"))
    n = orbref.num_orb(clean)
    R1 = rot_matrix(case["g1"], case["conj"])
    R2 = rot_matrix(case["g2"], case["conj"], ref=R1)
    R12 = R1 @ R2
    B = None if case["bases"] is None else [basis_matrix(b) for b in case["bases"]]
    if B is None:
        eff = [np.eye(3), R2, R1, R12]
    else:
        eff = [B[0] @ B[0].T, B[1] @ R2 @ B[0].T, B[2] @ R1 @ B[1].T, B[2] @ R12 @ B[0].T]
    require_cache_separation(eff)
    rot = OrbitalRotator()
    calls, Ds = _run_four(rot, symbol, R1, R2, R12, B, case["order"], case["repeat"])
    names = ["D(1)", "D(g2)", "D(g1)", "D(g1 g2)"]
    Ds = [check_matrix_shape(D, n, nm) for D, nm in zip(Ds, names)]
    pts = orbref.sample_points(rng_of(case["rs"]), 24)
    if maxdiff(Ds[0], np.eye(n)) > TOL:
        raise Violation("identity", f"{symbol}: D(identity) differs from 1 by {maxdiff(Ds[0], np.eye(n)):.2e}")
    for D, nm in zip(Ds, names):
        e = maxdiff(D @ D.T, np.eye(n))
        if e > TOL:
            raise Violation("orthogonality", f"{symbol}: |{nm} {nm}^T - 1| = {e:.2e}")
    for D, nm, (R, i1, i2) in zip(Ds, names, calls):
        e = orbref.transform_defect(clean, D, R, pts, None if B is None else B[i1], None if B is None else B[i2])
        if e > TOL:
            raise Violation("transformation-law",
                            f"{symbol}: {nm}: max|phi_j(R^-1 r) - sum_i phi_i(r) D_ij| = {e:.2e} at 24 random points"
                            + (" (local bases)" if B is not None else ""))
    e = maxdiff(Ds[3], Ds[2] @ Ds[1])
    if e > TOL:
        raise Violation("composition", f"{symbol}: |D(g1 g2) - D(g1) D(g2)| = {e:.2e}")
    dets = [np.linalg.det(m) for m in eff]
    improper = any(d < 0 for d in dets)
    lmax = max(orbref.L_OF[s] for s in clean.split(";"))
    labels = [f"lmax={lmax}", "improper" if improper else "proper-only", "local-bases" if B is not None else "global-basis",
              f"g1={case['g1']['kind']}", f"g2={case['g2']['kind']}", "joined" if ";" in clean else "single-shell",
              "conjugated-crystal-op" if case["conj"] is not None and (case["g1"]["kind"] in ("cubic", "hex") or
                                                                      case["g2"]["kind"] in ("cubic", "hex")) else None,
              "improper-basis" if B is not None and any(np.linalg.det(b) < 0 for b in B) else None]
    return ok(improper or lmax >= 2, *labels)


# ------------------------------------------------------------------------------------------------
# sub 'stream': ONE OrbitalRotator object serves a long stream of different rotations (the object is shared by all
# projections / operations / local frames of a calculation); every matrix it hands out must still be the right one

stream_case = st.fixed_dictionaries(dict(
    symbol=st.sampled_from(["p", "d", "s;p", "p;d", "d;p;s"]), n=st.sampled_from([40, 150, 150, 300]),
    improper=st.booleans(), rs=st.integers(0, 2 ** 32)))


def check_stream(case):
    from wannierberri.symmetry.orbitals import OrbitalRotator
    orbref.selfcheck()
    symbol = case["symbol"]
    nfun = orbref.num_orb(symbol)
    rng = rng_of(case["rs"])
    Rs = [np.eye(3)]
    while len(Rs) < case["n"]:
        R = orbref.rot_euler([float(a) for a in rng.uniform(0, 2 * np.pi, size=3)])
        if case["improper"] and rng.uniform() < 0.5:
            R = -R
        if min(maxdiff(R, Q) for Q in Rs) < CACHE_SEP:      # keep the stream outside the documented cache tolerance
            continue
        Rs.append(R)
    rot = OrbitalRotator()
    pts = orbref.sample_points(rng, 12)
    Ds = []
    for i, R in enumerate(Rs):
        D = check_matrix_shape(np.array(rot(symbol, rot_cart=R.copy()), copy=True), nfun, f"D(#{i})")
        e = maxdiff(D @ D.T, np.eye(nfun))
        if e > TOL:
            raise Violation("orthogonality", f"{symbol}: rotation #{i} of the stream: |D D^T - 1| = {e:.2e}")
        e = orbref.transform_defect(symbol, D, R, pts, None, None)
        if e > TOL:
            raise Violation("transformation-law", f"{symbol}: rotation #{i} of a stream through one rotator object: "
                                                  f"max|phi_j(R^-1 r) - sum_i phi_i(r) D_ij| = {e:.2e}")
        Ds.append(D)
    if maxdiff(Ds[0], np.eye(nfun)) > TOL:
        raise Violation("identity", f"{symbol}: D(identity) differs from 1")
    # products of members of the stream (new rotations for the object) and repeated requests for earlier members
    for _ in range(6):
        i, j = (int(v) for v in rng.integers(1, len(Rs), size=2))
        Rij = Rs[i] @ Rs[j]
        if min(maxdiff(Rij, Q) for Q in Rs) < CACHE_SEP:
            continue
        D = check_matrix_shape(np.array(rot(symbol, rot_cart=Rij.copy()), copy=True), nfun, "D(product)")
        e = maxdiff(D, Ds[i] @ Ds[j])
        if e > TOL:
            raise Violation("composition", f"{symbol}: |D(g{i} g{j}) - D(g{i}) D(g{j})| = {e:.2e} late in a stream")
    for i in (0, 1, len(Rs) // 2, len(Rs) - 1):
        D = np.array(rot(symbol, rot_cart=Rs[i].copy()), copy=True)
        if maxdiff(D, Ds[i]) > TOL:
            raise Violation("repeat-call", f"{symbol}: rotation #{i} requested again at the end of the stream differs by "
                                           f"{maxdiff(D, Ds[i]):.2e}")
    return ok(len(Rs) >= 150, f"n={len(Rs)}", symbol, "improper" if case["improper"] else "proper-only")


# ------------------------------------------------------------------------------------------------
# sub 'hybrids'

HYB_CLASS = {"sp": "x", "p2": "x", "sp2": "z", "pxy": "z", "pz": "z", "sp3": "any", "sp3d2": "cubic", "t2g": "cubic",
             "eg": "cubic"}
_axial = st.fixed_dictionaries(dict(kind=st.just("axial"), angle=_ang, flip=st.booleans(), inv=st.booleans()))
_cubic = st.fixed_dictionaries(dict(kind=st.just("cubic"), i=st.integers(0, 47)))
_any = st.fixed_dictionaries(dict(kind=st.just("euler"), e=_euler, inv=st.booleans()))


def group_rot(spec, cls):
    if spec["kind"] == "axial":
        if cls == "x":
            R = orbref.rot_axis([1, 0, 0], spec["angle"])
            if spec["flip"]:
                R = R @ np.diag([-1.0, 1.0, -1.0])
        else:
            R = orbref.rot_axis([0, 0, 1], spec["angle"])
            if spec["flip"]:
                R = R @ np.diag([1.0, -1.0, -1.0])
        return -R if spec["inv"] else R
    return rot_matrix(spec)


@st.composite
def hybrids_case(draw):
    hyb = draw(st.sampled_from(orbref.HYBRIDS))
    cls = HYB_CLASS[hyb]
    mates = [h for h in orbref.HYBRIDS if HYB_CLASS[h] in (cls, "any") or cls == "any"] + ["s", "p", "d"]
    extra = draw(st.lists(st.sampled_from(mates), min_size=0, max_size=2))
    parts = list(draw(st.permutations([hyb] + extra)))
    classes = {HYB_CLASS[h] for h in parts if h in HYB_CLASS} - {"any"}
    mode = draw(st.sampled_from(["invariant", "invariant", "invariant", "arbitrary"]))
    if len(classes) > 1:           # e.g. sp3 joined with an x- and a z-hybrid: no common invariance class is drawn
        parts = [hyb]
        classes = {cls} - {"any"}
    gcls = next(iter(classes)) if classes else "any"
    if mode == "arbitrary":
        gs = [draw(_any), draw(_any)]
    elif gcls in ("x", "z"):
        gs = [draw(_axial), draw(_axial)]
    elif gcls == "cubic":
        gs = [draw(_cubic), draw(_cubic)]
    else:
        gs = [draw(_any), draw(_any)]
    bases = draw(st.one_of(st.none(), st.lists(basis_spec, min_size=3, max_size=3)))
    return dict(symbol=";".join(parts), cls=gcls, mode=mode, g1=gs[0], g2=gs[1], bases=bases,
                order=list(draw(st.permutations([0, 1, 2, 3]))), repeat=draw(st.integers(0, 3)),
                rs=draw(st.integers(0, 2 ** 32)))


def check_hybrids(case):
    from wannierberri.symmetry.orbitals import OrbitalRotator
    orbref.selfcheck()
    symbol = case["symbol"]
    parts = symbol.split(";")
    n = orbref.num_orb(symbol)
    E1 = group_rot(case["g1"], case["cls"])      # effective rotations (in the local frames)
    E2 = group_rot(case["g2"], case["cls"])
    E12 = E1 @ E2
    B = None if case["bases"] is None else [basis_matrix(b) for b in case["bases"]]
    if B is None:
        R1, R2 = E1, E2
    else:
        R2 = B[1].T @ E2 @ B[0]
        R1 = B[2].T @ E1 @ B[1]
    R12 = R1 @ R2
    eff = [np.eye(3), E2, E1, E12]
    require_cache_separation(eff if B is None else [B[0] @ B[0].T, B[1] @ R2 @ B[0].T, B[2] @ R1 @ B[1].T,
                                                    B[2] @ R12 @ B[0].T])
    rng = rng_of(case["rs"])
    pts = orbref.sample_points(rng, 48)
    # own decision: is the span of every part invariant under the effective rotation?
    defects = [max(orbref.span_defect(p, E, pts) for p in parts) for E in eff]
    for d in defects:
        if 1e-10 < d < 1e-4:
            raise Inconclusive("span of the hybrid set nearly invariant (between 1e-10 and 1e-4)")
    invariant = [d <= 1e-10 for d in defects]
    if case["mode"] == "invariant" and not all(invariant):
        raise RuntimeError(f"harness: group element does not preserve the span of {symbol}: {defects}")
    rot = OrbitalRotator()
    calls, Ds = _run_four(rot, symbol, R1, R2, R12, B, case["order"], case["repeat"])
    names = ["D(1)", "D(g2)", "D(g1)", "D(g1 g2)"]
    Ds = [check_matrix_shape(D, n, nm) for D, nm in zip(Ds, names)]
    if maxdiff(Ds[0], np.eye(n)) > TOL:
        raise Violation("identity", f"{symbol}: D(identity) differs from 1 by {maxdiff(Ds[0], np.eye(n)):.2e}")
    for D, nm, inv, (R, i1, i2) in zip(Ds, names, invariant, calls):
        sv = np.linalg.svd(D, compute_uv=False)
        if sv.max() > 1 + TOL:
            raise Violation("contraction", f"{symbol}: {nm} has a singular value {sv.max():.6f} > 1")
        if inv:
            e = maxdiff(D @ D.T, np.eye(n))
            if e > TOL:
                raise Violation("orthogonality", f"{symbol}: |{nm} {nm}^T - 1| = {e:.2e} (span invariant under the rotation)")
            e = orbref.transform_defect(symbol, D, R, pts, None if B is None else B[i1], None if B is None else B[i2])
            if e > TOL:
                raise Violation("transformation-law", f"{symbol}: {nm}: max|phi_j(R^-1 r) - sum_i phi_i(r) D_ij| = {e:.2e}")
    if all(invariant):
        e = maxdiff(Ds[3], Ds[2] @ Ds[1])
        if e > TOL:
            raise Violation("composition", f"{symbol}: |D(g1 g2) - D(g1) D(g2)| = {e:.2e}")
    improper = np.linalg.det(E1) < 0 or np.linalg.det(E2) < 0
    labels = [f"hybrid={p}" for p in sorted(set(parts)) if p in HYB_CLASS]
    labels += ["all-invariant" if all(invariant) else "some-not-invariant(weak-law)", f"class={case['cls']}",
               "improper" if improper else "proper-only", "local-bases" if B is not None else "global-basis",
               "joined" if len(parts) > 1 else "single"]
    return ok(True, *labels)


# ------------------------------------------------------------------------------------------------
# sub 'dwann'

_FR = [0.0, 0.5, 0.25, 0.75, 1 / 3, 2 / 3, 1 / 8, 0.1, 0.37]
_pos = st.lists(st.sampled_from(_FR), min_size=3, max_size=3)
_orb_dw = st.sampled_from(["s", "p", "d", "p", "d", "f", "sp3", "sp3d2", "sp2", "sp", "pz", "pxy", "p2", "t2g", "eg",
                           "s;p", "p;d", "sp3;d"])


@st.composite
def dwann_case(draw):
    lat = draw(wbsys.lattice_st())
    natom = draw(st.integers(1, 3))
    atoms = [dict(pos=draw(_pos), typ=draw(st.integers(1, 2))) for _ in range(natom)]
    projs = []
    for _ in range(draw(st.integers(1, 2))):
        site = draw(st.one_of(st.integers(0, natom - 1), _pos))
        axes = draw(st.one_of(st.none(), st.none(), st.fixed_dictionaries(dict(e=_euler, which=st.sampled_from(["xz", "z"])))))
        projs.append(dict(site=site, orb=draw(_orb_dw), rotate_basis=draw(st.booleans()), axes=axes))
    return dict(lat=lat, atoms=atoms, spinor=draw(st.booleans()), include_TR=draw(st.booleans()), projs=projs,
                k=[draw(fl(-0.5, 0.5)) for _ in range(3)], G=[draw(st.integers(-2, 2)) for _ in range(3)],
                rs=draw(st.integers(0, 2 ** 32)))


def _mod1_equal(a, b, tol=1e-6):
    d = np.asarray(a) - np.asarray(b)
    return bool(np.all(np.abs(d - np.round(d)) < tol))


def check_dwann(case):
    from irrep.spacegroup import SpaceGroup
    from wannierberri.symmetry.orbitals import OrbitalRotator
    from wannierberri.symmetry.projections import Projection
    from wannierberri.symmetry.Dwann import Dwann
    orbref.selfcheck()
    L = wbsys.lattice_matrix(case["lat"])
    apos = np.array([a["pos"] for a in case["atoms"]], dtype=float)
    for i in range(len(apos)):
        for j in range(i):
            if _mod1_equal(apos[i], apos[j]):
                raise Reject("two atoms on the same site")
    typat = [a["typ"] for a in case["atoms"]]
    try:
        sg = SpaceGroup.from_cell(real_lattice=L, positions=apos, typat=typat, spinor=case["spinor"],
                                  include_TR=case["include_TR"])
    except Exception as e:  # irrep / spglib are dependencies, not under test
        raise Reject(f"irrep could not build the space group: {type(e).__name__}")
    nsym = sg.size
    rng = rng_of(case["rs"])
    pts = orbref.sample_points(rng, 40)
    k = np.array(case["k"], dtype=float)
    G = np.array(case["G"], dtype=int)
    Linv = np.linalg.inv(L)
    # precondition: the operations reported by spglib (found with its tolerance 1e-5) are exact symmetries of the
    # lattice that was generated, i.e. orthogonal in Cartesian coordinates to rounding.  A lattice that is symmetric
    # only within that tolerance (e.g. a monoclinic angle 2e-6 rad away from 90 degrees) is a tie, not a violation.
    for symop in sg.symmetries:
        Rc_ = L.T @ np.array(symop.rotation, dtype=float) @ Linv.T
        if maxdiff(Rc_ @ Rc_.T, np.eye(3)) > 1e-10:
            raise Inconclusive("lattice has an operation of the detected group only within spglib's tolerance (tie)")
    seen_rot = []

    class RecordingRotator(OrbitalRotator):
        """the shared rotator object of the calculation; remembers every effective rotation it was asked for"""

        def __call__(self, orb_symbol, rot_cart=None, irot=None, basis1=None, basis2=None):
            if rot_cart is not None:
                seen_rot.append(np.array(rot_cart if basis1 is None else basis2 @ rot_cart @ basis1.T, dtype=float))
            return super().__call__(orb_symbol, rot_cart=rot_cart, irot=irot, basis1=basis1, basis2=basis2)

    def cache_tie():
        """two DIFFERENT effective rotations closer than the rotator's matching tolerance domain (documented 1e-4; guard
        1e-2 as in sub 'shells') share one cached matrix: a tie of the generator, not a violation"""
        M = np.array(seen_rot).reshape(len(seen_rot), 9) if seen_rot else np.zeros((0, 9))
        for i in range(len(M)):
            d = np.abs(M[:i] - M[i]).max(axis=1) if i else np.zeros(0)
            if np.any((d > 1e-12) & (d < CACHE_SEP)):
                return True
        return False

    def fail(bucket, detail):
        if cache_tie():
            raise Inconclusive("effective rotations of the case inside the rotator cache tolerance domain (tie)")
        raise Violation(bucket, detail)

    rotator = RecordingRotator()
    labels = [f"lat={case['lat']['kind']}", "spinor" if sg.spinor else "scalar",
              "nsym<=4" if nsym <= 4 else ("nsym<=16" if nsym <= 16 else "nsym>16"),
              "has-TR-ops" if any(s.time_reversal for s in sg.symmetries) else None]
    any_improper = any(np.linalg.det(s.rotation) < 0 for s in sg.symmetries)
    nontrivial = False
    for pj in case["projs"]:
        orb = pj["orb"]
        if "f" in orb.split(";") and nsym > 12:
            orb = "d"           # keep the sympy cost bounded
        site = apos[pj["site"]] if isinstance(pj["site"], int) else np.array(pj["site"], dtype=float)
        kw = {}
        if pj["axes"] is not None:
            Q = orbref.rot_euler(pj["axes"]["e"])
            kw["zaxis"] = Q[2].tolist()
            if pj["axes"]["which"] == "xz":
                kw["xaxis"] = Q[0].tolist()
            elif abs(abs(Q[2, 0]) - 1) < 1e-3:
                raise Reject("z axis along x with default x axis (documented ValueError)")
        proj = Projection(position_num=site.tolist(), orbital=orb, spacegroup=sg, rotate_basis=pj["rotate_basis"], **kw)
        positions = np.array(proj.positions, dtype=float)
        npnt = len(positions)
        basis_list = [np.array(b, dtype=float) for b in proj.basis_list]
        if len(basis_list) != npnt:
            raise Violation("basis-list", f"{len(basis_list)} local bases for {npnt} sites")
        for b in basis_list:
            if maxdiff(b @ b.T, np.eye(3)) > 1e-8:
                raise Violation("basis-list", "local basis not orthonormal")
        # the orbit of the site must be closed under the group and free of duplicates (own arithmetic)
        for i in range(npnt):
            for j in range(i):
                if _mod1_equal(positions[i], positions[j], 1e-5):
                    raise Violation("orbit", "duplicate site in Projection.positions")
        if not _mod1_equal(positions[0], site, 1e-5):
            raise Violation("orbit", "first site of the projection is not the requested one")
        for o in proj.orbitals:
            hyb = o in HYB_CLASS
            D = Dwann(spacegroup=sg, positions=positions, orbital=o, orbitalrotator=rotator, spinor=sg.spinor,
                      basis_list=basis_list)
            nscal = orbref.num_orb(o)
            nso = nscal * (2 if sg.spinor else 1)
            if D.num_points != npnt or D.num_wann != npnt * nso:
                raise Violation("dwann-size", f"{o}: num_points {D.num_points} (expected {npnt}), num_wann {D.num_wann}")
            all_inv = True
            held = []
            for isym, symop in enumerate(sg.symmetries):
                rot_red = np.array(symop.rotation, dtype=float)
                trans = np.array(symop.translation, dtype=float)
                Rc = L.T @ rot_red @ Linv.T
                k1 = k @ np.linalg.inv(rot_red)
                if symop.time_reversal:
                    k1 = -k1
                M = D.get_on_points(k.copy(), k1 + G, isym)
                if M.shape != (npnt * nso, npnt * nso):
                    raise Violation("dwann-size", f"matrix shape {M.shape}")
                held.append((isym, M, np.array(M, copy=True)))      # the matrices of all operations are kept by the caller
                sym_inv = True
                for ip in range(npnt):
                    q = rot_red @ positions[ip] + trans
                    img = [jp for jp in range(npnt) if _mod1_equal(positions[jp], q, 1e-5)]
                    if len(img) != 1:
                        raise Violation("orbit", f"image of site {ip} under operation {isym} is not a site of the orbit")
                    jp = img[0]
                    T = np.round(positions[jp] - q)
                    if int(D.atommap[ip, isym]) != jp or not np.array_equal(np.array(D.T[ip, isym]), T):
                        raise Violation("centre-map", f"{o}: op {isym}: site {ip} -> atommap {D.atommap[ip, isym]}, "
                                        f"T {D.T[ip, isym]}; own image {jp}, T {T}")
                    col = M[:, ip * nso:(ip + 1) * nso]
                    other = np.delete(col, np.s_[jp * nso:(jp + 1) * nso], axis=0)
                    if other.size and np.abs(other).max() > 1e-12:
                        raise Violation("centre-map", f"{o}: op {isym}: WFs of site {ip} get weight on a site other than "
                                        f"the image {jp}")
                    blk = col[jp * nso:(jp + 1) * nso] * np.exp(-2j * np.pi * (k1 @ T))
                    Down, resid = orbref.own_matrix(o, Rc, pts, basis_list[ip], basis_list[jp])
                    if 1e-10 < resid < 1e-4:
                        raise Inconclusive("hybrid span nearly invariant under a site operation")
                    if resid > 1e-10:
                        if not hyb:
                            raise RuntimeError("harness: full shell not invariant")
                        sym_inv = False
                        sv = np.linalg.svd(blk, compute_uv=False)
                        if sv.max() > 1 + TOL:
                            raise Violation("contraction", f"{o}: op {isym}: block singular value {sv.max():.6f}")
                        continue
                    if sg.spinor:
                        b4 = blk.reshape(nscal, 2, nscal, 2)
                        S = np.einsum("ab,asbt->st", Down, b4) / nscal
                        e = maxdiff(blk, np.kron(Down, S))
                        if e <= TOL and maxdiff(S.conj().T @ S, np.eye(2)) > TOL:
                            fail("spinor-block", f"{o}: op {isym}: spin factor not unitary")
                    else:
                        e = maxdiff(blk, Down)
                    if e > TOL:
                        fail("dwann-block", f"{o}: op {isym} (det {np.linalg.det(Rc):+.0f}), site {ip}->{jp}: block "
                                        f"differs from exp(2 pi i gk.T) x own orbital matrix by {e:.2e}")
                if sym_inv:
                    e = maxdiff(M.conj().T @ M, np.eye(len(M)))
                    if e > TOL:
                        fail("dwann-unitary", f"{o}: op {isym}: |D^+ D - 1| = {e:.2e}")
                all_inv = all_inv and sym_inv
            for isym, M, M0 in held:
                if not np.array_equal(M, M0):
                    raise Violation("dwann-result-overwritten", f"{o}: the matrix returned for operation {isym} was changed by "
                                                                f"later calls on the same object (max change {maxdiff(M, M0):.2e})")
            lmax = max([orbref.L_OF.get(o, 0)] + [2 if o in ("sp3d2", "t2g", "eg") else 0])
            nontrivial = nontrivial or any_improper or lmax >= 2 or hyb
            labels += [f"orb={o}", f"sites={min(npnt, 4)}{'+' if npnt > 4 else ''}",
                       ("hybrid-site-invariant" if all_inv else "hybrid-site-not-invariant(weak-law)") if hyb else None,
                       "rotated-bases" if pj["rotate_basis"] else "fixed-basis", "custom-axes" if pj["axes"] else None]
    labels.append("improper-ops" if any_improper else "proper-group")
    return ok(nontrivial, *sorted(set(l for l in labels if l)))


SUBS = [
    Sub("shells", shells_case(), check_shells, quick=40, thorough=2000, budget_quick=45, budget_thorough=500),
    Sub("hybrids", hybrids_case(), check_hybrids, quick=56, thorough=3200, budget_quick=30, budget_thorough=300),
    Sub("stream", stream_case, check_stream, quick=16, thorough=200, budget_quick=45, budget_thorough=400, per_shard_min=1),
    Sub("dwann", dwann_case(), check_dwann, quick=32, thorough=1400, budget_quick=45, budget_thorough=500),
]
