"""C27  Berry-curvature sum rule and Chern quantisation  (DESIGN 4/C27)

Sub `sumrule` (part a) -- random Hermitian 3D real-space models (vlib.wbsys: 1-4 WFs, 11 lattice families including
left-handed/rotated ones, centres inside/outside the cell), generic k:
  * sum_n Omega_n^{internal}(k) = 0                       (evaluate_k 'berry_curvature_internal_terms')
  * AHC(kwargs_formula={'external_terms': False}) evaluated at that k with E_F above all bands = 0, below all = 0
  * documented formula  O = -e^2/hbar int[dk] Omega f :  for every E_F of a uniform grid that is not within
    2.5e-4 eV of a band, AHC(E_F) at that single k equals  -(e^2/hbar/Angstrom) / V_cell * sum_{E_n<E_F} Omega_n
    with the constants taken from scipy here and V_cell = |det lattice| computed here.
  Tolerance 1e-7 * scale (DESIGN 2.3: 1/dE^2 amplification), scale = max_n |Omega_n|, multiplied by (1e-3/gap)^2
  when the smallest band gap at k is below 1e-3; gaps below 1e-6 are not judged (inconclusive).

Sub `chern` (part b) -- gapped 2D models: the bundled Haldane builders (pythtb and tbmodels, parameters on both
sides of the topological transition), generalised Qi-Wu-Zhang models with winding (n1, n2) (|C| up to 4), these
blocks embedded in 3-band models, and random 2-3 band models; each with a random Hermitian perturbation, a random
unitary mixing of the orbitals, arbitrary orbital positions, arbitrary oblique in-plane lattice; imported through
pythtb (c = 1 Angstrom, right-handed) or hand-built as a System_R with periodic=(T,T,F), out-of-plane lattice vector
+-c z (c in [1,20] Angstrom), right- or left-handed in-plane basis.  The Fermi level is put in the middle of the
global (indirect) gap measured by the harness on its own 60x60 mesh; the gap must be >= GAP_MIN * (hopping scale),
otherwise a staggered mass is added by construction (random family) or the case is counted inconclusive.
Oracle: the Chern number of the occupied bands computed here with the Fukui-Hatsugai-Suzuki plaquette method
from the harness' own Bloch Hamiltonian (vlib/tbref.py) on the same 60x60 mesh.

Sign / unit derivation (documented convention of calculators.static.AHC:  O = -e^2/hbar int[dk] Omega f,
[dk] = d^3k/(2 pi)^3, sigma_xy = O_z; Berry connection A = i<u|grad_k u>, Omega = curl A):
  the model does not disperse along b3 = +-(2 pi/c) z, so  int d^3k Omega_z f = (2 pi/c) * int_BZ2D d^2k Omega_z
  = (2 pi/c) * 2 pi * C_z,  where C_z = (1/2pi) int Omega_z dkx dky is the Chern number of the occupied bands
  with the *Cartesian* orientation (x -> y counter-clockwise seen from +z).  Hence
        O_z = -(e^2/hbar) (2 pi)^-3 (2 pi/c)(2 pi C_z) = -(e^2/h) C_z / c      =>     O_z * c * h/e^2 = -C_z .
  FHS gives the Chern number C_red for plaquettes traversed k -> k+b1/N -> k+b1/N+b2/N -> k+b2/N, with the discrete
  Berry phase phi = -Im ln prod<u_i|u_{i+1}> (= oint A.dk for A = i<u|grad u>); that loop is counter-clockwise in the
  (kx, ky) plane iff (b1 x b2)_z > 0, so  C_z = sign((b1 x b2)_z) * C_red.
  (Checked on the Haldane model: delta=0.2, hop1=-1, hop2=0.15: phi=+pi/2 -> C_red=-1, AHC*c*h/e^2=+1; phi=-pi/2 -> C_red=+1,
  value -1; delta=2 -> 0, 0.)
Assertion: v = O_z * c * h/e^2 (c = |a3|, NK = 60x60x1):  |v - round(v)| <= 0.02  and  round(v) == -C_z; also the
value with E_F above all bands is 0 within 0.02, and the in-plane components O_x, O_y vanish within 0.02 (same units).
Non-trivial = C != 0.
"""
import os

import numpy as np
from hypothesis import strategies as st

from vlib.runner import Sub, Violation, Inconclusive, ok
from vlib.util import fl, rng_of, crandom, scratch_dir
from vlib import wbsys, tbref

PROPERTY_ID = "C27"
RULE = ("(a) random Hermitian 3D models x generic k: band-summed internal Berry curvature, AHC above/below all bands, "
        "AHC(E_F) vs occupied-band curvature sum; non-trivial = >=2 bands and max|Omega_n| > 1e-3 A^2.  "
        "(b) gapped 2D models (Haldane builders both phases, generalised QWZ with |C| up to 4, 3-band embeddings, "
        "random) x import route (pythtb / tbmodels / hand-built periodic=(T,T,F)) x lattice handedness x c in [1,20] A, "
        "NK=60x60x1: AHC_z*c*h/e^2 within 0.02 of the integer -C_z, C from own FHS; non-trivial = C != 0; "
        "(c) the package's Haldane model (delta, hop2, phi drawn, global gap >= 0.25, E_F mid-gap from own bands) with its "
        "magnetic point group {C3z} or {C3z, Mx*TimeReversal} on a symmetry-reduced grid NK 48..60, NKdiv 6..10: integer, "
        "equal to the full-grid run and to the analytic |C|; non-trivial = group contains the TR-combined mirror; "
        "distinct = distinct generated case")
ASSUMPTIONS = ["internal terms only (kwargs_formula external_terms=False), as in the statement",
               "Fermi level at the centre of a global gap >= GAP_MIN x hopping scale found on the harness' own 60x60 mesh",
               "discretisation error of a 60x60 mesh for gap/hopping-scale >= 0.13 is far below 0.02 (calibrated worst family: 1e-4 at ratio 0.133, 9e-4 at 0.10, 1.2e-2 at 0.067)",
               "constants e, h, hbar from scipy.constants; V_cell = |det(lattice)| computed by the harness"]
MIN_NONTRIVIAL = {"quick": 30, "thorough": 1500}

NMESH = 60
GAP_MIN = 0.13    # global gap / hopping scale.  Calibration of |v - round(v)| on a 60x60 mesh for the slowest-converging
#                   family (QWZ with winding (2,1): effective mesh 30): 1.2e-2 at ratio 0.067, 9e-4 at 0.10, 1e-4 at 0.133,
#                   1.4e-5 at 0.167, 2e-6 at 0.2;  Haldane: 1e-6 at 0.10, 1e-10 at 0.15.  So >= 200x margin to TOL_INT.
TOL_A = 1e-7
TOL_INT = 0.02

# ------------------------------------------------------------------------------------------------
# part (a)

_mp = dict(max_wann=4, max_npairs=6, rmax=2, keys=("Ham",))
sum_case = st.fixed_dictionaries(dict(
    model=st.one_of(wbsys.model_params_st(min_wann=2, **_mp), wbsys.model_params_st(min_wann=3, **_mp),
                    wbsys.model_params_st(min_wann=1, **_mp)),
    lefthanded=st.booleans(),      # third lattice vector reversed (det < 0): V_cell must stay |det|
    k=wbsys.kpoint_st(), nEf=st.integers(3, 24), rs=st.integers(0, 2 ** 32)))


def _constants():
    from scipy.constants import elementary_charge as e, hbar, h, angstrom
    return e, hbar, h, angstrom


def check_sumrule(case):
    import wannierberri as wb
    from wannierberri.calculators.static import AHC
    model = wbsys.make_model(case["model"])
    if case["lefthanded"]:
        model.lattice[2] *= -1
    system = wbsys.to_system(model)
    k = np.array(case["k"], dtype=float)
    nw = model.nw
    E_own = model.bands(k)
    off = 0.37 + 0.1 * (case["rs"] % 7)
    Efermi = np.linspace(E_own[0] - off, E_own[-1] + off + 0.113, case["nEf"])
    res = wb.evaluate_k(system, k=k, quantities=["berry_curvature_internal_terms"], return_single_as_dict=True,
                        calculators={"ahc": AHC(Efermi=Efermi, kwargs_formula={"external_terms": False})})
    Om = np.array(res["berry_curvature_internal_terms"], dtype=float)
    ahc = np.array(res["ahc"].data, dtype=float)
    if Om.shape != (nw, 3) or ahc.shape != (len(Efermi), 3):
        raise Violation("shape", f"curvature {Om.shape}, ahc {ahc.shape}")
    gaps = np.diff(E_own)
    mingap = float(gaps.min()) if nw > 1 else np.inf
    if mingap < 1e-6:
        raise Inconclusive("bands degenerate within 1e-6 at k")
    scale = float(np.max(np.abs(Om)))
    cond = max(1.0, (1e-3 / mingap) ** 2)
    a2 = float(np.max(np.sum(model.lattice ** 2, axis=1)))
    tol = TOL_A * scale * cond + 1e-12 * a2      # absolute floor for models without curvature (Omega ~ 1e-18)
    tot = Om.sum(axis=0)
    if np.max(np.abs(tot)) > tol:
        raise Violation("sum-rule", f"sum_n Omega_n = {tot.tolist()} with max|Omega_n| = {scale:.3e}, min gap {mingap:.2e}")
    e, hbar, h, angstrom = _constants()
    V = abs(np.linalg.det(model.lattice))
    fac = -(e ** 2 / hbar / angstrom) / V
    atol = abs(fac) * tol
    if np.max(np.abs(ahc[-1])) > atol:
        raise Violation("ahc-above-all-bands", f"AHC(E_F={Efermi[-1]:.3f} > E_max={E_own[-1]:.3f}) = {ahc[-1].tolist()} "
                                               f"(tolerance {atol:.2e})")
    if np.max(np.abs(ahc[0])) > 0:
        raise Violation("ahc-below-all-bands", f"AHC with no occupied band = {ahc[0].tolist()}")
    # the sum rule does not depend on how bands are grouped: scan that STARTS inside a (threshold-merged or Kramers)
    # group of two bands and ends above all bands
    if nw >= 2:
        ib = case["rs"] % (nw - 1)
        mid = 0.5 * (E_own[ib] + E_own[ib + 1])
        Ef2 = np.array([mid, E_own[-1] + off + 0.113])
        variants = {"thresh": dict(degen_thresh=1.5 * float(E_own[ib + 1] - E_own[ib]))}
        if nw % 2 == 0 and ib % 2 == 0:
            variants["kramers"] = dict(degen_Kramers=True)
        res2 = wb.evaluate_k(system, k=k, return_single_as_dict=True, calculators={
            name: AHC(Efermi=Ef2, kwargs_formula={"external_terms": False}, **kw) for name, kw in variants.items()})
        for name in variants:
            top = np.array(res2[name].data, dtype=float)[-1]
            if np.max(np.abs(top)) > atol:
                raise Violation("ahc-above-all-bands-grouped", f"{name}: AHC above all bands = {top.tolist()} when the scan "
                                                               f"starts inside the group of bands {ib},{ib + 1} (tolerance {atol:.2e})")
    njudged = 0
    for ief, Ef in enumerate(Efermi):
        if np.min(np.abs(E_own - Ef)) < 2.5e-4:
            continue
        want = fac * Om[E_own < Ef].sum(axis=0)
        if np.max(np.abs(ahc[ief] - want)) > atol + 1e-9 * np.max(np.abs(want)):
            raise Violation("ahc-vs-documented-formula",
                            f"E_F={Ef:.4f} ({int(np.sum(E_own < Ef))} occupied): AHC={ahc[ief].tolist()} but "
                            f"-(e^2/hbar/A)/V * sum_occ Omega = {want.tolist()} (V={V:.4f}, det={np.linalg.det(model.lattice):.4f})")
        njudged += 1
    nt = nw >= 2 and scale > 1e-3
    lefthanded = np.linalg.det(model.lattice) < 0
    return ok(nt, f"nw={nw}", "curvature>1e-3" if scale > 1e-3 else "curvature~0",
              "near-degenerate" if mingap < 1e-3 else None, "left-handed" if lefthanded else "right-handed",
              case["model"]["lat"]["kind"], f"Ef-judged>={min(njudged // 4 * 4, 12)}")


# ------------------------------------------------------------------------------------------------
# part (b): model families (all return a 2D tbref.HopTable in an orbital basis of n functions)

S0, SX, SY, SZ = (np.array(m, dtype=complex) for m in
                  ([[1, 0], [0, 1]], [[0, 1], [1, 0]], [[0, -1j], [1j, 0]], [[1, 0], [0, -1]]))


def _embed(B, n):
    M = np.zeros((n, n), dtype=complex)
    M[:2, :2] = B
    return M


def qwz_table(n, n1, n2, u, A, B, e3):
    """H = A sin(n1 k1) sx + A sin(n2 k2) sy + (u + B cos(n1 k1) + B cos(n2 k2)) sz  (+ third level e3)"""
    t = tbref.HopTable(n, 2)
    t.add_block([n1, 0], 0, 0, _embed(A * SX / 2j + B * SZ / 2, n))
    t.add_block([0, n2], 0, 0, _embed(A * SY / 2j + B * SZ / 2, n))
    on = _embed(u * SZ, n)
    if n == 3:
        on[2, 2] = e3
    t.add_onsite_block(0, on)
    return t


def haldane_table(n, delta, hop1, hop2, phi, e3):
    t = tbref.HopTable(n, 2)
    t2 = hop2 * np.exp(1j * phi)
    for (a, i, j, R) in [(hop1, 0, 1, [0, 0]), (hop1, 1, 0, [1, 0]), (hop1, 1, 0, [0, 1]),
                         (t2, 0, 0, [1, 0]), (t2, 1, 1, [1, -1]), (t2, 1, 1, [0, 1]),
                         (np.conj(t2), 1, 1, [1, 0]), (np.conj(t2), 0, 0, [1, -1]), (np.conj(t2), 0, 0, [0, 1])]:
        t.add_block(R, i, j, [[a]])
    on = np.zeros((n, n), dtype=complex)
    on[0, 0], on[1, 1] = -delta, delta
    if n == 3:
        on[2, 2] = e3
    t.add_onsite_block(0, on)
    return t


def _random_unitary(rng, n):
    Q, R = np.linalg.qr(crandom(rng, (n, n)))
    return Q * (np.diag(R) / np.abs(np.diag(R)))[None, :]


def perturb(table, rng, strength, npert, mix):
    """add `npert` random Hermitian hopping terms (|R_i| <= 1), each a matrix of spectral norm strength/(2 npert)
    (so the whole perturbation, with the Hermitian partners, has norm <= strength at every k), and rotate the
    orbital basis by a random unitary"""
    n = table.n
    for _ in range(npert):
        R = [int(rng.integers(-1, 2)), int(rng.integers(-1, 2))]
        M = crandom(rng, (n, n))
        M = M * (strength / (2 * npert) / np.linalg.norm(M, 2))
        if not any(R):
            table.add_onsite_block(0, 0.5 * (M + M.conj().T))
        else:
            table.add_block(R, 0, 0, M)
    if mix:
        U = _random_unitary(rng, n)
        for R in list(table.T):
            table.T[R] = U.conj().T @ table.T[R] @ U
    return table


def hopping_scale(table):
    """sum over R != 0 of the spectral norm of T(R) times max|R_i| (an upper bound for |dH/dk_i| / 2 pi), and >= 1e-3"""
    s = 0.0
    for R, M in table.T.items():
        if any(R):
            s += np.linalg.norm(M, 2) * max(abs(x) for x in R)
    return max(s, 1e-3)


def best_gap(table, nmesh=NMESH, prefer=0, min_gap=None):
    """global (indirect) gaps between band nocc-1 and nocc on the mesh.  Returns (nocc, gap, E_F, Emin, Emax) for
    the `prefer`-th (cyclically) of the gaps that are >= min_gap, or for the widest gap when none qualifies /
    min_gap is None."""
    ks = np.arange(nmesh) / nmesh
    kk = np.array([[a, b] for a in ks for b in ks])
    H = table.Hk_mesh(kk, convention=2)
    E = np.linalg.eigvalsh(0.5 * (H + np.conj(np.swapaxes(H, 1, 2))))
    cands = []
    for nocc in range(1, table.n):
        top, bot = E[:, nocc - 1].max(), E[:, nocc].min()
        cands.append((nocc, float(bot - top), float(0.5 * (top + bot))))
    if min_gap == "smallest-open":
        pos = [c for c in cands if c[1] > 0]
        best = min(pos, key=lambda c: c[1]) if pos else max(cands, key=lambda c: c[1])
    else:
        good = [c for c in cands if min_gap is not None and c[1] >= min_gap]
        best = good[prefer % len(good)] if good else max(cands, key=lambda c: c[1])
    return best + (float(E.min()), float(E.max()))


@st.composite
def chern_case(draw):
    family = draw(st.sampled_from(["haldane_tbm", "haldane_ptb", "qwz", "qwz", "haldane", "random"]))
    d = dict(family=family, rs=draw(st.integers(0, 2 ** 32)))
    if family in ("haldane_tbm", "haldane_ptb", "haldane"):
        d["hop1"] = draw(st.sampled_from([-1.0, 1.0])) * draw(fl(0.5, 2.0))
        d["r2"] = draw(st.sampled_from([-1.0, 1.0])) * draw(fl(0.12, 0.3))         # hop2 / |hop1|
        d["phase"] = draw(st.sampled_from(["topological", "topological", "topological", "trivial+", "trivial-"]))
        d["phi"] = draw(st.sampled_from([-1.0, 1.0])) * draw(fl(0.78, 2.36))       # |sin phi| >= 0.70
        d["x"] = draw(fl(-0.3, 0.3)) if d["phase"] == "topological" else draw(fl(0.35, 2.0))
    if family == "qwz":
        d["n1"], d["n2"] = draw(st.sampled_from([1, 1, 2, -1])), draw(st.sampled_from([1, 1, 2, -1, -2]))
        d["u"] = draw(st.sampled_from([-1.0, 1.0])) * draw(st.one_of(fl(0.6, 1.4), fl(0.6, 1.4), fl(2.6, 4.0)))   # |u|<2B topological
        d["A"] = draw(fl(0.6, 1.5))
    if family in ("qwz", "haldane", "random"):
        d["n"] = draw(st.integers(2, 3))
        d["e3"] = draw(st.sampled_from([-1.0, 1.0])) * draw(fl(4.0, 8.0))
        d["eps"] = draw(st.sampled_from([0.0, 0.1, 0.2]))   # perturbation norm / unperturbed gap
        d["npert"] = draw(st.integers(0, 4))
        d["mix"] = draw(st.booleans())
        d["route"] = draw(st.sampled_from(["handbuilt", "handbuilt", "pythtb"]))
        d["lat"] = dict(a=draw(fl(0.7, 3.0)), b=draw(fl(0.7, 3.0)), c=1.0, o=[draw(fl(-1, 1)), 0.0, 0.0],
                        ang=draw(st.one_of(st.none(), fl(0, 6.25))))
        d["pos"] = [[draw(fl(-1.5, 1.5)), draw(fl(-1.5, 1.5))] for _ in range(d["n"])]
        d["cz"] = draw(fl(1.0, 20.0))
        d["lefthanded"] = draw(st.booleans())
        d["a3neg"] = draw(st.booleans())
    if family == "random":
        d["nhop"] = draw(st.integers(2, 5))
    d["gapsel"] = draw(st.integers(0, 1))      # which of the sufficiently wide gaps hosts the Fermi level
    return d


def build_chern_model(case):
    """-> (system, own 2D HopTable, lattice 3x3, info)"""
    from wannierberri.system.system_R import System_R
    fam = case["family"]
    rng = rng_of(case["rs"])
    info = {}
    if fam in ("haldane_tbm", "haldane_ptb", "haldane"):
        hop1 = case["hop1"]
        hop2 = case["r2"] * abs(hop1)
        phi = case["phi"]
        mc = 3 * np.sqrt(3) * hop2 * np.sin(phi)
        if case["phase"] == "topological":
            delta = case["x"] * mc
        else:
            delta = (1 if case["phase"] == "trivial+" else -1) * (abs(mc) + case["x"] * abs(hop1))
        info["haldane"] = dict(delta=float(delta), hop1=hop1, hop2=float(hop2), phi=phi)
    if fam in ("haldane_tbm", "haldane_ptb"):
        import wannierberri.models as wbm
        if fam == "haldane_tbm":
            model = wbm.Haldane_tbm(delta=delta, hop1=hop1, hop2=hop2, phi=phi)
            system = System_R.from_tbmodels(model)
            table = tbref.table_from_tbmodels(model)
        else:
            model = wbm.Haldane_ptb(delta=delta, hop1=hop1, hop2=hop2, phi=phi)
            # the builder's handling of `delta` is the business of C32 (defect D8); here the on-site term is set
            # explicitly so that this check does not depend on it
            model.set_onsite([-delta, delta])
            system = System_R.from_pythtb(model)
            table = tbref.table_from_pythtb(model)
        return system, table, np.array(system.real_lattice), info
    n = case["n"]
    if fam == "qwz":
        table = qwz_table(n, case["n1"], case["n2"], case["u"], case["A"], 1.0, case["e3"])
    elif fam == "haldane":
        h = info["haldane"]
        table = haldane_table(n, h["delta"], h["hop1"], h["hop2"], h["phi"], case["e3"])
    else:
        table = tbref.HopTable(n, 2)
        for _ in range(case["nhop"]):
            R = [int(rng.integers(-1, 2)), int(rng.integers(-1, 2))]
            if any(R):
                table.add_block(R, 0, 0, crandom(rng, (n, n)) * 0.7)
        M = crandom(rng, (n, n))
        table.add_onsite_block(0, 0.5 * (M + M.conj().T))
    table.pos = np.array(case["pos"], dtype=float)
    scale0 = hopping_scale(table)
    gap0 = max(best_gap(table, 24, min_gap="smallest-open")[1], 0.0) if fam != "random" else scale0
    perturb(table, rng, case["eps"] * gap0, case["npert"], case["mix"])
    if fam == "random":
        # staggered mass added by construction until the global gap is wide enough (DESIGN C27)
        m = 0.0
        stag = np.diag(np.linspace(-1.0, 1.0, n)).astype(complex)
        for _ in range(40):
            nocc, gap, Ef, _, _ = best_gap(table, 24)
            if gap >= 2.0 * GAP_MIN * hopping_scale(table):
                break
            table.add_onsite_block(0, 0.25 * scale0 * stag)
            m += 0.25
        info["mass_steps"] = m
    L2 = tbref.lattice_nd(case["lat"], 2)
    if case["route"] == "pythtb":
        import pythtb
        lattice = pythtb.Lattice(lat_vecs=L2, orb_vecs=table.pos, periodic_dirs=[0, 1])
        model = pythtb.TBModel(lattice)
        on = table.T.get((0, 0), np.zeros((n, n)))
        model.set_onsite([float(on[i, i].real) for i in range(n)])
        done = set()
        for R in sorted(table.T):
            for i in range(n):
                for j in range(n):
                    key, ckey = (i, j, R), (j, i, tuple(-x for x in R))
                    if (i == j and not any(R)) or ckey in done or table.T[R][i, j] == 0:
                        continue
                    model.set_hop(complex(table.T[R][i, j]), i, j, list(R))
                    done.add(key)
        system = System_R.from_pythtb(model)
        L = np.eye(3)
        L[:2, :2] = L2
    else:
        L = np.zeros((3, 3))
        L[:2, :2] = L2
        if case["lefthanded"]:
            L[[0, 1]] = L[[1, 0]]
        L[2, 2] = -case["cz"] if case["a3neg"] else case["cz"]
        iR, M = table.arrays()
        iR3 = np.hstack([iR, np.zeros((len(iR), 1), dtype=int)])
        wcc = np.hstack([table.pos, np.zeros((n, 1))])
        system = wbsys.to_system(wbsys.Model(L, wcc, iR3, {"Ham": M}), periodic=(True, True, False))
    return system, table, L, info


def run_ahc(system, Efermi, niter=0):
    import wannierberri as wb
    from wannierberri.calculators.static import AHC
    grid = wb.Grid(system, NK=[NMESH, NMESH, 1])
    with scratch_dir() as d:
        res = wb.run(system, grid, calculators={"ahc": AHC(Efermi=np.array(Efermi), kwargs_formula={"external_terms": False})},
                     adpt_num_iter=niter, parallel=False, use_irred_kpt=False, symmetrize=False, restart=False,
                     fout_name=os.path.join(d, "c27"), file_Klist_path=os.path.join(d, "klist"),
                     print_progress_step_time=1e9)
        data = np.array(res.results["ahc"].data, dtype=float)
    return data, [int(x) for x in grid.dense]


def check_chern(case):
    system, table, L, info = build_chern_model(case)
    if not table.is_hermitian(1e-10):
        raise RuntimeError("own table not Hermitian")
    scale = hopping_scale(table)
    nocc, gap, Ef, Emin, Emax = best_gap(table, prefer=case["gapsel"], min_gap=GAP_MIN * scale)
    if gap < GAP_MIN * scale:
        raise Inconclusive("global gap below GAP_MIN x hopping scale")
    C_red, direct, maxphase = tbref.fhs_chern(table, NMESH, nocc)
    if maxphase > 0.5 * np.pi:      # FHS admissibility: plaquette phases must stay well inside (-pi, pi)
        C_red, direct, maxphase = tbref.fhs_chern(table, 2 * NMESH, nocc)
        if maxphase > 0.5 * np.pi:
            raise Inconclusive("FHS plaquette phases too large even on a 120x120 mesh")
    if abs(C_red - round(C_red)) > 1e-6:
        raise RuntimeError("FHS sum is not an integer (harness bug)")
    B = 2 * np.pi * np.linalg.inv(L).T
    orient = np.sign(np.cross(B[0], B[1])[2])
    Cz = int(round(C_red)) * int(orient)
    # every third case refines the grid twice (no symmetry): refinement must not spoil the quantisation
    ahc, dense = run_ahc(system, [Ef, Emax + 1.0 + 0.5 * (Emax - Ef)], niter=2 if case["rs"] % 3 == 0 else 0)
    if min(dense[:2]) < NMESH - 8:
        raise RuntimeError(f"grid became {dense}")
    e, hbar, h, angstrom = _constants()
    c = abs(L[2, 2])
    v = ahc * c * angstrom * h / e ** 2          # rows: E_F in gap, E_F above all bands; columns x, y, z
    detail = (f"family={case['family']} route={case.get('route', 'builder')} nocc={nocc}/{table.n} gap={gap:.3f} "
              f"(scale {scale:.2f}) c={c:.4f} det(L)={np.linalg.det(L):.4f} C_red={C_red:.6f} orientation={int(orient)} "
              f"grid={dense}: AHC*c*h/e^2 = {v[0].tolist()} (in gap), {v[1].tolist()} (above all bands) {info}")
    vz = float(v[0, 2])
    if abs(vz - round(vz)) > TOL_INT:
        raise Violation("not-quantised", detail)
    if int(round(vz)) != -Cz:
        raise Violation("wrong-integer", f"expected {-Cz}; " + detail)
    if np.max(np.abs(v[1])) > TOL_INT:
        raise Violation("ahc-above-all-bands", detail)
    if np.max(np.abs(v[0, :2])) > TOL_INT:
        raise Violation("in-plane-component", detail)
    return ok(Cz != 0, f"C={Cz}", case["family"], f"route={case.get('route', 'builder')}", f"nocc={nocc}/{table.n}",
              ("left-handed" if np.linalg.det(L) < 0 else "right-handed"),
              "a3=-z" if L[2, 2] < 0 else None, "c!=1" if abs(c - 1) > 1e-9 else "c=1",
              f"dev<{'1e-6' if abs(vz - round(vz)) < 1e-6 else '1e-4' if abs(vz - round(vz)) < 1e-4 else '2e-3' if abs(vz - round(vz)) < 2e-3 else '2e-2'}",
              info.get("haldane") and case.get("phase"))


# ------------------------------------------------------------------------------------------------
# part (c): the package's own Haldane model evaluated on a symmetry-reduced grid with its magnetic point group
# (three-fold axis; vertical mirror combined with time reversal - the mirror alone reverses the flux)

haldane_sym_case = st.fixed_dictionaries(dict(
    delta=st.one_of(fl(-0.5, 0.5, 3), fl(-1.5, 1.5, 3)), hop2=fl(0.1, 0.3, 3), phi=st.sampled_from([np.pi / 2, np.pi / 3, -np.pi / 2, 2.1, 0.9]),
    gens=st.sampled_from([["C3z"], ["C3z", "Mx*TimeReversal"], ["C3z", "Mx*TimeReversal"]]),
    grid=st.sampled_from([[48, 8], [60, 6], [60, 10], [48, 6], [54, 6]])))      # NK, NKFFT  ->  NKdiv = 6..10 (>= 3)


def check_haldane_sym(case):
    import wannierberri as wb
    from wannierberri import models
    from wannierberri.system import System_R
    from wannierberri.calculators.static import AHC
    delta, t2, phi = float(case["delta"]), float(case["hop2"]), float(case["phi"])
    m = 3 * np.sqrt(3) * t2 * np.sin(phi)
    Cexp = 0 if abs(delta) > abs(m) else 1
    # Fermi level: middle of the GLOBAL gap of the harness' own band structure (for cos(phi) != 0 the second-neighbour
    # hopping shifts both bands, so E=0 need not lie in the gap)
    own = wbsys.model_of_system(System_R.from_pythtb(models.Haldane_ptb(delta=delta, hop1=-1.0, hop2=t2, phi=phi)))
    mesh = [(i / 36, j / 36, 0.0) for i in range(36) for j in range(36)] + [(1 / 3, 1 / 3, 0.0), (2 / 3, 2 / 3, 0.0), (1 / 3, 2 / 3, 0.0), (2 / 3, 1 / 3, 0.0)]
    Eb = np.array([own.bands(np.array(k)) for k in mesh])
    gap = float(Eb[:, 1].min() - Eb[:, 0].max())
    if gap < 0.25:
        raise Inconclusive("global Haldane gap below 0.25 |hop1|")
    Ef = 0.5 * float(Eb[:, 1].min() + Eb[:, 0].max())
    e, hbar, h, angstrom = _constants()
    out = {}
    for tag, gens in (("sym", case["gens"]), ("full", None)):
        system = System_R.from_pythtb(models.Haldane_ptb(delta=delta, hop1=-1.0, hop2=t2, phi=phi))
        if gens:
            system.set_pointgroup(list(gens))
        NK, FFT = case["grid"]
        grid = wb.Grid(system, NK=[NK, NK, 1], NKFFT=[FFT, FFT, 1])
        with scratch_dir() as d:
            res = wb.run(system, grid, calculators={"ahc": AHC(Efermi=np.array([Ef, 50.0]), kwargs_formula={"external_terms": False})},
                         adpt_num_iter=0, parallel=False, use_irred_kpt=bool(gens), symmetrize=bool(gens), restart=False,
                         fout_name=os.path.join(d, "c27h"), file_Klist_path=os.path.join(d, "klist"), print_progress_step_time=1e9)
        c = abs(system.real_lattice[2, 2])
        out[tag] = np.array(res.results["ahc"].data, dtype=float) * c * angstrom * h / e ** 2
    detail = (f"Haldane_ptb(delta={delta}, hop1=-1, hop2={t2}, phi={phi:.4f}) global gap {gap:.3f}, E_F={Ef:.4f}, point group {case['gens']}, grid "
              f"{case['grid']}: AHC*c*h/e^2 = {out['sym'][0].tolist()} on the symmetry-reduced grid, {out['full'][0].tolist()} on the full grid")
    vz = float(out["sym"][0, 2])
    if abs(vz - round(vz)) > TOL_INT:
        raise Violation("not-quantised", detail)
    if abs(int(round(vz))) != Cexp or int(round(vz)) != int(round(float(out["full"][0, 2]))):
        raise Violation("wrong-integer", f"expected |C|={Cexp}; " + detail)
    if np.max(np.abs(out["sym"][1])) > TOL_INT:
        raise Violation("ahc-above-all-bands", detail)
    return ok(len(case["gens"]) == 2, f"|C|={Cexp}", "group=" + "+".join(case["gens"]), f"grid={case['grid']}")


SUBS = [
    Sub("haldane_sym", haldane_sym_case, check_haldane_sym, quick=12, thorough=64, budget_quick=120.0, budget_thorough=600.0, per_shard_min=1),
    Sub("sumrule", sum_case, check_sumrule, quick=200, thorough=6400, budget_quick=150.0, budget_thorough=900.0),
    Sub("chern", chern_case(), check_chern, quick=24, thorough=640, budget_quick=200.0, budget_thorough=900.0),
]
