"""C08  Declared time-reversal and inversion parities match computed values (DESIGN 4/C08)

Models whose symmetry is manifest by construction (no symmetriser involved):
 * time reversal: every real-space matrix of a T-even operator (Ham, AA, BB, FF, GG) has the form
   A(R) (x) 1 + i sum_a B_a(R) (x) sigma_a with A, B_a real, every T-odd one (CC, OO, SS, SA, SHA, SR, SH, SHR) the
   form i A(R) (x) 1 + sum_a B_a(R) (x) sigma_a (Theta = i sigma_y K on real orbitals); the spinless case is B = 0;
 * inversion: centres t_i with 2 t_i in the lattice, orbital parities p_i = +-1 and
   X_ij(-R - 2 t_j + 2 t_i) = pi_X p_i p_j X_ij(R),  pi_X = (-1)^(number of position operators in X).
Oracle: for every calculator C reachable by reflection (static, tabulate, dynamic, SDCT, with internal-only /
external-only formula variants), C(data at -k) == C(data at k).transform(g), g = time reversal resp. inversion -
exactly the transformation run() applies when it symmetrises, built from the *declared* transformTR /
transformInv of the formula.  A calculator that cannot be constructed or lacks a matrix is skipped and counted.
"""
import inspect
import numpy as np
from hypothesis import strategies as st

from vlib.runner import Sub, Violation, Inconclusive, ok
from vlib.util import rng_of, fl
from vlib import wbsys

PROPERTY_ID = "C08"
RULE = ("model kinds {TR spinless, TR spinful, inversion spinless, inversion spinful}, 2-3 orbitals, triclinic lattices, "
        "matrices Ham, AA, BB, CC, FF (+SS, SA, SHA, SR, SH, SHR when spinful), generic k; every calculator class found by "
        "reflection x {all terms, internal only, external only}; non-trivial case = at least 10 calculators with a non-zero "
        "value whose untransformed value at k differs from the value at -k (so a wrong parity would be visible); labels "
        "count non-vacuous evaluations per calculator")
ASSUMPTIONS = ["T parity of the operators: Ham, AA, BB, FF, GG even; CC, OO, SS and all spin-current matrices odd; inversion "
               "parity (-1)^(number of position operators)", "tolerance 1e-7 * scale * max(1,(1e-3/gap)^2)",
               "exceptions of a calculator for a model (missing matrix, unsupported option) are counted as skipped, never as "
               "parity violations"]
MIN_NONTRIVIAL = {"quick": 4, "thorough": 60}

T_EVEN = ("Ham", "AA", "BB", "FF")
T_ODD = ("CC", "SS", "SA", "SHA", "SR", "SH", "SHR")
N_POS = {"Ham": 0, "AA": 1, "BB": 1, "CC": 2, "FF": 2, "SS": 0, "SA": 1, "SHA": 1, "SR": 1, "SH": 0, "SHR": 1}
SPIN_KEYS = ("SS", "SA", "SHA", "SR", "SH", "SHR")
PAULI = [np.array([[0, 1], [1, 0]], complex), np.array([[0, -1j], [1j, 0]]), np.array([[1, 0], [0, -1]], complex)]

KINDS = ["tr_spinless", "tr_spinful", "inv_spinless", "inv_spinful"]


def case_st(kind):
  return st.fixed_dictionaries(dict(
    kind=st.just(kind),
    lat=wbsys.lattice_st(kinds=["triclinic", "generic"]),
    norb=st.integers(2, 3),
    rs=st.integers(0, 2 ** 32),
    k=st.lists(fl(0.03, 0.47), min_size=3, max_size=3),
    half=st.lists(st.lists(st.sampled_from([0.0, 0.5]), min_size=3, max_size=3), min_size=3, max_size=3),
    par=st.lists(st.sampled_from([1, -1]), min_size=3, max_size=3),
    cgen=st.lists(st.lists(fl(0.0, 0.9), min_size=3, max_size=3), min_size=3, max_size=3),
  ))


def hermitize_all(mats, iRvec):
    idx = {tuple(int(x) for x in R): i for i, R in enumerate(iRvec)}
    for key in ("Ham", "AA", "SS", "CC"):
        if key in mats:
            mats[key] = wbsys.hermitize(mats[key], iRvec)
    if "FF" in mats:  # FF_ab(-R) = FF_ba(R)^dagger
        F = mats["FF"]
        F2 = np.zeros_like(F)
        for R, i in idx.items():
            j = idx[tuple(-x for x in R)]
            F2[i] = 0.5 * (F[i] + np.conj(np.transpose(F[j], (1, 0, 3, 2))))
        mats["FF"] = F2
    return mats


def build_tr(case, spinful):
    rng = rng_of(case["rs"])
    L = wbsys.lattice_matrix(case["lat"])
    n = case["norb"]
    Rs = [R for R in np.ndindex(3, 3, 3)]
    iRvec = np.array(Rs) - 1
    keys = list(T_EVEN) + ["CC"] + (list(SPIN_KEYS) if spinful else [])
    cR = np.linalg.norm(iRvec @ L, axis=1)
    damp = np.exp(-1.2 * cR)
    mats = {}
    for key in keys:
        shape = (len(iRvec), n, n) + (3,) * wbsys.CART.get(key, 1 if key in ("SS", "SH") else 2)
        even = key in T_EVEN
        A = rng.uniform(-1, 1, shape) * damp.reshape((-1,) + (1,) * (len(shape) - 1))
        if not spinful:
            mats[key] = (A if even else 1j * A).astype(complex)
        else:
            X = np.zeros((len(iRvec), 2 * n, 2 * n) + shape[3:], dtype=complex)
            one = np.eye(2)
            X += np.einsum("rij...,st->risjt...", (A if even else 1j * A), one).reshape(X.shape)
            for a in range(3):
                B = rng.uniform(-1, 1, shape) * damp.reshape((-1,) + (1,) * (len(shape) - 1)) * 0.5
                X += np.einsum("rij...,st->risjt...", (1j * B if even else B), PAULI[a]).reshape(X.shape)
            mats[key] = X
    mats = hermitize_all(mats, iRvec)
    cen = np.array(case["cgen"][:n], dtype=float)
    if spinful:
        cen = np.repeat(cen, 2, axis=0)
    nw = cen.shape[0]
    i0 = [tuple(r) for r in iRvec].index((0, 0, 0))
    mats["AA"][i0, np.arange(nw), np.arange(nw)] = 0
    return wbsys.Model(L, cen, iRvec, mats)


def build_inv(case, spinful):
    rng = rng_of(case["rs"])
    L = wbsys.lattice_matrix(case["lat"])
    n = case["norb"]
    t = np.array(case["half"][:n], dtype=float)
    p = np.array(case["par"][:n], dtype=int)
    if spinful:
        t = np.repeat(t, 2, axis=0)
        p = np.repeat(p, 2)
    nw = len(p)
    box = 2
    Rs = [tuple(int(x) - box for x in R) for R in np.ndindex(2 * box + 1, 2 * box + 1, 2 * box + 1)]
    idx = {R: i for i, R in enumerate(Rs)}
    iRvec = np.array(Rs)
    keys = ["Ham", "AA", "BB", "CC", "FF"] + (list(SPIN_KEYS) if spinful else [])
    cR = np.linalg.norm(iRvec @ L, axis=1)
    damp = np.exp(-1.5 * cR)
    d2 = np.rint(2 * (t[None, :, :] - t[:, None, :])).astype(int)  # d2[i,j] = 2(t_j - t_i)
    mats = {}
    for key in keys:
        nc = wbsys.CART.get(key, 1 if key in ("SS", "SH") else 2)
        X = wbsys.crandom(rng, (len(Rs), nw, nw) + (3,) * nc) * damp.reshape((-1,) + (1,) * (2 + nc))
        mats[key] = X
    mats = hermitize_all(mats, iRvec)
    for key in keys:
        X = mats[key]
        pi = (-1) ** N_POS[key]
        Y = np.zeros_like(X)
        for R, iR in idx.items():
            for i in range(nw):
                for j in range(nw):
                    Rp = tuple(-np.array(R) - d2[i, j])
                    if Rp in idx:
                        Y[iR, i, j] = 0.5 * (X[iR, i, j] + pi * p[i] * p[j] * X[idx[Rp], i, j])
        mats[key] = Y
    mats = hermitize_all(mats, iRvec)  # commutes with the inversion projection; re-applied against rounding
    i0 = Rs.index((0, 0, 0))
    mats["AA"][i0, np.arange(nw), np.arange(nw)] = 0
    return wbsys.Model(L, t, iRvec, mats)


def classes(mod, base):
    return sorted([(n, c) for n, c in inspect.getmembers(mod, inspect.isclass)
                   if issubclass(c, base) and c is not base and c.__module__ == mod.__name__ and not n.startswith("_")],
                  key=lambda x: x[0])


def registry(Ef, om):
    """-> list of (name, constructor thunk)"""
    from wannierberri.calculators import static, tabulate, dynamic, sdct
    out = []
    # formula options that switch to other real-space matrices (CCab_antisym: H-term from CC instead of CCab;
    # OO_uIu: curvature-like term from OO/FF instead of rot AA) reach formulas that are skipped otherwise
    variants = [("", None), ("|int", {"external_terms": False}), ("|ext", {"internal_terms": False}),
                ("|CCab_antisym", {"CCab_antisym": True}), ("|OO_uIu", {"OO_uIu": True})]
    for n, c in classes(static, static.StaticCalculator):
        for tag, kf in variants:
            kw = dict(Efermi=Ef, use_factor=False)
            if kf:
                kw["kwargs_formula"] = kf
            out.append((f"static.{n}{tag}", (lambda c=c, kw=kw: c(**kw))))
    for n, c in classes(tabulate, tabulate.Tabulator):
        for tag, kf in variants:
            kw = {}
            if kf:
                kw["kwargs_formula"] = kf
            out.append((f"tab.{n}{tag}", (lambda c=c, kw=kw: c(**kw))))
    for n, c in classes(dynamic, dynamic.DynamicCalculator):
        kw = dict(Efermi=Ef[::8], omega=om, kBT=0.05)
        if n == "ShiftCurrent":
            kw["sc_eta"] = 0.1
        out.append((f"dyn.{n}", (lambda c=c, kw=kw: c(**kw))))
        if n == "SHC":
            out.append(("dyn.SHC|qiao", (lambda c=c, kw=kw: c(SHC_type="qiao", **kw))))
            # documented option: a single component sigma^{spin c}_{ab} (1-based indices) instead of the full tensor
            for abc in ((1, 2, 3), (3, 1, 2), (2, 2, 1)):
                tag = "".join(str(x) for x in abc)
                out.append((f"dyn.SHC|abc{tag}", (lambda c=c, kw=kw, abc=abc: c(shc_abc=abc, **kw))))
                out.append((f"dyn.SHC|qiao|abc{tag}", (lambda c=c, kw=kw, abc=abc: c(SHC_type="qiao", shc_abc=abc, **kw))))
    # the composite SDCT calculators are sums of these eight terms, which all declare the same transforms
    for n in sorted(x for x in dir(sdct) if x.startswith("SDCT_") and ("_sea_" in x or "_surf_" in x)):
        for tag, terms in (("|M1", dict(M1_terms=True, E2_terms=False, V_terms=False)),
                           ("|E2", dict(M1_terms=False, E2_terms=True, V_terms=False)),
                           ("|V", dict(M1_terms=False, E2_terms=False, V_terms=True)),
                           ("|S", dict(M1_terms=False, E2_terms=False, V_terms=False, S_terms=True))):
            out.append((f"sdct.{n}{tag}", (lambda n=n, terms=terms: getattr(sdct, n)(Efermi=Ef[::8], omega=om, kBT=0.05, **terms))))
    return out


def check(case):
    import wannierberri as wb
    from wannierberri.symmetry.point_symmetry import PointSymmetry
    from wannierberri.data_K import get_data_k_class_from_system
    kind = case["kind"]
    spinful = kind.endswith("spinful")
    if kind.startswith("tr"):
        model = build_tr(case, spinful)
        g = PointSymmetry(np.eye(3), TR=True)
    else:
        model = build_inv(case, spinful)
        g = PointSymmetry(-np.eye(3))
    system = wbsys.to_system(model, spinor=spinful)
    k = np.array(case["k"], dtype=float)
    E = model.bands(k)
    Em = model.bands(-k)
    if np.max(np.abs(E - Em)) > 1e-9 * (1 + np.max(np.abs(E))):
        raise RuntimeError("harness model is not symmetric: E(k) != E(-k)")
    gaps = np.diff(E)
    gaps = gaps[gaps > 1e-7]  # Kramers pairs (TR spinful + no inversion are NOT degenerate at generic k; inv_spinful+... not either)
    if len(gaps) and gaps.min() < 1e-4:
        raise Inconclusive("near-degenerate bands at k")
    gap = gaps.min() if len(gaps) else np.inf
    tol = 1e-7 * max(1.0, (1e-3 / gap) ** 2)
    Ef = np.linspace(E.min() - 0.3, E.max() + 0.3, 33)
    om = np.array([0.3, 0.9, 1.7])
    grid = wb.Grid(system, NKdiv=1, NKFFT=1, use_symmetry=False)
    cls = get_data_k_class_from_system(system)
    labels = []
    nonvac = 0
    found = []
    from vlib.runner import read_known
    known = read_known(PROPERTY_ID)
    for name, make in registry(Ef, om):
        try:
            c1, c2 = make(), make()
        except Exception:  # noqa  construction problems are not parity statements
            labels.append(f"skip-construct:{name.split('|')[0]}")
            continue
        try:
            a = c1(cls(system, grid=grid, dK=k.copy()))
            b = c2(cls(system, grid=grid, dK=-k))
        except Exception as e:  # noqa  missing matrix / unsupported variant: skipped (counted), see ASSUMPTIONS
            labels.append(f"skip-eval:{type(e).__name__}:{name}")
            continue
        if not hasattr(a, "data") or not hasattr(b, "data"):
            labels.append(f"void:{name}")
            continue
        at = a.transform(g)
        da, db, d0 = np.asarray(at.data), np.asarray(b.data), np.asarray(a.data)
        if not (np.all(np.isfinite(da)) and np.all(np.isfinite(db))):
            labels.append(f"skip-nonfinite:{name}")
            continue
        sc = max(np.max(np.abs(da)), np.max(np.abs(db))) if da.size else 0.0
        if sc < 1e-10:
            labels.append(f"vacuous:{name}")
            continue
        d = float(np.max(np.abs(da - db))) / sc
        if d > tol:
            found.append((f"{'TR' if kind.startswith('tr') else 'Inv'}:{name}",
                          f"{kind}: value at -k differs from declared transform of value at k by {d:.3e} (relative), "
                          f"naive difference {np.max(np.abs(d0 - db)) / sc:.3e}"))
            continue
        if float(np.max(np.abs(d0 - db))) / sc > 1e-6:
            nonvac += 1
            labels.append(f"odd-or-conj:{name}")
        else:
            labels.append(f"even:{name}")
    # every violating calculator of the case is examined; report an unlisted one first so that a listed finding
    # (KNOWN_FINDINGS.txt) never hides a different violation of the same property
    new = [f for f in found if f"parity:{f[0]}" not in known]
    if new:
        raise Violation(new[0][0], new[0][1] + (f" [also: {[f[0] for f in found if f is not new[0]]}]" if len(found) > 1 else ""))
    # listed findings are excluded from the verdict (counted, reported as KNOWN-FINDING by the runner) so that the
    # search continues behind them
    return ok(nonvac >= 10, kind, *labels, known=[f[0] for f in found])


# one sub per model kind (stratified: every kind is exercised in every run); they share the bucket namespace 'parity'
SUBS = [Sub(kind, case_st(kind), check, quick=2, thorough=48, budget_quick=100, budget_thorough=560, per_shard_min=1,
            group="parity") for kind in KINDS]
