"""C22  Finite-difference b-vectors satisfy the completeness relation (DESIGN 4/C22)

Code under test: BKVectors.from_kpoints(recip_lattice, mp_grid, kpoints_red)  (find_bk_vectors, k_to_shells,
get_shell_weights, find_G_and_neighbours) with its default tolerances.

Oracles (own, no wannierberri code):
 * b (Cartesian) recomputed as bk_grid . (B / N);  sum_b w_b b_i b_j = delta_ij, Frobenius error <= 1e-5 (the
   tolerance the code itself promises); cases that are complete to 1e-8 are labelled;
 * the set is closed under b -> -b, with equal weights, contains no duplicates and not the zero vector;
 * whole shells: every mesh vector (brute-force enumeration in a box that provably contains the ball of radius
   max|b|) whose length equals that of a chosen b-vector is chosen too, and vectors of equal length carry equal
   weights; vectors whose length differs from a chosen length by 1e-9..1e-6 (kmesh_tol = 1e-7) make the case a tie;
 * k + b = k_neighbour + G exactly in integer mesh coordinates for every (k, b); all k-points and all b present;
 * bk_cart, bk_red, kpt_grid attributes agree with the integer data.
 * RuntimeError("Could not find a complete set of bk vectors") : clean rejection (Reject) for generic / triclinic /
   monoclinic lattices or meshes whose step lengths differ by more than a factor 2; a Violation for the benign
   high-symmetry families (sc, fcc, bcc, tetragonal, orthorhombic, hexagonal, rhombohedral) with step-length ratio
   <= 2 (and cell-edge ratio <= 2) *when my own shell solver finds a complete stencil among the shells that the code
   itself enumerates*.

Genuine defects found with this check (fixes in scratch_reports/C22_parallel_shell.diff, C22_search_window.diff):
 * bucket no-bvectors-rhombohedral / -hexagonal: find_bk_vectors passes integer mesh coordinates to is_parallel_shell,
   which moreover treats "lies in the span of an earlier shell" as "parallel"; a first shell that spans R^3 but is not
   complete (every rhombohedral lattice with 75 < alpha < 105 deg, even on a uniform mesh) makes all later shells be
   skipped -> RuntimeError although two whole shells form a complete stencil;
 * bucket partial-shell: shells are built only from vectors inside the box |g_i| <= 2 N_i; mesh vectors of the same
   length outside the box are silently missing from a chosen shell (commensurate cell edges, e.g. tetragonal c/a = 3).
"""
import itertools
import os
import numpy as np
from hypothesis import strategies as st

from vlib.runner import Sub, Violation, Reject, Inconclusive, ok
from vlib.util import fl, reldiff, maxabs, rng_of, scratch_dir
from vlib import wbsys

PROPERTY_ID = "C22"
RULE = ("reciprocal lattice of a lattice from 11 families (+rotation; cell edges generic or, in 1/3 of the cases, "
        "commensurate values 0.75..3 that create accidental shell degeneracies), Monkhorst-Pack mesh in [1..6]^3 with "
        "<= 48 points (1/3 uniform n x n x n), k-points listed in a drawn permutation, exact or rounded to 6/8/10 "
        "decimals; object built by from_kpoints or (1/3) read back by from_nnkp from a file whose neighbour list is written in a "
        "drawn order; non-trivial = at least two shells chosen or a non-orthogonal lattice; distinctness by the full case")
ASSUMPTIONS = ["default tolerances of from_kpoints: kmesh_tol=1e-7, bk_complete_tol=1e-5, search_supercell=2; of from_nnkp: kmesh_tol=1e-5 (shell lengths closer than 1e-4 are a tie for the .nnkp route)",
               "k-points in reduced coordinates inside [0,1) as documented",
               "a shell = all mesh vectors of one length; lengths within 1e-9 relative are 'equal', lengths that differ "
               "by 1e-9..1e-6 are a tie (Inconclusive)",
               "RuntimeError 'Could not find a complete set' is a violation only for benign families with aspect "
               "ratios <= 2 for which an explicit least-squares shell search (own code) does find a complete stencil"]
MIN_NONTRIVIAL = {"quick": 200, "thorough": 3000}

BENIGN = ("sc", "fcc", "bcc", "tetragonal", "orthorhombic", "hexagonal", "hexagonal60", "rhombohedral")
ORTHOGONAL = ("sc", "tetragonal", "orthorhombic")
KMESH_TOL = 1e-7
COMPLETE_TOL = 1e-5
SAME = 1e-9


@st.composite
def case_st(draw):
    lat = draw(wbsys.lattice_st())
    if draw(st.integers(0, 2)) == 0:  # commensurate cell edges: accidental degeneracies between different directions
        for key in ("a", "b", "c"):
            lat[key] = draw(st.sampled_from([1.0, 3.0, 0.75, 2.0, 3.0, 1.5, 1.0, 2.5]))
        lat["commensurate"] = True
    shape = draw(st.sampled_from(["uniform", "any", "any", "layered"]))
    if shape == "layered":
        # layered sampling of a non-orthogonal cell: in-plane mesh N x N x 1 and an out-of-plane mesh step that is
        # r = 1.8 .. 4.5 times longer than the in-plane one, so that the shell search has to go far out in the plane
        # (up to the border of its search box) before the stencil is complete
        lat = draw(wbsys.lattice_st(kinds=["hexagonal", "hexagonal60", "monoclinic", "triclinic", "rhombohedral"]))
        n = draw(st.integers(1, 4))
        r = draw(fl(1.8, 4.5, digits=3))
        lat["a"] = lat["b"] = draw(fl(1.0, 3.0))
        lat["c"] = float(np.sqrt(3) * lat["a"] * n / (2 * r))
        lat["layered"] = True
        mp = [n, n, 1]
    elif shape == "uniform":
        n = draw(st.integers(1, 3))
        mp = [n, n, n]
    else:
        mp = draw(st.lists(st.integers(1, 6), min_size=3, max_size=3).filter(lambda m: m[0] * m[1] * m[2] <= 48))
    N = mp[0] * mp[1] * mp[2]
    perm = draw(st.one_of(st.permutations(list(range(N))), st.just(list(range(N)))))
    # k-points as read from a text file: rounded to a finite number of decimals (None = exact i/N)
    kdec = draw(st.sampled_from([None, 10, 8, 6, None]))
    # route: b-vectors constructed from the k-points, or read from a .nnkp file whose neighbour list (the set found by
    # the first route, as wannier90 would list it) is written in a drawn order - the format does not prescribe one
    route = draw(st.sampled_from(["kpoints", "kpoints", "nnkp"]))
    return dict(lat=lat, mp=mp, perm=list(perm), kdec=kdec, route=route, nbseed=draw(st.integers(0, 2 ** 16)))


def _shells(vec_int, vec_cart):
    """group vectors by length (own definition: relative SAME); returns list of index arrays sorted by length,
    and the smallest relative gap between consecutive distinct lengths"""
    ln = np.sqrt((vec_cart ** 2).sum(axis=1))
    order = np.argsort(ln, kind="stable")
    groups = [[order[0]]]
    for i in order[1:]:
        if ln[i] - ln[groups[-1][-1]] <= SAME * (1 + ln[i]):
            groups[-1].append(i)
        else:
            groups.append([i])
    return [np.array(g) for g in groups], ln


def _own_stencil(cart_shells, max_shells=24):
    """W90-like greedy search written independently: add shells (skipping those that do not enlarge the span of the
    shell matrices) until sum_s w_s sum_{b in s} b b^T = 1 is solvable; returns number of shells used or None"""
    target = np.eye(3).reshape(-1)
    mats = []
    for sh in cart_shells[:max_shells]:
        m = (sh.T @ sh).reshape(-1)
        trial = np.array(mats + [m])
        if np.linalg.matrix_rank(trial, tol=1e-9 * maxabs(trial)) < len(trial):
            continue
        mats.append(m)
        A = np.array(mats).T
        w, *_ = np.linalg.lstsq(A, target, rcond=None)
        if np.linalg.norm(A @ w - target) < 1e-9:
            return len(mats)
        if len(mats) == 6:
            break
    return None


def check(case):
    from wannierberri.w90files.bkvectors import BKVectors
    L = wbsys.lattice_matrix(case["lat"])
    kind = case["lat"]["kind"]
    B = 2 * np.pi * np.linalg.inv(L).T
    mp = np.array(case["mp"], dtype=int)
    N = int(np.prod(mp))
    perm = np.array(case["perm"], dtype=int)
    kint0 = np.array(list(itertools.product(range(mp[0]), range(mp[1]), range(mp[2]))), dtype=int)
    kint = kint0[perm]
    kpts = kint / mp[None, :]
    if case.get("kdec") is not None:
        kpts = np.round(kpts, case["kdec"])
    basis = B / mp[:, None]  # mesh step vectors (rows)
    steps = np.sqrt((basis ** 2).sum(axis=1))
    edges = np.sqrt((L ** 2).sum(axis=1))
    aspect = float(steps.max() / steps.min())
    labels = [f"lat={kind}", "uniform-mesh" if len(set(case["mp"])) == 1 else "anisotropic-mesh",
              "permuted" if np.any(perm != np.arange(N)) else "natural-order",
              "aspect<=2" if aspect <= 2 else "aspect>2", "commensurate-edges" if case["lat"].get("commensurate") else None,
              f"kpoints-decimals={case.get('kdec')}"]
    try:
        bk = BKVectors.from_kpoints(recip_lattice=B.copy(), mp_grid=mp.copy(), kpoints_red=kpts.copy())
    except RuntimeError as e:
        if "Could not find a complete set of bk vectors" not in str(e):
            raise
        # own enumeration of the shells inside the code's documented search range (+-2 N_i)
        rng = [range(-2 * int(n), 2 * int(n) + 1) for n in mp]
        g = np.array([v for v in itertools.product(*rng) if any(v)], dtype=int)
        gc = g @ basis
        groups, ln = _shells(g, gc)
        nsh = _own_stencil([gc[i] for i in groups])
        benign = kind in BENIGN and aspect <= 2.0 and edges.max() / edges.min() <= 2.0
        if benign and nsh is not None:
            raise Violation(f"no-bvectors-{kind}",
                            f"{kind} lattice, mesh {mp.tolist()} (step-length ratio {aspect:.2f}): RuntimeError although "
                            f"{nsh} whole shells inside the search range give a complete stencil")
        raise Reject(f"no complete set: {kind}{' (own solver: ' + str(nsh) + ' shells)' if nsh else ''}")

    if case.get("route") == "nnkp":
        bg0 = np.array(bk.bk_grid)
        # from_nnkp groups the listed vectors into shells with its own default kmesh_tol = 1e-5 (from_kpoints: 1e-7):
        # chosen shells whose lengths differ by less than ten times that are a threshold tie for the reader
        ln0 = np.sort(np.sqrt(((bg0 @ basis) ** 2).sum(axis=1)))
        dl = np.diff(ln0)
        if np.any((dl > 1e-9) & (dl < 1e-4)):
            raise Inconclusive("chosen shells closer in length than 10 x kmesh_tol of from_nnkp (tie)")
        order = rng_of(case["nbseed"]).permutation(len(bg0))
        file_b = bg0[order]
        index_of = {tuple(int(x) for x in k): i for i, k in enumerate(kint)}
        lines = ["begin real_lattice"] + [" ".join(repr(float(x)) for x in row) for row in L] + ["end real_lattice", "",
                 "begin kpoints", str(N)] + [" ".join(f"{x:.12f}" for x in k) for k in kint / mp[None, :]] + ["end kpoints", "",
                 "begin nnkpts", str(len(file_b))]
        for ik in range(N):
            for bvec in file_b:
                q = kint[ik] + bvec
                G = np.floor_divide(q, mp)
                lines.append(f"{ik + 1} {index_of[tuple(int(x) for x in (q - G * mp))] + 1} {int(G[0])} {int(G[1])} {int(G[2])}")
        lines += ["end nnkpts", ""]
        with scratch_dir() as d:
            fn = os.path.join(d, "w.nnkp")
            with open(fn, "w") as f:
                f.write("\n".join(lines))
            bk = BKVectors.from_nnkp(fn)
        if not np.array_equal(np.array(bk.bk_grid), file_b):
            raise Violation("nnkp-order", "b-vectors of an object read from .nnkp are not in the order of the file's neighbour list")
        labels.append("route=nnkp")
        labels.append("nnkp-order-mixes-shells" if np.any(np.diff(np.sqrt(((file_b @ basis) ** 2).sum(axis=1))) < -1e-9) else None)
    wk = np.array(bk.wk, dtype=float)
    bg = np.array(bk.bk_grid)
    NNB = len(wk)
    if bg.shape != (NNB, 3) or NNB == 0 or not np.issubdtype(bg.dtype, np.integer):
        raise Violation("shapes", f"wk {wk.shape}, bk_grid {bg.shape} {bg.dtype}")
    if bk.NNB != NNB or bk.NK != N:
        raise Violation("shapes", f"NNB={bk.NNB} NK={bk.NK}")
    if not np.all(np.isfinite(wk)):
        raise Violation("weights-not-finite", str(wk))
    b = bg @ basis
    if reldiff(np.array(bk.bk_cart), b) > 1e-12:
        raise Violation("bk_cart", "bk_cart != bk_grid . B / N")
    if reldiff(np.array(bk.bk_red), bg / mp[None, :]) > 1e-14:
        raise Violation("bk_red", "bk_red != bk_grid / N")
    if not np.array_equal(np.array(bk.kpt_grid), kint):
        raise Violation("kpt_grid", "kpt_grid differs from the integer coordinates of the input k-points")
    # completeness
    C = np.einsum("b,bi,bj->ij", wk, b, b)
    err = float(np.linalg.norm(C - np.eye(3)))
    if err > COMPLETE_TOL * 1.01:
        raise Violation("completeness", f"|sum_b w b b^T - 1|_F = {err:.3e} > 1e-5; weights {wk.tolist()}")
    # closure and duplicates
    tup = [tuple(int(x) for x in v) for v in bg]
    idx = {t: i for i, t in enumerate(tup)}
    if len(idx) != NNB:
        raise Violation("duplicate-b", f"{NNB - len(idx)} b-vectors listed twice")
    if (0, 0, 0) in idx:
        raise Violation("zero-b", "the zero vector is among the b-vectors")
    wscale = maxabs(wk)
    for t, i in idx.items():
        j = idx.get(tuple(-x for x in t))
        if j is None:
            raise Violation("closure", f"b={t} chosen but -b is not")
        if abs(wk[i] - wk[j]) > 1e-12 * wscale:
            raise Violation("closure-weights", f"w(b)={wk[i]!r} != w(-b)={wk[j]!r} for b={t}")
    # whole shells: brute force over a box that contains the ball of radius max|b| (+margin)
    blen = np.sqrt((b ** 2).sum(axis=1))
    rmax = blen.max() * (1 + 1e-6) + 1e-5
    Binv = np.linalg.inv(basis)
    J = np.ceil(rmax * np.sqrt((Binv ** 2).sum(axis=0))).astype(int) + 1
    if np.prod(2 * J + 1) > 4_000_000:
        raise Inconclusive("shell enumeration box too large")
    ax = [np.arange(-int(j), int(j) + 1) for j in J]
    g = np.stack(np.meshgrid(*ax, indexing="ij"), axis=-1).reshape(-1, 3)
    gl = np.sqrt(((g @ basis) ** 2).sum(axis=1))
    keep = (gl <= rmax) & (gl > 0)
    g, gl = g[keep], gl[keep]
    chosen = np.array([tuple(int(x) for x in v) in idx for v in g])
    if chosen.sum() != NNB:
        raise RuntimeError("harness: enumeration box does not contain all chosen b-vectors")
    shell_lengths = []
    for ln_b in np.sort(blen):
        if not shell_lengths or ln_b - shell_lengths[-1] > SAME * (1 + ln_b):
            shell_lengths.append(ln_b)
    tie = False
    for ln_s in shell_lengths:
        d = np.abs(gl - ln_s)
        same = d <= SAME * (1 + ln_s)
        lost = same & ~chosen
        if lost.any():
            v = g[lost][0]
            outside = bool(np.any(np.abs(v) > 2 * mp))
            raise Violation("partial-shell",
                            f"mesh vector {v.tolist()} has the length {ln_s:.9f} of a chosen shell but is not chosen"
                            + (" (it lies outside the +-2N search range)" if outside else ""))
        if np.any(~same & (d <= 10 * KMESH_TOL) & ~chosen):
            tie = True
        ws = wk[[idx[tuple(int(x) for x in v)] for v in g[same]]]
        if np.ptp(ws) > 1e-12 * wscale:
            raise Violation("shell-weights-unequal", f"shell |b|={ln_s:.6f} carries weights {sorted(set(ws.tolist()))}")
    if tie:
        raise Inconclusive("mesh vector within kmesh_tol of a chosen shell length (tie)")
    # neighbours and G
    if sorted(bk.neighbours.keys()) != list(range(N)) or sorted(bk.G.keys()) != list(range(N)):
        raise Violation("neighbour-keys", "neighbours / G do not cover all k-points")
    for ik in range(N):
        nb = np.array(bk.neighbours[ik])
        G = np.array(bk.G[ik])
        if nb.shape != (NNB,) or G.shape != (NNB, 3):
            raise Violation("neighbour-shapes", f"ik={ik}: {nb.shape} {G.shape}")
        if nb.min() < 0 or nb.max() >= N:
            raise Violation("neighbour-range", f"ik={ik}: neighbour index outside 0..{N - 1}")
        lhs = kint[ik][None, :] + bg
        rhs = kint[nb] + G * mp[None, :]
        bad = np.where(np.any(lhs != rhs, axis=1))[0]
        if len(bad):
            ib = int(bad[0])
            raise Violation("k+b=k'+G", f"k#{ik}={kint[ik].tolist()} b={bg[ib].tolist()}: neighbour #{int(nb[ib])}="
                                        f"{kint[nb[ib]].tolist()} G={G[ib].tolist()} mesh {mp.tolist()}")
    nshell = len(shell_lengths)
    nonorth = kind not in ORTHOGONAL
    labels += [f"shells={nshell}", f"NNB={NNB}", "complete@1e-8" if err <= 1e-8 else "complete-only@1e-5",
               "negative-weight" if wk.min() < 0 else None]
    return ok(nshell >= 2 or nonorth, *labels)


SUBS = [Sub("bk", case_st(), check, quick=1600, thorough=24000, budget_quick=70, budget_thorough=500)]
