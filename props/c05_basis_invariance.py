"""C05  Results are invariant under relabelling or rotating the Wannier basis (DESIGN 4/C05)

Metamorphic relations on random Hermitian models with Ham, AA, BB, CC, SS:
 * permutation pi of the Wannier functions, applied (i) by System_R.reorder(pi) and (ii) by the harness on the
   pure-numpy model (matrices, centres) -> the two systems have identical real-space data (model-based oracle for
   reorder), reorder(pi) followed by reorder(pi^-1) is the identity, and every band-resolved tabulation and every
   integrated calculator output is unchanged;
 * one k-independent unitary U, block diagonal over groups of WFs that share a centre (Haar distributed, from the
   case seed), applied by the harness to all real-space matrices X_R -> U^dagger X_R U -> same invariance.
Outputs are compared on an FFT grid of 1-4 k-points with a generic shift (per-k data objects; integrated
calculators are sums of these, so per-k-set equality is what run() would integrate).
"""
import numpy as np
from hypothesis import strategies as st

from vlib.runner import Sub, Violation, Inconclusive, ok
from vlib.util import rng_of, fl
from vlib import wbsys

PROPERTY_ID = "C05"
RULE = ("random Hermitian models with 2-5 WFs in 1-3 co-centred groups (11 lattice families), matrices Ham, AA, BB, CC "
        "(+SS), as constructed or after do_ws_dist(mp_grid 3|4|[3,4,5]), random permutation and Haar block-unitary; FFT grid up to 2x1x2 with generic dK; 16 tabulators / static "
        "calculators; non-trivial = permutation moves WFs between different centres, or U mixes >=2 WFs while external "
        "terms are non-zero")
ASSUMPTIONS = ["tolerance 1e-8*(1+scale)*max(1,(1e-3/gap)^2), gap = smallest band gap on the k set (harness bands); gaps in "
               "(1e-9,1e-5) -> inconclusive", "static calculators are built with use_factor=False (natural units)"]
MIN_NONTRIVIAL = {"quick": 20, "thorough": 300}

KEYS = ("Ham", "AA", "BB", "CC")


@st.composite
def case_st(draw):
    p = draw(wbsys.model_params_st(min_wann=2, max_wann=5, max_npairs=4, rmax=1, keys=KEYS, optional_keys=("SS",)))
    nw = p["nw"]
    ngroups = draw(st.integers(1, min(3, nw)))
    # assignment of WFs to centre groups; every group non-empty
    assign = list(range(ngroups)) + [draw(st.integers(0, ngroups - 1)) for _ in range(nw - ngroups)]
    assign = draw(st.permutations(assign))
    gc = [[draw(st.sampled_from([0.0, 0.5, 0.25, 1 / 3, 0.1234, 1.25, -0.75])) for _ in range(3)] for _ in range(ngroups)]
    # make group centres distinct
    for i in range(ngroups):
        gc[i][0] += 0.01 * i
    p["centres"] = [list(gc[g]) for g in assign]
    p["ckind"] = "groups"
    return dict(model=p, assign=list(assign), perm=list(draw(st.permutations(list(range(nw))))),
                us=draw(st.integers(0, 2 ** 32)), NKFFT=draw(st.sampled_from([[1, 1, 1], [2, 1, 1], [1, 1, 2], [2, 1, 2]])),
                dK=[draw(fl(0.01, 0.49)) for _ in range(3)],
                Ef=draw(st.lists(st.sampled_from([-1.2, -0.4, 0.05, 0.6, 1.3]), min_size=1, max_size=2, unique=True)),
                # history of the system before it is relabelled: as constructed, or after do_ws_dist() (the R-vector
                # object is then one that was assembled by the code from explicit left and right shifts)
                prep=draw(st.sampled_from(["fresh", "fresh", "ws_dist"])), mp=draw(st.sampled_from([3, 4, [3, 4, 5]])))


def haar(rng, n):
    z = rng.normal(size=(n, n)) + 1j * rng.normal(size=(n, n))
    q, r = np.linalg.qr(z)
    d = np.diag(r)
    return q * (d / np.abs(d))


def block_unitary(assign, seed):
    rng = rng_of(seed)
    n = len(assign)
    U = np.zeros((n, n), dtype=complex)
    for g in sorted(set(assign)):
        idx = [i for i, a in enumerate(assign) if a == g]
        U[np.ix_(idx, idx)] = haar(rng, len(idx))
    return U


def evaluate(system, case, has_SS):
    import wannierberri as wb
    from wannierberri.calculators import tabulate, static
    from wannierberri.data_K import get_data_k_class_from_system
    grid = wb.Grid(system, NKdiv=1, NKFFT=np.array(case["NKFFT"]), use_symmetry=False)
    dk = get_data_k_class_from_system(system)(system, grid=grid, dK=np.array(case["dK"], dtype=float) / np.array(case["NKFFT"]))
    Ef = np.array(sorted(case["Ef"]))
    nf = dict(use_factor=False)
    internal = {"external_terms": False}
    c = {"tE": tabulate.Energy(), "tOmega": tabulate.BerryCurvature(), "tOmega_int": tabulate.BerryCurvature(kwargs_formula=internal),
         "tVel": tabulate.Velocity(), "tMorb": tabulate.OrbitalMoment(), "tDerOmega": tabulate.DerBerryCurvature(),
         "tInvMass": tabulate.InvMass(),
         "ahc": static.AHC(Efermi=Ef, **nf), "ohmic": static.Ohmic_FermiSea(Efermi=Ef, **nf),
         "ohmic_surf": static.Ohmic_FermiSurf(Efermi=Ef, **nf), "bd": static.BerryDipole_FermiSea(Efermi=Ef, **nf),
         "morb": static.Morb(Efermi=Ef, **nf), "cumdos": static.CumDOS(Efermi=Ef, **nf),
         "gme_orb": static.GME_orb_FermiSea(Efermi=Ef, **nf), "nldrude": static.NLDrude_FermiSea(Efermi=Ef, **nf)}
    if has_SS:
        c["tSpin"] = tabulate.Spin()
        c["spin"] = static.Spin(Efermi=Ef, **nf)
        c["gme_spin"] = static.GME_spin_FermiSea(Efermi=Ef, **nf)
    return {k: np.asarray(v(dk).data) for k, v in c.items()}, np.asarray(dk.kpoints_all)


def compare(tag, a, b, tol):
    for k in a:
        s = 1 + max(np.max(np.abs(a[k])), np.max(np.abs(b[k])))
        d = float(np.max(np.abs(a[k] - b[k])))
        if d > tol * s:
            raise Violation(f"{tag}:{k}", f"'{k}' changes by {d:.3e} (scale {s:.3e}, tol {tol:.1e})")


def check(case):
    model = wbsys.make_model(case["model"])
    nw = model.nw
    has_SS = "SS" in model.mats
    assign = case["assign"]
    perm = np.array(case["perm"])
    def prepared(m):
        sy = wbsys.to_system(m)
        if case.get("prep") == "ws_dist":
            sy.do_ws_dist(mp_grid=case["mp"])
        return sy

    base_sys = prepared(model)
    if case.get("prep") == "ws_dist":
        # minimal-distance replicas may move / split R-vectors: the model that is relabelled below is the one the code
        # holds after this step (read back; relabelling itself never changes the R set)
        model = wbsys.model_of_system(base_sys)
    base, kpts = evaluate(base_sys, case, has_SS)
    gaps = []
    for k in kpts:
        E = model.bands(k)
        gaps += list(np.diff(E))
    gaps = np.array(gaps) if gaps else np.array([np.inf])
    if np.any((gaps > 1e-9) & (gaps < 1e-5)):
        raise Inconclusive("near-degenerate bands")
    g = gaps[gaps > 1e-4].min() if np.any(gaps > 1e-4) else np.inf
    tol = 1e-8 * max(1.0, (1e-3 / g) ** 2)
    ref_E = np.array([model.bands(k) for k in kpts])
    if np.max(np.abs(base["tE"] - ref_E)) > 1e-9 * (1 + np.max(np.abs(ref_E))):
        raise Violation("energies-vs-explicit-sum", "tabulated energies differ from the harness band structure")

    # ---- permutation through System_R.reorder and through the harness model ------------------------
    s_re = prepared(wbsys.make_model(case["model"]))
    s_re.reorder(perm)
    pm = wbsys.Model(model.lattice, model.wcc_red[perm], model.iRvec,
                     {k: X[:, perm][:, :, perm] for k, X in model.mats.items()})
    got = wbsys.model_of_system(s_re)
    if np.max(np.abs(got.wcc_red - pm.wcc_red)) > 1e-12:
        raise Violation("reorder:centres", "reorder() did not permute the Wannier centres as the model does")
    gm, rm = wbsys.mats_by_R(got), wbsys.mats_by_R(pm)
    for key in rm:
        for R in rm[key]:
            if R not in gm[key] or np.max(np.abs(gm[key][R] - rm[key][R])) > 1e-13:
                raise Violation("reorder:matrices", f"reorder() matrix {key}{R} differs from the permuted model")
    sl = np.asarray(s_re.rvec.shifts_left_red)
    sr = np.asarray(s_re.rvec.shifts_right_red)
    if np.max(np.abs(sl - pm.wcc_red)) > 1e-12 or np.max(np.abs(sr - pm.wcc_red)) > 1e-12:
        raise Violation("reorder:shifts", "R-vector shifts were not permuted consistently with the centres")
    res_re, _ = evaluate(s_re, case, has_SS)
    compare("permutation(reorder)", base, res_re, tol)
    res_pm, _ = evaluate(wbsys.to_system(pm), case, has_SS)
    compare("permutation(model)", base, res_pm, tol)
    inv = np.argsort(perm)
    s_re.reorder(inv)
    back = wbsys.model_of_system(s_re)
    if np.max(np.abs(back.wcc_red - model.wcc_red)) > 1e-12:
        raise Violation("reorder:inverse", "reorder(pi); reorder(pi^-1) is not the identity on the centres")
    bm, mm = wbsys.mats_by_R(back), wbsys.mats_by_R(model)
    for key in mm:
        for R in mm[key]:
            if np.max(np.abs(bm[key][R] - mm[key][R])) > 1e-13:
                raise Violation("reorder:inverse", f"reorder(pi); reorder(pi^-1) changed {key}{R}")
    res_back, _ = evaluate(s_re, case, has_SS)
    compare("reorder-roundtrip", base, res_back, tol)

    # ---- co-centred unitary rotation --------------------------------------------------------------
    U = block_unitary(assign, case["us"])
    rot = wbsys.Model(model.lattice, model.wcc_red, model.iRvec,
                      {k: np.einsum("ba,rbc...,cd->rad...", U.conj(), X, U) for k, X in model.mats.items()})
    res_rot, _ = evaluate(wbsys.to_system(rot), case, has_SS)
    compare("rotation", base, res_rot, tol)

    moved = any(assign[perm[i]] != assign[i] for i in range(nw))
    mixes = max(np.sum(np.array(assign) == g_) for g_ in set(assign)) >= 2
    ext = np.max(np.abs(base["tOmega"] - base["tOmega_int"])) > 1e-8
    return ok(moved or (mixes and ext), "perm-moves-centres" if moved else None, "U-mixes" if mixes else None,
              "ext-terms" if ext else None, case.get("prep", "fresh"), f"nw={nw}", f"groups={len(set(assign))}", "SS" if has_SS else None)


SUBS = [Sub("basis", case_st(), check, quick=48, thorough=960, budget_quick=80, budget_thorough=500)]
